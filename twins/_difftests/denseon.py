# Differential test for the dense-time ONLINE operations of rtamt.
# usage: PYTHONPATH=<tree> /venv/bin/python twins/diff_test.py > out.txt
# Deterministic (seeded); prints every result / exception type in canonical text.
import sys
import types
import random
import signal
import logging

logging.disable(logging.CRITICAL)

import rtamt
from rtamt.semantics.enumerations.comp_oper import StlComparisonOperator as Cmp
import rtamt.semantics.stl.dense_time.online.intersection as I
from rtamt.semantics.stl.dense_time.online.always_operation import AlwaysOperation
from rtamt.semantics.stl.dense_time.online.and_operation import AndOperation
from rtamt.semantics.stl.dense_time.online.constant_operation import ConstantOperation
from rtamt.semantics.stl.dense_time.online.historically_operation import HistoricallyOperation
from rtamt.semantics.stl.dense_time.online.historically_timed_operation import HistoricallyTimedOperation
from rtamt.semantics.stl.dense_time.online.iff_operation import IffOperation
from rtamt.semantics.stl.dense_time.online.implies_operation import ImpliesOperation
from rtamt.semantics.stl.dense_time.online.not_operation import NotOperation
from rtamt.semantics.stl.dense_time.online.once_operation import OnceOperation
from rtamt.semantics.stl.dense_time.online.once_timed_operation import OnceTimedOperation
from rtamt.semantics.stl.dense_time.online.or_operation import OrOperation
from rtamt.semantics.stl.dense_time.online.predicate_operation import PredicateOperation
from rtamt.semantics.stl.dense_time.online.since_operation import SinceOperation
from rtamt.semantics.stl.dense_time.online.since_timed_operation import SinceTimedOperation
from rtamt.semantics.stl.dense_time.online.variable_operation import VariableOperation
from rtamt.semantics.stl.dense_time.online.xor_operation import XorOperation
from rtamt.semantics.arithmetic.dense_time.online.abs_operation import AbsOperation
from rtamt.semantics.arithmetic.dense_time.online.addition_operation import AdditionOperation
from rtamt.semantics.arithmetic.dense_time.online.division_operation import DivisionOperation
from rtamt.semantics.arithmetic.dense_time.online.exp_operation import ExpOperation
from rtamt.semantics.arithmetic.dense_time.online.ln_operation import LnOperation
from rtamt.semantics.arithmetic.dense_time.online.log_operation import LogOperation
from rtamt.semantics.arithmetic.dense_time.online.multiplication_operation import MultiplicationOperation
from rtamt.semantics.arithmetic.dense_time.online.negate_operation import NegateOperation
from rtamt.semantics.arithmetic.dense_time.online.pow_operation import PowOperation
from rtamt.semantics.arithmetic.dense_time.online.sqrt_operation import SqrtOperation
from rtamt.semantics.arithmetic.dense_time.online.subtraction_operation import SubtractionOperation
from rtamt.semantics.iastl.dense_time.online.predicate_operation import PredicateOperation as IAPredicateOperation
from rtamt.semantics.enumerations.options import Semantics

R = random.Random(20240911)


# ---------------------------------------------------------------- helpers
class Timeout(Exception):
    pass


def _alarm(signum, frame):
    raise Timeout()


signal.signal(signal.SIGALRM, _alarm)


def canon(x, depth=0):
    """canonical text of a result / of an operation's state"""
    if depth > 6:
        return '...'
    if isinstance(x, float):
        return repr(x)
    if isinstance(x, bool) or x is None or isinstance(x, (int, str)):
        return repr(x)
    if isinstance(x, list):
        return '[' + ', '.join(canon(e, depth + 1) for e in x) + ']'
    if isinstance(x, tuple):
        return '(' + ', '.join(canon(e, depth + 1) for e in x) + ')'
    if isinstance(x, dict):
        items = sorted((str(k), canon(v, depth + 1)) for k, v in x.items())
        return '{' + ', '.join(k + ': ' + v for k, v in items) + '}'
    if isinstance(x, (Cmp, Semantics)):
        return str(x)
    if isinstance(x, (set, frozenset)):
        return 'set(' + ', '.join(sorted(canon(e, depth + 1) for e in x)) + ')'
    if hasattr(x, '__dict__'):
        return type(x).__name__ + canon(dict(vars(x)), depth + 1)
    return type(x).__name__


def call(label, fn, *args, **kwargs):
    """run fn, print its canonical result or the exception type"""
    signal.alarm(20)
    try:
        res = fn(*args, **kwargs)
        signal.alarm(0)
        print(label, '->', canon(res))
        return res
    except Timeout:
        print(label, '-> TIMEOUT')
    except BaseException as e:  # noqa
        signal.alarm(0)
        print(label, '-> EXC', type(e).__name__)
    return None


VALS = [-2, -1, 0, 0.0, -0.0, 1, 1.0, 1.5, 2, 2.5, 3, -3.25, 0.5, 7, float('inf'), -float('inf')]
FINITE = [-2, -1, 0, 0.0, 1, 1.0, 1.5, 2, 2.5, 3, -3.25, 0.5, 7, -0.5, 4]
POSVALS = [0.5, 1, 1.0, 1.5, 2, 2.5, 3, 7, 0, -1]


def rand_signal(r, n=None, start=None, vals=None, int_times=None, sloppy=False):
    """list of [t, v]; strictly increasing times unless sloppy"""
    if n is None:
        n = r.choice([0, 1, 1, 2, 3, 4, 5, 6, 8])
    if vals is None:
        vals = FINITE if r.random() < 0.8 else VALS
    if int_times is None:
        int_times = r.random() < 0.4
    if start is None:
        start = r.choice([0, 0, 0, 0.0, 0.5, 1, 2])
    t = start
    out = []
    equalrun = r.random() < 0.25
    v = r.choice(vals)
    for k in range(n):
        if not (equalrun and r.random() < 0.6):
            v = r.choice(vals)
        out.append([t, v])
        if int_times:
            step = r.choice([1, 1, 2, 3])
        else:
            step = r.choice([0.25, 0.5, 0.5, 1, 1.0, 1.5, 2, 3.75])
        if sloppy and r.random() < 0.2:
            step = r.choice([0, 0, -1])
        t = t + step
    return out


def chunks(r, sig, overlap=None):
    """cut a signal into consecutive batches; with overlap the next batch restarts at the last time stamp"""
    if overlap is None:
        overlap = r.random() < 0.5
    out = []
    k = 0
    n = len(sig)
    while k < n:
        size = r.choice([1, 1, 2, 3, 4, n])
        part = [list(s) for s in sig[k:k + size]]
        out.append(part)
        k = k + size
        if overlap and k < n and r.random() < 0.8:
            k = k - 1
    if r.random() < 0.3:
        out.insert(r.randrange(len(out) + 1), [])
    if not out:
        out = [[]]
    return out


def aligned_chunks(r, sig_a, sig_b):
    """batches of two signals cut at common time horizons"""
    ca, cb = [], []
    times = sorted(set([s[0] for s in sig_a] + [s[0] for s in sig_b]))
    if not times:
        return [[]], [[]]
    cuts = sorted(set(r.sample(times, min(len(times), r.choice([0, 1, 2, 3])))))
    cuts.append(float('inf'))
    lo = -float('inf')
    incl = r.random() < 0.5
    for c in cuts:
        if incl:
            ca.append([list(s) for s in sig_a if lo <= s[0] <= c])
            cb.append([list(s) for s in sig_b if lo <= s[0] <= c])
        else:
            ca.append([list(s) for s in sig_a if lo < s[0] <= c])
            cb.append([list(s) for s in sig_b if lo < s[0] <= c])
        lo = c
    return ca, cb


# ---------------------------------------------------------------- A. intersection module
def section_intersection():
    print('== A intersection')
    methods = [('conj', I.conjunction), ('disj', I.disjunction), ('impl', I.implication), ('xor', I.xor),
               ('iff', I.iff), ('add', I.addition), ('sub', I.subtraction), ('mul', I.multiplication),
               ('div', I.division), ('pow', I.power), ('log', I.log), ('split', I.split)]
    r = random.Random(R.random())
    for k in range(700):
        sloppy = r.random() < 0.15
        a = rand_signal(r, sloppy=sloppy)
        b = rand_signal(r, sloppy=sloppy)
        if r.random() < 0.2:
            # same time axis
            b = [[s[0], r.choice(FINITE)] for s in a]
        if r.random() < 0.1:
            a = tuple(a)
        name, m = r.choice(methods)
        a0, b0 = canon(a), canon(b)
        call('A%03d %s a=%s b=%s' % (k, name, a0, b0), I.intersection, a, b, m)
        if canon(a) != a0 or canon(b) != b0:
            print('  inputs changed', canon(a), canon(b))
    for k in range(60):
        x = [r.choice([0, 1, 1.0, 2, 2.5, 3, -1]) for _ in range(4)]
        call('A-intersects %s' % canon(x), I.intersects, *x)
    for k in range(40):
        lst = rand_signal(r, n=r.choice([0, 1, 3]))
        item = [r.choice([0, 1, 5]), r.choice(FINITE)]
        call('A-_append %s %s' % (canon(lst), canon(item)), I._append, lst, item)
        print('   list', canon(lst))
    for name in ['ln', 'disjunction', 'conjunction', 'implication', 'xor', 'iff']:
        f = getattr(I, name)
        for k in range(6):
            if name == 'ln':
                call('A-%s' % name, f, r.choice(POSVALS))
            else:
                call('A-%s' % name, f, r.choice(VALS), r.choice(VALS))
    call('A-interval_union', I.interval_union, (0, 2, 1), (1, 3, 2), max)
    call('A-interval_union2', I.interval_union, (0, 1, 1), (2, 3, 2), max)
    call('A-union-empty', I.union, [], (0, 1, 2))
    call('A-union', I.union, [(0, 1, 2)], (0, 1, 2))


# ---------------------------------------------------------------- B. operation classes
class FakeNode(object):
    def __init__(self, op):
        self.operator = op


def drive_unary(label, op, batches, final):
    for n, batch in enumerate(batches):
        before = canon(batch)
        if final and n == len(batches) - 1:
            call('%s final(%s)' % (label, before), op.update_final, batch)
        else:
            call('%s upd(%s)' % (label, before), op.update, batch)
        if canon(batch) != before:
            print('   input changed', canon(batch))
        print('   state', canon(op))


def drive_binary(label, op, batches_l, batches_r, final, final_node=None):
    for n in range(max(len(batches_l), len(batches_r))):
        bl = batches_l[n] if n < len(batches_l) else []
        br = batches_r[n] if n < len(batches_r) else []
        before = canon([bl, br])
        if final and n == max(len(batches_l), len(batches_r)) - 1:
            if final_node is not None:
                call('%s final(%s)' % (label, before), op.update_final, final_node, bl, br)
            else:
                call('%s final(%s)' % (label, before), op.update_final, bl, br)
        else:
            call('%s upd(%s)' % (label, before), op.update, bl, br)
        if canon([bl, br]) != before:
            print('   input changed', canon([bl, br]))
        print('   state', canon(op))


BOUNDS = [(0, 0), (0, 1), (0, 2), (1, 1), (1, 2), (0.5, 1.5), (2, 5), (0, 100), (3, 3), (0, 0.25), (1, 1000), (0.0, 2.0)]


def section_unary_ops():
    print('== B1 unary operations')
    r = random.Random(R.random())
    plain = [OnceOperation, HistoricallyOperation, AlwaysOperation, NotOperation, AbsOperation, NegateOperation,
             ExpOperation, LnOperation, SqrtOperation]
    for k in range(260):
        cls = r.choice(plain)
        op = cls()
        vals = POSVALS if cls in (LnOperation, SqrtOperation) else None
        sig = rand_signal(r, vals=vals)
        drive_unary('B1-%03d %s' % (k, cls.__name__), op, chunks(r, sig), r.random() < 0.3)
        call('B1-%03d reset' % k, op.reset)
        print('   state', canon(op))
    # exp overflow, ln/sqrt of bad values
    call('B1 exp big', ExpOperation().update, [[0, 1000]])
    call('B1 ln 0', LnOperation().update, [[0, 0]])
    call('B1 sqrt -1', SqrtOperation().update, [[0, 1], [1, -1]])
    call('B1 sqrt kw', SqrtOperation().update_final, [[0, 4]])


def section_timed_ops():
    print('== B2 timed unary operations')
    r = random.Random(R.random())
    for k in range(700):
        cls = r.choice([OnceTimedOperation, HistoricallyTimedOperation])
        b, e = r.choice(BOUNDS)
        op = cls(b, e)
        sloppy = r.random() < 0.05
        sig = rand_signal(r, sloppy=sloppy)
        if r.random() < 0.1:
            sig = [[s[0], 1] for s in sig]
        if r.random() < 0.1:
            sig = [[s[0], float(n)] for n, s in enumerate(sig)]
        if r.random() < 0.1:
            sig = [[s[0], -float(n)] for n, s in enumerate(sig)]
        label = 'B2-%03d %s[%s,%s]' % (k, cls.__name__, canon(b), canon(e))
        drive_unary(label, op, chunks(r, sig), r.random() < 0.35)
        call(label + ' reset', op.reset)
        if r.random() < 0.3:
            # keep going after the reset / after the final update
            sig2 = rand_signal(r, start=(sig[-1][0] if sig else 0))
            drive_unary(label + ' again', op, chunks(r, sig2), r.random() < 0.3)
    # tuples as samples, tuple as batch
    op = OnceTimedOperation(1, 2)
    call('B2 tuple samples', op.update, [(0, 1), (1, 3), (4, 2)])
    print('   state', canon(op))
    op = HistoricallyTimedOperation(1, 2)
    call('B2 tuple batch', op.update, ((0, 1), (1, 3), (4, 2)))
    call('B2 tuple batch 2', op.update, ((4, 1), (5, 3)))
    print('   state', canon(op))
    op = OnceTimedOperation(0, 1)
    call('B2 bad sample', op.update, [[0], [1]])
    op = HistoricallyTimedOperation(0, 1)
    call('B2 none', op.update, None)
    op = OnceTimedOperation(0, 1)
    call('B2 str values', op.update, [[0, 'a'], [1, 'b'], [2, 'a']])


def section_binary_ops():
    print('== B3 binary operations')
    r = random.Random(R.random())
    classes = [AndOperation, OrOperation, ImpliesOperation, IffOperation, XorOperation, AdditionOperation,
               SubtractionOperation, MultiplicationOperation, DivisionOperation, PowOperation, LogOperation,
               SinceOperation, SinceOperation, SubtractionOperation, SubtractionOperation]
    for k in range(700):
        cls = r.choice(classes)
        op = cls()
        vals = POSVALS if cls in (LogOperation, PowOperation, DivisionOperation) and r.random() < 0.7 else None
        a = rand_signal(r, vals=vals)
        b = rand_signal(r, vals=vals)
        mode = r.random()
        if mode < 0.3:
            b = [[s[0], r.choice(vals or FINITE)] for s in a]
        if mode < 0.6:
            ca, cb = aligned_chunks(r, a, b)
        else:
            ca, cb = chunks(r, a), chunks(r, b)
        label = 'B3-%03d %s' % (k, cls.__name__)
        drive_binary(label, op, ca, cb, r.random() < 0.25)
        call(label + ' reset', op.reset)
        print('   state', canon(op))
    for k in range(200):
        b, e = r.choice(BOUNDS)
        op = SinceTimedOperation(b, e)
        a = rand_signal(r)
        bb = rand_signal(r)
        if r.random() < 0.4:
            bb = [[s[0], r.choice(FINITE)] for s in a]
        if r.random() < 0.6:
            ca, cb = aligned_chunks(r, a, bb)
        else:
            ca, cb = chunks(r, a), chunks(r, bb)
        label = 'B3s-%03d SinceTimed[%s,%s]' % (k, canon(b), canon(e))
        drive_binary(label, op, ca, cb, r.random() < 0.2)


def section_predicate():
    print('== B4 predicates')
    r = random.Random(R.random())
    ops = list(Cmp)
    for k in range(400):
        cmp_op = r.choice(ops)
        if r.random() < 0.5:
            op = PredicateOperation(cmp_op)
            name = 'Pred'
        else:
            sem = r.choice([Semantics.OUTPUT_ROBUSTNESS, Semantics.INPUT_ROBUSTNESS, Semantics.INPUT_VACUITY,
                            Semantics.OUTPUT_VACUITY, Semantics.STANDARD])
            op = IAPredicateOperation(cmp_op, sem, r.choice([set(), set(['a'])]), r.choice([set(), set(['b'])]))
            name = 'IAPred'
        a = rand_signal(r)
        b = rand_signal(r)
        mode = r.random()
        if mode < 0.4:
            b = [[s[0], r.choice(FINITE)] for s in a]
        if mode < 0.5 and a:
            b = [[a[0][0], r.choice(FINITE)], [float('inf'), 1]]
            b[1][1] = b[0][1]
        if r.random() < 0.6:
            ca, cb = aligned_chunks(r, a, b)
        else:
            ca, cb = chunks(r, a), chunks(r, b)
        label = 'B4-%03d %s %s' % (k, name, cmp_op)
        final = r.random() < 0.3
        for n in range(max(len(ca), len(cb))):
            bl = ca[n] if n < len(ca) else []
            br = cb[n] if n < len(cb) else []
            before = canon([bl, br])
            call('%s upd(%s)' % (label, before), op.update, bl, br)
            if name == 'Pred':
                call('%s sat' % label, op.sat, bl, br)
            if canon([bl, br]) != before:
                print('   input changed')
            print('   state', canon(op))
        if final:
            tail_a = rand_signal(r, start=(a[-1][0] if a else 0), n=r.choice([0, 1, 2]))
            tail_b = [[s[0], r.choice(FINITE)] for s in tail_a]
            if name == 'Pred':
                call('%s final' % label, op.update_final, FakeNode(r.choice(ops)), tail_a, tail_b)
                call('%s sat_final' % label, op.sat_final, tail_a, tail_b)
            else:
                call('%s final' % label, op.update_final, tail_a, tail_b)
            print('   state', canon(op))
    # an operator object that is not one of the six comparison operators
    for bogus in [FakeNode(None), None, 3]:
        op = PredicateOperation(bogus)
        call('B4 bogus empty', op.update, [], [])
        call('B4 bogus', op.update, [[0, 1], [1, 2]], [[0, 2], [1, 1]])
        call('B4 bogus sat', op.sat, [], [])

    class V(object):
        def __init__(self, value):
            self.value = value
    for v in [0, 1, 2, 3, 4, 5, 6, -1, 2.0, True, None, 'x']:
        op = PredicateOperation(V(v))
        call('B4 valued %s' % canon(v), op.update, [[0, 1], [1, 2], [3, 2]], [[0, 2], [1, 1], [3, 2]])
        call('B4 valued sat %s' % canon(v), op.sat, [], [])
    op = PredicateOperation(Cmp.GEQ)
    call('B4 first', op.update, [[0, 1], [1, 2]], [[0, 2], [1, 1]])
    op.comparison_op = Cmp.LESS
    call('B4 swapped operator', op.update, [[1, 2], [2, 5]], [[1, 1], [2, 0]])


def section_leaves():
    print('== B5 constant / variable operations')
    for v in [0, 1.5, -2, float('inf')]:
        op = ConstantOperation(v)
        call('B5 const', op.update)
        call('B5 const again', op.update)
        call('B5 const final', op.update_final)
        print('   state', canon(op))
    op = VariableOperation()
    call('B5 var', op.update)
    op.val = [[0, 1]]
    call('B5 var', op.update)
    call('B5 var final', op.update_final)


# ---------------------------------------------------------------- C. specifications
mod = types.ModuleType('twin_objs')


class Pt(object):
    def __init__(self, x=0.0, y=0.0):
        self.x = x
        self.y = y
        self.inner = None

    def __repr__(self):
        return 'Pt(%r,%r)' % (self.x, self.y)


Pt.__module__ = 'twin_objs'
mod.Pt = Pt
sys.modules['twin_objs'] = mod

UNITS = ['', '', '', 's', 'ms']


def rand_bound(r, future=False):
    b, e = r.choice([(0, 0), (0, 1), (0, 2), (1, 1), (1, 2), (1, 3), (2, 5), (0, 50), (3, 3), (0.5, 1.5), (0.25, 0.5)])
    u = r.choice(UNITS)
    if u == 'ms':
        b, e = b * 1000, e * 1000
    if isinstance(b, float) or isinstance(e, float):
        if u == 'ms':
            b, e = int(b), int(e)
    style = r.random()
    if u and style < 0.3:
        return '[%s:%s%s]' % (b, e, u) if False else '[%s%s,%s%s]' % (b, u, e, u)
    if u and style < 0.5:
        return '[%s,%s%s]' % (b, e, u)
    return '[%s%s,%s%s]' % (b, u, e, u)


def rand_arith(r, depth, names):
    if depth <= 0 or r.random() < 0.35:
        c = r.random()
        if c < 0.6:
            return r.choice(names)
        if c < 0.7:
            return 'k'
        return r.choice(['0', '1', '2', '0.5', '3', '1.5', '10'])
    c = r.random()
    if c < 0.2:
        return '(%s + %s)' % (rand_arith(r, depth - 1, names), rand_arith(r, depth - 1, names))
    if c < 0.4:
        return '(%s - %s)' % (rand_arith(r, depth - 1, names), rand_arith(r, depth - 1, names))
    if c < 0.55:
        return '(%s * %s)' % (rand_arith(r, depth - 1, names), rand_arith(r, depth - 1, names))
    if c < 0.65:
        return '(%s / %s)' % (rand_arith(r, depth - 1, names), rand_arith(r, depth - 1, names))
    if c < 0.75:
        return 'abs(%s)' % rand_arith(r, depth - 1, names)
    if c < 0.8:
        return 'sqrt(abs(%s))' % rand_arith(r, depth - 1, names)
    if c < 0.85:
        return 'exp(%s)' % rand_arith(r, depth - 1, names)
    if c < 0.9:
        return 'pow(2, %s)' % rand_arith(r, depth - 1, names)
    if c < 0.93:
        return 'ln(abs(%s) + 1)' % rand_arith(r, depth - 1, names)
    if c < 0.96:
        return 'log(abs(%s) + 1, 2)' % rand_arith(r, depth - 1, names)
    return '-(%s)' % rand_arith(r, depth - 1, names)


def rand_formula(r, depth, names, pool, allow_future):
    if pool and r.random() < 0.15:
        return r.choice(pool)  # repeated sub-formula
    if depth <= 0 or r.random() < 0.2:
        cmp_op = r.choice(['<=', '<', '>=', '>', '==', '!=='])
        f = '(%s %s %s)' % (rand_arith(r, 1, names), cmp_op, rand_arith(r, 1, names))
        pool.append(f)
        return f
    c = r.random()
    sub = lambda: rand_formula(r, depth - 1, names, pool, allow_future)
    if c < 0.08:
        f = '(not %s)' % sub()
    elif c < 0.18:
        f = '(%s and %s)' % (sub(), sub())
    elif c < 0.26:
        f = '(%s or %s)' % (sub(), sub())
    elif c < 0.32:
        f = '(%s -> %s)' % (sub(), sub())
    elif c < 0.36:
        f = '(%s <-> %s)' % (sub(), sub())
    elif c < 0.40:
        f = '(%s xor %s)' % (sub(), sub())
    elif c < 0.46:
        f = '(once %s)' % sub()
    elif c < 0.52:
        f = '(historically %s)' % sub()
    elif c < 0.64:
        f = '(once%s %s)' % (rand_bound(r), sub())
    elif c < 0.76:
        f = '(historically%s %s)' % (rand_bound(r), sub())
    elif c < 0.84:
        f = '(%s since %s)' % (sub(), sub())
    elif c < 0.92:
        f = '(%s since%s %s)' % (sub(), rand_bound(r), sub())
    elif allow_future:
        cc = r.random()
        if cc < 0.4:
            f = '(eventually%s %s)' % (rand_bound(r), sub())
        elif cc < 0.8:
            f = '(always%s %s)' % (rand_bound(r), sub())
        else:
            f = '(%s until%s %s)' % (sub(), rand_bound(r), sub())
    else:
        f = r.choice(['(prev %s)', '(rise(%s))', '(fall(%s))', '(next %s)', '(eventually %s)', '(always %s)']) % sub()
    pool.append(f)
    return f


def make_spec(r):
    kind = r.random()
    if kind < 0.5:
        spec = rtamt.StlDenseTimeSpecification()
        sem = 'STD'
    elif kind < 0.6:
        spec = rtamt.StlDenseTimeOnlineSpecification()
        sem = 'ONLINE'
    else:
        s = r.choice([rtamt.Semantics.OUTPUT_ROBUSTNESS, rtamt.Semantics.INPUT_ROBUSTNESS,
                      rtamt.Semantics.INPUT_VACUITY, rtamt.Semantics.OUTPUT_VACUITY])
        spec = rtamt.StlDenseTimeSpecification(semantics=s)
        sem = str(s)
    return spec, sem


def section_specs():
    print('== C specifications')
    r = random.Random(R.random())
    for k in range(450):
        names = ['a', 'b', 'c']
        spec, sem = make_spec(r)
        label = 'C%03d' % k
        try:
            for n in names:
                spec.declare_var(n, r.choice(['float', 'float', 'int']))
            spec.declare_const('k', 'float', r.choice(['1.0', '2', '0.5', '-1']))
            if sem not in ('STD', 'ONLINE'):
                spec.set_var_io_type('a', 'input')
                spec.set_var_io_type('b', r.choice(['input', 'output']))
                spec.set_var_io_type('c', 'output')
            allow_future = r.random() < 0.3
            pool = []
            nsub = r.choice([0, 0, 1])
            text = ''
            if nsub:
                sub = rand_formula(r, 1, names, pool, False)
                spec.declare_var('w', 'float')
                spec.add_sub_spec('w = %s;' % sub)
                text = 'w = %s\n' % sub
                names2 = names + ['w']
            else:
                names2 = names
            phi = rand_formula(r, r.choice([1, 2, 2, 3]), names2, pool, allow_future)
            text = text + 'out = %s' % phi
            spec.spec = 'out = %s' % phi
            if r.random() < 0.3:
                spec.unit = r.choice(['s', 'ms'])
        except BaseException as e:  # noqa
            print(label, 'setup EXC', type(e).__name__)
            continue
        print(label, sem, 'unit=%s' % spec.unit, text.replace('\n', ' ; '))
        ok = call(label + ' parse', lambda: (spec.parse(), 'ok')[1])
        if ok is None:
            continue
        if allow_future or r.random() < 0.5:
            ok = call(label + ' pastify', lambda: (spec.pastify(), 'ok')[1])
            if ok is None:
                continue
        if r.random() < 0.1:
            call(label + ' reset before update', spec.reset)
        sigs = {}
        base = rand_signal(r, n=r.choice([1, 2, 3, 5, 7, 9]), start=0, vals=FINITE)
        for n in names:
            if r.random() < 0.5:
                sigs[n] = [[s[0], r.choice(FINITE)] for s in base]
            else:
                sigs[n] = rand_signal(r, n=r.choice([1, 2, 3, 5, 7]), start=0, vals=FINITE)
        # batches cut at common horizons
        times = sorted(set(s[0] for n in names for s in sigs[n]))
        cuts = sorted(set(r.sample(times, min(len(times), r.choice([0, 1, 2, 3, 4])))))
        cuts.append(float('inf'))
        lo = -float('inf')
        incl = r.random() < 0.5
        batches = []
        for c in cuts:
            if incl:
                batches.append(dict((n, [list(s) for s in sigs[n] if lo <= s[0] <= c]) for n in names))
            else:
                batches.append(dict((n, [list(s) for s in sigs[n] if lo < s[0] <= c]) for n in names))
            lo = c
        reset_at = r.choice([None, None, 0, 1, 2])
        restarted = False
        n = 0
        while n < len(batches):
            batch = batches[n]
            args = [[name, batch[name]] for name in names]
            if r.random() < 0.1:
                r.shuffle(args)
            if r.random() < 0.05:
                args = args[:2]
            before = canon(args)
            res = call('%s update %s' % (label, before), spec.update, *args)
            if canon(args) != before:
                print('   input changed', canon(args))
            if res is not None and r.random() < 0.5:
                for sub in sorted(spec.ast.phi_name_to_node_dict.keys())[:10] + ['out', 'nosuch']:
                    call('%s get_value %s' % (label, sub), spec.get_value, sub)
            if reset_at == n and not restarted:
                call(label + ' reset', spec.reset)
                restarted = True
                if r.random() < 0.7:
                    n = 0
                    continue
            n = n + 1
        if r.random() < 0.15:
            call(label + ' final_update', spec.final_update, ['a', [[100, 1]]])
        if r.random() < 0.15:
            call(label + ' interpreter update_final', spec.online_interpreter.update_final,
                 [['a', [[100, 1], [101, 2]]], ['b', [[100, 1], [101, 2]]], ['c', [[100, 1], [101, 2]]]])
        if r.random() < 0.3:
            try:
                opd = spec.online_interpreter.online_operator_dict
                print(label, 'operators', canon(dict((kk, type(vv).__name__) for kk, vv in opd.items())))
                for kk in sorted(opd):
                    print('   op', kk, canon(opd[kk]))
            except BaseException as e:  # noqa
                print(label, 'operators EXC', type(e).__name__)


def section_object_vars():
    print('== D object variables, corner API calls')
    r = random.Random(R.random())
    for k in range(40):
        label = 'D%02d' % k
        spec = rtamt.StlDenseTimeSpecification()
        try:
            spec.import_module('twin_objs', 'Pt')
            spec.declare_var('p', 'Pt')
            spec.declare_var('q', 'Pt')
            spec.declare_var('a', 'float')
            phi = r.choice(['out = (p.x >= a)', 'out = once[0,1](p.x + p.y >= 1)', 'q.y = (p.x <= 2) and (a >= 0)', 'out = (p.x !== a) or (p.y == a)',
                            'out = historically[0,2]((p.x >= 1) since (p.y <= a))', 'q.x = p.x - p.y >= 0',
                            'out = (p.x >= 1) and (p.x >= 1)'])
            spec.spec = phi
            print(label, phi)
            spec.parse()
            spec.pastify()
        except BaseException as e:  # noqa
            print(label, 'setup EXC', type(e).__name__)
            continue
        base = rand_signal(r, n=r.choice([1, 2, 4, 6]), start=0, vals=FINITE)
        pts = [[s[0], Pt(r.choice(FINITE), r.choice(FINITE))] for s in base]
        avs = [[s[0], r.choice(FINITE)] for s in base]
        cut = r.randrange(len(base) + 1)
        for part_p, part_a in [(pts[:cut], avs[:cut]), (pts[cut:], avs[cut:])]:
            desc = canon([[s[0], repr(s[1])] for s in part_p])
            res = call('%s update p=%s a=%s' % (label, desc, canon(part_a)), spec.update, ['p', part_p], ['a', part_a])
            try:
                obj = spec.ast.var_object_dict
                print('   out objs', sorted((str(kk), canon(vv)) for kk, vv in obj.items() if isinstance(kk, str)))
            except BaseException as e:  # noqa
                print('   objs EXC', type(e).__name__)
            call(label + ' get_value out', spec.get_value, 'out')
        call(label + ' reset', spec.reset)
        res = call('%s update after reset' % label, spec.update, ['p', pts], ['a', avs])
    # corner calls
    spec = rtamt.StlDenseTimeSpecification()
    spec.declare_var('a', 'float')
    spec.spec = 'out = once[0,1](a >= 1)'
    call('D no-parse update', spec.update, ['a', [[0, 1]]])
    spec = rtamt.StlDenseTimeSpecification()
    spec.declare_var('a', 'float')
    spec.spec = 'out = once[0,1](a >= 1)'
    spec.parse()
    call('D no args', spec.update)
    call('D empty list arg', spec.update, [])
    call('D unknown var', spec.update, ['zz', [[0, 1]]])
    call('D ok', spec.update, ['a', [[0, 1], [1, 2]]])
    call('D unknown var after', spec.update, ['zz', [[0, 1]]])
    call('D reset', spec.reset)
    call('D reset twice', spec.reset)
    call('D ok', spec.update, ['a', [[0, 1], [1, 2]]])
    call('D tuple dataset', spec.update, ('a', [[1, 1], [3, 2]]))
    call('D tuple samples', spec.update, ['a', [(3, 1), (4, 0)]])
    call('D tuple batch', spec.update, ['a', ((4, 1), (5, 0))])
    for bad in ['always(a>=1)', 'eventually[0,1](a>=1)', 'a until[0,1] (a>=1)', 'prev (a>=1)', 'rise(a>=1)',
                'fall(a>=1)', 'next(a>=1)', 'a until (a >= 1)', 'eventually(a>=1)', '(a>=1) since[1,2] (a<=1)']:
        spec = rtamt.StlDenseTimeSpecification()
        spec.declare_var('a', 'float')
        spec.spec = 'out = ' + bad
        call('D unsupported parse ' + bad, lambda: (spec.parse(), 'ok')[1])
        call('D unsupported update ' + bad, spec.update, ['a', [[0, 1], [1, 2]]])
        call('D unsupported update again ' + bad, spec.update, ['a', [[1, 1], [2, 2]]])
    # units
    for unit, phi in [('s', 'out = once[500ms,1500ms](a>=1)'), ('ms', 'out = historically[1s,2s](a>=1)'),
                      ('ms', 'out = once[1,2s](a>=1)'), ('s', 'out = (a>=1) since[0,500ms] (a<=2)'),
                      ('us', 'out = once[1ms,2ms](a>=1)'), ('s', 'out = once[1,2](a>=1)')]:
        spec = rtamt.StlDenseTimeSpecification()
        spec.declare_var('a', 'float')
        spec.unit = unit
        spec.spec = phi
        call('D unit parse %s %s' % (unit, phi), lambda: (spec.parse(), 'ok')[1])
        call('D unit update', spec.update, ['a', [[0, 1], [0.5, 2], [1, 0], [2000, 3]]])
        try:
            for kk, vv in sorted(spec.online_interpreter.online_operator_dict.items()):
                print('   op', kk, canon(vv))
        except BaseException as e:  # noqa
            print('   EXC', type(e).__name__)


if __name__ == '__main__':
    sys.stderr.write('rtamt imported from %s\n' % rtamt.__file__)
    section_intersection()
    section_unary_ops()
    section_timed_ops()
    section_binary_ops()
    section_predicate()
    section_leaves()
    section_specs()
    section_object_vars()
    print('== done')
