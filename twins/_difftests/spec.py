# -*- coding: utf-8 -*-
"""Differential test for the specification layer / unit handling / jitter code.

usage:  PYTHONPATH=<tree> /venv/bin/python twins/diff_test.py > out.txt

Deterministic (seeded).  Every result and every exception type is printed in a
canonical text form; two trees behave alike iff the outputs are byte-identical.
"""
import logging
import random
import sys
from decimal import Decimal
from fractions import Fraction

import os
DEBUG = bool(os.environ.get("TWIN_DEBUG"))

import rtamt
from rtamt.semantics.interval.interval import Interval
from rtamt.semantics.enumerations.options import Semantics, Language
import rtamt.spec.stl.discrete_time.specification as stl_dt
import rtamt.spec.stl.dense_time.specification as stl_ct
import rtamt.spec.iastl.discrete_time.specification as iastl_dt
import rtamt.spec.iastl.dense_time.specification as iastl_ct

U = {'s': 10 ** 9, 'ms': 10 ** 6, 'us': 10 ** 3, 'ns': 1}
UNITS = ['s', 'ms', 'us', 'ns']


# ----------------------------------------------------------------------------
# canonical printing
# ----------------------------------------------------------------------------
def canon(x):
    if x is None or isinstance(x, (bool, int, str)):
        return type(x).__name__ + ':' + repr(x)
    if isinstance(x, float):
        return 'float:' + repr(x)
    if isinstance(x, Fraction):
        return 'Fraction:%d/%d' % (x.numerator, x.denominator)
    if isinstance(x, Decimal):
        return 'Decimal:' + str(x)
    if isinstance(x, (list, tuple)):
        return type(x).__name__ + '[' + ', '.join(canon(i) for i in x) + ']'
    if isinstance(x, (set, frozenset)):
        return type(x).__name__ + '{' + ', '.join(sorted(canon(i) for i in x)) + '}'
    if isinstance(x, dict):
        items = sorted((canon(k), canon(v)) for k, v in x.items())
        return 'dict{' + ', '.join(k + ' => ' + v for k, v in items) + '}'
    name = getattr(x, 'name', None)
    if isinstance(name, str):
        return 'obj<' + type(x).__name__ + ':' + name + '>'
    return 'obj<' + type(x).__name__ + '>'


def attempt(label, fn):
    try:
        out = fn()
        print(label + ' -> ' + canon(out))
        return out
    except Exception as e:  # noqa
        print(label + " !! " + type(e).__name__ + ((" ## " + str(e)) if DEBUG else ""))
        return None


def section(title):
    print('')
    print('=' * 10 + ' ' + title + ' ' + '=' * 10)


def spec_state(tag, spec):
    """Everything observable through the sampling / unit API of a specification."""
    attempt(tag + ' svc', lambda: spec.sampling_violation_counter)
    attempt(tag + ' tol', lambda: spec.sampling_tolerance)
    attempt(tag + ' freq', lambda: spec.get_sampling_frequency())
    attempt(tag + ' unit', lambda: spec.unit)
    attempt(tag + ' ast.period', lambda: (spec.ast.sampling_period, spec.ast.sampling_period_unit))
    for attr in ('online_interpreter', 'offline_interpreter'):
        if hasattr(spec, attr):
            it = getattr(spec, attr)
            attempt(tag + ' ' + attr, lambda: (
                type(it).__name__,
                getattr(it, 'sampling_period', 'n/a'),
                getattr(it, 'sampling_period_unit', 'n/a'),
                getattr(it, 'sampling_tolerance', 'n/a'),
                getattr(it, 'sampling_violation_counter', 'n/a'),
                getattr(it, 'previous_time', 'n/a'),
            ))
            attempt(tag + ' ' + attr + ' update_counter', lambda: it.update_counter)


def all_values(tag, spec):
    names = attempt(tag + ' phi names', lambda: sorted(spec.phi_name_to_node_dict.keys()))
    if names:
        for n in names:
            attempt(tag + ' value(' + n + ')', lambda: spec.get_value(n))
    attempt(tag + ' value(<undeclared>)', lambda: spec.get_value('no_such_name'))


# ----------------------------------------------------------------------------
# A. factories / dispatch
# ----------------------------------------------------------------------------
def describe_spec(spec):
    d = [type(spec).__name__, spec.name]
    for attr in ('offline_interpreter', 'online_interpreter', 'pastifier', 'explainer'):
        if hasattr(spec, attr):
            o = getattr(spec, attr)
            d.append(attr + '=' + type(o).__module__ + '.' + type(o).__name__)
            sem = getattr(o, 'semantics', 'n/a')
            d.append(str(sem))
        else:
            d.append(attr + '=<absent>')
    d.append(type(spec.ast).__name__)
    d.append(spec.set_ast_flag)
    return d


class Anything(object):
    """compares equal to everything"""
    def __eq__(self, other):
        return True

    def __ne__(self, other):
        return False

    def __hash__(self):
        return 7


def run_factories():
    section('A factories')
    sems = list(Semantics) + ['standard', None, 0, [1], Anything()]
    langs = list(Language) + ['python', None, Anything()]
    for mod, fname in ((stl_dt, 'StlDiscreteTimeSpecification'), (stl_ct, 'StlDenseTimeSpecification'),
                       (iastl_dt, 'IASTLDiscreteTimeSpecification')):
        f = getattr(mod, fname)
        attempt(fname + '()', lambda: describe_spec(f()))
        for s in sems:
            attempt(fname + '(%s)' % canon(s), lambda: describe_spec(f(s)))
            attempt(fname + '(semantics=%s)' % canon(s), lambda: describe_spec(f(semantics=s)))
            for l in langs:
                attempt(fname + '(%s,%s)' % (canon(s), canon(l)), lambda: describe_spec(f(s, l)))
                attempt(fname + '(language=%s,semantics=%s)' % (canon(l), canon(s)),
                        lambda: describe_spec(f(language=l, semantics=s)))
        for l in langs:
            attempt(fname + '(language=%s)' % canon(l), lambda: describe_spec(f(language=l)))
    for mod in (stl_dt, stl_ct, iastl_dt, iastl_ct):
        for fname in sorted(dir(mod)):
            if fname.endswith('Specification') and not fname.startswith('Abstract') \
                    and fname not in ('StlDiscreteTimeSpecification', 'StlDenseTimeSpecification',
                                      'IASTLDiscreteTimeSpecification'):
                attempt(mod.__name__ + '.' + fname, lambda: describe_spec(getattr(mod, fname)()))
    attempt('rtamt.STLSpecification', lambda: describe_spec(rtamt.STLSpecification()))
    attempt('rtamt.STLCTSpecification', lambda: describe_spec(rtamt.STLCTSpecification()))
    # two calls give independent objects
    a = rtamt.StlDiscreteTimeSpecification()
    b = rtamt.StlDiscreteTimeSpecification()
    print('independent', a is not b, a.ast is not b.ast, a.online_interpreter is not b.online_interpreter,
          a.offline_interpreter is not b.offline_interpreter, a.pastifier is not b.pastifier)


# ----------------------------------------------------------------------------
# B. sampling API without evaluation
# ----------------------------------------------------------------------------
SPEC_FACTORIES = [
    ('dt', lambda: rtamt.StlDiscreteTimeSpecification()),
    ('dt-out', lambda: rtamt.StlDiscreteTimeSpecification(semantics=Semantics.OUTPUT_ROBUSTNESS)),
    ('dt-off', lambda: rtamt.StlDiscreteTimeOfflineSpecification()),
    ('dt-on', lambda: rtamt.StlDiscreteTimeOnlineSpecification()),
    ('ct', lambda: rtamt.StlDenseTimeSpecification()),
    ('ct-off', lambda: rtamt.StlDenseTimeOfflineSpecification()),
    ('ct-on', lambda: rtamt.StlDenseTimeOnlineSpecification()),
]


def run_sampling_api():
    section('B sampling api')
    nan = float('nan')
    calls = [
        (), (1,), (1, 's'), (1, 'ms'), (100, 'ms'), (10, 's'), (500, 'ms', 0.1), (500, 'us', 0.0), (3, 'ns', 1.0),
        (2, 's', 1), (2, 's', 0), (1, 's', 1.5), (1, 's', -0.1), (1, 's', -0.0), (1, 's', 1.0000001),
        (1, 's', nan), (1, 's', float('inf')), (0.1, 's', 0.2), (0.5, 'ms'), (Fraction(1, 4), 's', Fraction(1, 10)),
        (0, 's'), (-1, 's'), (1, 'min'), (1, ''), (1, 's', None), (1, 's', 'x'), (True, 's', True),
        (Decimal('0.5'), 's'), (1, 'S'),
    ]
    for name, factory in SPEC_FACTORIES:
        spec = factory()
        spec_state(name + ' fresh', spec)
        for c in calls:
            spec = factory()
            tag = name + ' ssp' + canon(c)
            attempt(tag, lambda: spec.set_sampling_period(*c))
            spec_state(tag, spec)
        # keyword forms and sequences of calls on ONE object
        spec = factory()
        attempt(name + ' kw1', lambda: spec.set_sampling_period(unit='ms'))
        spec_state(name + ' kw1', spec)
        attempt(name + ' kw2', lambda: spec.set_sampling_period(tolerance=0.5, sampling_period=20))
        spec_state(name + ' kw2', spec)
        attempt(name + ' kw3-bad', lambda: spec.set_sampling_period(7, 'us', 2.0))
        spec_state(name + ' kw3-bad', spec)
        attempt(name + ' kw4', lambda: spec.set_sampling_period(7, 'us', 0.25))
        spec_state(name + ' kw4', spec)
        for u in UNITS + ['min', '', None]:
            attempt(name + ' set unit ' + canon(u), lambda: setattr(spec, 'unit', u))
            spec_state(name + ' unit ' + canon(u), spec)

    # a specification whose interpreter attribute is odd / removed
    spec = rtamt.StlDiscreteTimeSpecification()
    spec.online_interpreter = None
    attempt('dt online=None ssp', lambda: spec.set_sampling_period(5, 'ms', 0.3))
    spec_state('dt online=None', spec)
    spec = rtamt.StlDiscreteTimeSpecification()
    del spec.offline_interpreter
    attempt('dt no-offline ssp', lambda: spec.set_sampling_period(5, 'ms', 0.3))
    spec_state('dt no-offline', spec)
    spec = rtamt.StlDiscreteTimeSpecification()
    del spec.online_interpreter
    attempt('dt no-online ssp', lambda: spec.set_sampling_period(5, 'ms', 0.3))
    spec_state('dt no-online', spec)
    spec = rtamt.StlDiscreteTimeSpecification()
    spec.offline_interpreter = 'x'
    spec.online_interpreter = 3
    attempt('dt odd ssp', lambda: spec.set_sampling_period(5, 'ms', 0.3))
    spec_state('dt odd', spec)
    # counters that were put there by hand
    for on, off in ((3, 4), (0, 0), (2.5, 1), (True, False), ('a', 'b'), (None, 1), (1, None), ('a', 1), ([1], [2])):
        spec = rtamt.StlDiscreteTimeSpecification()
        spec.online_interpreter.sampling_violation_counter = on
        spec.offline_interpreter.sampling_violation_counter = off
        attempt('dt hand counters %s %s' % (canon(on), canon(off)), lambda: spec.sampling_violation_counter)
        spec = rtamt.StlDiscreteTimeOfflineSpecification()
        spec.offline_interpreter.sampling_violation_counter = off
        attempt('dt-off hand counter %s' % canon(off), lambda: spec.sampling_violation_counter)
        spec = rtamt.StlDiscreteTimeOnlineSpecification()
        spec.online_interpreter.sampling_violation_counter = on
        attempt('dt-on hand counter %s' % canon(on), lambda: spec.sampling_violation_counter)
    # mixed: dense online + discrete offline put together by hand
    from rtamt.spec.abstract_specification import AbstractOfflineOnlineSpecification
    from rtamt.syntax.ast.parser.stl.specification_parser import StlAst
    from rtamt.semantics.stl.dense_time.online.interpreter import StlDenseTimeOnlineInterpreter
    from rtamt.semantics.stl.dense_time.offline.interpreter import StlDenseTimeOfflineInterpreter
    from rtamt.semantics.stl.discrete_time.offline.interpreter import StlDiscreteTimeOfflineInterpreter
    from rtamt.semantics.stl.discrete_time.online.interpreter import StlDiscreteTimeOnlineInterpreter
    spec = AbstractOfflineOnlineSpecification(StlAst(), StlDiscreteTimeOfflineInterpreter(),
                                              StlDenseTimeOnlineInterpreter())
    attempt('mixed1 ssp', lambda: spec.set_sampling_period(5, 'ms', 0.3))
    spec.offline_interpreter.sampling_violation_counter = 6
    spec_state('mixed1', spec)
    spec = AbstractOfflineOnlineSpecification(StlAst(), StlDenseTimeOfflineInterpreter(),
                                              StlDiscreteTimeOnlineInterpreter())
    attempt('mixed2 ssp', lambda: spec.set_sampling_period(5, 'ms', 0.3))
    spec.online_interpreter.sampling_violation_counter = 6
    spec_state('mixed2', spec)


# ----------------------------------------------------------------------------
# random formulas
# ----------------------------------------------------------------------------
VARS = ['a', 'b', 'c']
CONSTS = ['0', '1', '2', '-1', '0.5', '3', '1.5', '-2.5']


def fmt_quantity(ns, unit):
    """the duration `ns` nanoseconds written as a literal in `unit`"""
    q = Decimal(ns) / Decimal(U[unit])
    s = format(q, 'f')
    if '.' in s:
        s = s.rstrip('0').rstrip('.')
    return s or '0'


def gen_interval(rng, period_ns, default_unit, exact=True, maxk=4):
    b = rng.choice([0, 0, 0, 1, 1, 2, 3])
    e = b + rng.choice([0, 0, 1, 1, 2, 3, maxk])
    b_ns = b * period_ns
    e_ns = e * period_ns
    if not exact:
        which = rng.randrange(3)
        off = rng.choice([1, period_ns // 2 or 1, period_ns // 3 or 1])
        if which in (0, 2):
            e_ns += off
        if which in (1, 2):
            b_ns += off
            e_ns += off
    style = rng.randrange(6)
    sep = rng.choice([',', ':'])
    if style == 0:      # no units at all: default unit
        return '[%s%s%s]' % (fmt_quantity(b_ns, default_unit), sep, fmt_quantity(e_ns, default_unit))
    if style == 1:      # unit on the end only
        u = rng.choice(UNITS)
        return '[%s%s%s%s]' % (fmt_quantity(b_ns, u), sep, fmt_quantity(e_ns, u), u)
    if style == 2:      # unit on the begin only
        u = rng.choice(UNITS)
        return '[%s%s%s%s]' % (fmt_quantity(b_ns, u), u, sep, fmt_quantity(e_ns, u))
    if style == 3:      # same unit on both
        u = rng.choice(UNITS)
        return '[%s%s%s%s%s]' % (fmt_quantity(b_ns, u), u, sep, fmt_quantity(e_ns, u), u)
    u1 = rng.choice(UNITS)
    u2 = rng.choice(UNITS)
    return '[%s%s%s%s%s]' % (fmt_quantity(b_ns, u1), u1, sep, fmt_quantity(e_ns, u2), u2)


def gen_atom(rng):
    k = rng.randrange(8)
    v = rng.choice(VARS)
    w = rng.choice(VARS)
    c = rng.choice(CONSTS)
    if k == 0:
        return '(%s >= %s)' % (v, c)
    if k == 1:
        return '(%s <= %s)' % (v, c)
    if k == 2:
        return '(%s + %s > %s)' % (v, w, c)
    if k == 3:
        return '(abs(%s - %s) < %s)' % (v, w, c)
    if k == 4:
        return v
    if k == 5:
        return '(%s * 2 - %s)' % (v, w)
    if k == 6:
        return '(%s == %s)' % (v, w)
    return '(%s < %s)' % (v, w)


def gen_formula(rng, depth, period_ns, default_unit, bounded_only, past_only=False, exact=True, pool=None):
    if pool is not None and pool and rng.random() < 0.15:
        return rng.choice(pool)           # repeated sub-formula
    if depth <= 0 or rng.random() < 0.15:
        f = gen_atom(rng)
    else:
        def sub():
            return gen_formula(rng, depth - 1, period_ns, default_unit, bounded_only, past_only, exact, pool)

        def iv():
            return gen_interval(rng, period_ns, default_unit, exact and rng.random() < 0.97 or exact)

        fut_un = ['always%s', 'eventually%s']
        past_un = ['once%s', 'historically%s']
        ops = []
        ops += [('un_t', o) for o in past_un]
        if not past_only:
            ops += [('un_t', o) for o in fut_un]
            ops += [('bin_t', 'until'), ('bin_t', 'unless'), ('un', 'next'), ('un', 'next')]
        ops += [('bin_t', 'since'), ('un', 'prev'), ('un', 'not'), ('fn', 'rise'), ('fn', 'fall'),
                ('bin', 'and'), ('bin', 'or'), ('bin', 'implies'), ('bin', 'iff'), ('bin', 'xor')]
        kind, op = rng.choice(ops)
        if kind == 'un_t':
            future = op in fut_un
            if (bounded_only and future) or rng.random() < 0.85:
                f = '(' + (op % iv()) + ' ' + sub() + ')'
            else:
                f = '(' + (op % '') + ' ' + sub() + ')'
        elif kind == 'bin_t':
            future = op in ('until', 'unless')
            if (bounded_only and future) or rng.random() < 0.85:
                f = '(%s %s%s %s)' % (sub(), op, iv(), sub())
            else:
                f = '(%s %s %s)' % (sub(), op, sub())
        elif kind == 'un':
            f = '(%s %s)' % (op, sub())
        elif kind == 'fn':
            f = '%s(%s)' % (op, sub())
        else:
            f = '(%s %s %s)' % (sub(), op, sub())
    if pool is not None:
        pool.append(f)
    return f


VALUE_SETS = [
    [0, 1, 2, 3, -1, -2],
    [0.0, 1.0, 2.5, -1.5, 0.5, 3.25],
    [0, 0, 0],
    [1, 1.0, 1],
    [-3, -0.0, 0.0, 2, 1e3],
    [2],
]

PERIODS = [(1, 's'), (1, 's'), (500, 'ms'), (100, 'ms'), (2, 's'), (0.5, 's'), (0.1, 's'), (250, 'us'),
           (1, 'ms'), (10, 'ns'), (Fraction(1, 4), 's'), (1.0, 's'), (2000, 'us')]


def period_ns_of(p, u):
    return int(Fraction(p * U[u]))


def gen_times(rng, n, period_ns, unit, tol, kind):
    """n time-stamps in `unit`; kind selects the jitter"""
    step = Fraction(period_ns, U[unit])
    out = []
    t = Fraction(rng.choice([0, 0, 0, 1, 5]))
    for i in range(n):
        if i > 0:
            r = rng.random()
            if kind == 'exact' or r < 0.5:
                d = step
            elif kind == 'boundary' or r < 0.65:
                d = step + rng.choice([-1, 1]) * step * Fraction(tol).limit_denominator(10 ** 6)
            elif r < 0.8:
                d = step * Fraction(rng.randrange(50, 151), 100)
            elif r < 0.9:
                d = step * rng.choice([2, 3, Fraction(1, 2)])
            elif r < 0.95:
                d = Fraction(0)
            else:
                d = -step
            t = t + d
        out.append(t)
    conv = rng.randrange(3)
    res = []
    for t in out:
        if conv == 0 and t.denominator == 1:
            res.append(int(t))
        elif conv == 1 and t.denominator == 1 and rng.random() < 0.5:
            res.append(int(t))
        else:
            res.append(float(t))
    return res


def declare(spec):
    for v in VARS:
        spec.declare_var(v, 'float')


def configure(rng, spec, tag):
    """random unit / sampling period in random order; returns (period_ns, unit, tol)"""
    unit = rng.choice(['s', 's', 'ms', 'us', 'ns', None])
    p, pu = rng.choice(PERIODS)
    tol = rng.choice([0.1, 0.1, 0.0, 0.25, 0.5, 1.0, None])
    order = rng.randrange(2)
    if order == 0 and unit is not None:
        # note: setting the unit wipes declarations of the ast -- done before declare
        attempt(tag + ' set unit', lambda: setattr(spec, 'unit', unit))
    declare(spec)
    r = rng.randrange(4)
    if r == 0:
        pass            # defaults
        p, pu, tol = 1, 's', None
    elif tol is None:
        attempt(tag + ' ssp(%s,%s)' % (canon(p), pu), lambda: spec.set_sampling_period(p, pu))
    else:
        attempt(tag + ' ssp(%s,%s,%s)' % (canon(p), pu, canon(tol)), lambda: spec.set_sampling_period(p, pu, tol))
    if order == 1 and unit is not None:
        attempt(tag + ' set unit late', lambda: setattr(spec, 'unit', unit))
        declare(spec)
    eff_unit = unit or 's'
    return period_ns_of(p, pu), eff_unit, (0.1 if tol is None else tol)


# ----------------------------------------------------------------------------
# C. discrete time offline
# ----------------------------------------------------------------------------
def run_discrete_offline(rng, count):
    section('C discrete offline')
    for n in range(count):
        tag = 'C%03d' % n
        kind = rng.randrange(4)
        if kind in (0, 3):
            spec = rtamt.StlDiscreteTimeOfflineSpecification()
        elif kind == 1:
            spec = rtamt.StlDiscreteTimeSpecification(semantics=rng.choice(list(Semantics)))
        else:
            spec = rtamt.StlDiscreteTimeSpecification()
        period_ns, unit, tol = configure(rng, spec, tag)
        exact = rng.random() < 0.93
        pool = []
        f = gen_formula(rng, rng.randrange(1, 4), period_ns, unit, False, False, exact, pool)
        print(tag + ' spec: out = ' + f)
        if rng.random() < 0.2:
            attempt(tag + ' sub spec', lambda: spec.add_sub_spec('d = a + b;'))
            f = '(%s and (once[0:0] (d >= 1)))' % f
            print(tag + ' spec with sub-spec: out = ' + f)
        spec.spec = 'out = ' + f
        attempt(tag + ' parse', lambda: spec.parse())
        attempt(tag + ' print', lambda: spec.spec_print())
        length = rng.choice([1, 1, 2, 3, 5, 8, 12])
        rounds = rng.choice([1, 1, 2])
        for r in range(rounds):
            times = gen_times(rng, length, period_ns, unit, tol, rng.choice(['exact', 'boundary', 'mixed', 'mixed']))
            vs = rng.choice(VALUE_SETS)
            data = {'time': times}
            for v in VARS:
                data[v] = [rng.choice(vs) for _ in range(length)]
            snapshot = canon(data)
            print(tag + ' data ' + snapshot)
            attempt(tag + ' evaluate#%d' % r, lambda: spec.evaluate(data))
            print(tag + ' caller data untouched', canon(data) == snapshot)
            spec_state(tag + '#%d' % r, spec)
            if r == 0 and n % 5 == 0:
                all_values(tag, spec)
            attempt(tag + ' explain', lambda: spec.explain())
            if getattr(spec, 'explainer', None) is not None:
                attempt(tag + ' explanations', lambda: spec.explainer.explanations)
            if rng.random() < 0.3:
                attempt(tag + ' reset', lambda: spec.reset())
                spec_state(tag + ' after reset', spec)
            if rng.random() < 0.2:
                attempt(tag + ' ssp mid', lambda: spec.set_sampling_period(*rng.choice(PERIODS)))
                spec_state(tag + ' after ssp mid', spec)

    # fixed corner cases
    def mk(unit=None):
        s = rtamt.StlDiscreteTimeSpecification()
        if unit:
            s.unit = unit
        declare(s)
        return s

    s = mk()
    s.spec = 'out = always[0,2](a >= 1)'
    s.parse()
    attempt('C no args', lambda: s.evaluate())
    attempt('C two args', lambda: s.evaluate({'time': [0, 1], 'a': [1, 2], 'b': [0, 0], 'c': [0, 0]}, 5))
    attempt('C kwargs only', lambda: s.evaluate(dataset={'time': [0], 'a': [1]}))
    attempt('C empty time', lambda: s.evaluate({'time': [], 'a': []}))
    attempt('C no time', lambda: s.evaluate({'a': [1]}))
    attempt('C list arg', lambda: s.evaluate([['a', [[0, 1]]]]))
    attempt('C tuple time', lambda: s.evaluate({'time': (0, 1, 2.5), 'a': (1, 2, 3)}))
    spec_state('C tuple time', s)
    attempt('C nan time', lambda: s.evaluate({'time': [0, float('nan'), 2, 3], 'a': [1, 2, 3, 4]}))
    spec_state('C nan time', s)
    attempt('C inf time', lambda: s.evaluate({'time': [0, float('inf'), float('inf')], 'a': [1, 2, 3]}))
    spec_state('C inf time', s)
    attempt('C str time', lambda: s.evaluate({'time': [0, 5, 'x', 7], 'a': [1, 2, 3, 4]}))
    spec_state('C str time', s)
    attempt('C none time', lambda: s.evaluate({'time': [0, 1, None], 'a': [1, 2, 3]}))
    spec_state('C none time', s)
    attempt('C short var', lambda: s.evaluate({'time': [0, 1, 2], 'a': [1]}))
    spec_state('C short var', s)
    attempt('C fraction time', lambda: s.evaluate({'time': [Fraction(0), Fraction(11, 10), Fraction(2)],
                                                   'a': [1, 2, 3]}))
    spec_state('C fraction time', s)
    s = mk('min')
    s.spec = 'out = a'
    attempt('C bad unit parse', lambda: s.parse())
    attempt('C bad unit evaluate', lambda: s.evaluate({'time': [0, 1, 2], 'a': [1, 2, 3]}))
    spec_state('C bad unit', s)
    s = mk('min')
    s.spec = 'out = once[0,1] a'
    attempt('C bad unit timed parse', lambda: s.parse())
    attempt('C bad unit timed evaluate', lambda: s.evaluate({'time': [0, 1, 2], 'a': [1, 2, 3]}))
    s = mk()
    attempt('C evaluate before parse', lambda: s.evaluate({'time': [0, 1, 2], 'a': [1, 2, 3]}))
    s = mk()
    s.spec = 'out = once[0,1] a'
    s.parse()
    attempt('C period 0', lambda: s.set_sampling_period(0, 's'))
    attempt('C period 0 evaluate', lambda: s.evaluate({'time': [0, 1, 2], 'a': [1, 2, 3]}))
    spec_state('C period 0', s)
    s = mk()
    s.spec = 'out = once[0,1] a'
    s.parse()
    attempt('C period bad unit', lambda: s.set_sampling_period(1, 'h'))
    attempt('C period bad unit evaluate', lambda: s.evaluate({'time': [0, 1, 2], 'a': [1, 2, 3]}))
    spec_state('C period bad unit', s)
    # constants as bounds
    s = mk('ms')
    s.declare_const('k', 'int', 2)
    s.declare_const('h', 'float', 0.5)
    s.set_sampling_period(500, 'us')
    s.spec = 'out = (always[h:k] a) and (once[h ms:1500us] b) and eventually[0:k ms] c'
    attempt('C const parse', lambda: s.parse())
    attempt('C const evaluate', lambda: s.evaluate({'time': [0, 0.5, 1, 1.5, 2.1, 2.5], 'a': [1, 2, 3, 4, 5, 6],
                                                    'b': [6, 5, 4, 3, 2, 1], 'c': [0, 1, 0, 1, 0, 1]}))
    spec_state('C const', s)
    all_values('C const', s)


# ----------------------------------------------------------------------------
# D. discrete time online
# ----------------------------------------------------------------------------
def run_discrete_online(rng, count):
    section('D discrete online')
    for n in range(count):
        tag = 'D%03d' % n
        kind = rng.randrange(4)
        if kind == 0:
            spec = rtamt.StlDiscreteTimeOnlineSpecification()
        elif kind == 1:
            spec = rtamt.StlDiscreteTimeSpecification(semantics=rng.choice(list(Semantics)))
        else:
            spec = rtamt.StlDiscreteTimeSpecification()
        period_ns, unit, tol = configure(rng, spec, tag)
        exact = rng.random() < 0.93
        past_only = rng.random() < 0.3
        pool = []
        f = gen_formula(rng, rng.randrange(1, 4), period_ns, unit, rng.random() < 0.9, past_only, exact, pool)
        print(tag + ' spec: out = ' + f)
        if rng.random() < 0.2:
            attempt(tag + ' sub spec', lambda: spec.add_sub_spec('d = a + b;'))
            f = '(%s and (once[0:0] (d >= 1)))' % f
            print(tag + ' spec with sub-spec: out = ' + f)
        spec.spec = 'out = ' + f
        attempt(tag + ' parse', lambda: spec.parse())
        if not past_only or rng.random() < 0.5:
            attempt(tag + ' pastify', lambda: spec.pastify())
        attempt(tag + ' print', lambda: spec.spec_print())
        length = rng.choice([1, 2, 3, 5, 8, 12])
        times = gen_times(rng, length, period_ns, unit, tol, rng.choice(['exact', 'boundary', 'mixed', 'mixed']))
        vs = rng.choice(VALUE_SETS)
        reset_at = rng.choice([None, None, 0, length // 2, length - 1])
        for i in range(length):
            r = rng.random()
            if r < 0.7:
                batch = [(v, rng.choice(vs)) for v in VARS]
            elif r < 0.8:
                batch = [[v, rng.choice(vs)] for v in VARS if rng.random() < 0.6]
            elif r < 0.9:
                batch = []
            else:
                batch = [('a', rng.choice(vs)), ('zz', 5), ('a', rng.choice(vs))]
            t = times[i] if rng.random() < 0.8 else i
            attempt(tag + ' update(%s, %s)' % (canon(t), canon(batch)), lambda: spec.update(t, batch))
            if i % 3 == 0:
                spec_state(tag + ' @%d' % i, spec)
            if reset_at == i:
                attempt(tag + ' reset', lambda: spec.reset())
                spec_state(tag + ' after reset', spec)
                if rng.random() < 0.3:
                    attempt(tag + ' ssp mid', lambda: spec.set_sampling_period(*rng.choice(PERIODS)))
        spec_state(tag + ' end', spec)
        if n % 5 == 0:
            all_values(tag, spec)
        attempt(tag + ' explain', lambda: spec.explain())

    def mk(unit=None):
        s = rtamt.StlDiscreteTimeSpecification()
        if unit:
            s.unit = unit
        declare(s)
        return s

    s = mk()
    s.spec = 'out = historically[0,2](a >= 1)'
    s.parse()
    attempt('D no args', lambda: s.update())
    attempt('D one arg', lambda: s.update(0))
    attempt('D three args', lambda: s.update(0, [('a', 1)], 7))
    attempt('D second', lambda: s.update(1.05, [('a', 1)]))
    attempt('D nan', lambda: s.update(float('nan'), [('a', 1)]))
    attempt('D after nan', lambda: s.update(3, [('a', 1)]))
    attempt('D str time', lambda: s.update('x', [('a', 1)]))
    spec_state('D str time', s)
    attempt('D after str', lambda: s.update(4, [('a', 1)]))
    spec_state('D after str', s)
    attempt('D none time', lambda: s.update(None, [('a', 1)]))
    attempt('D after none', lambda: s.update(5, [('a', 1)]))
    spec_state('D after none', s)
    attempt('D final_update', lambda: s.final_update(6, [('a', 1)]))
    attempt('D final_update none', lambda: s.final_update())
    attempt('D reset', lambda: s.reset())
    spec_state('D reset', s)
    attempt('D reset reset', lambda: s.reset())
    s = mk()
    attempt('D reset before parse', lambda: s.reset())
    attempt('D update before parse', lambda: s.update(0, [('a', 1)]))
    s = mk('min')
    s.spec = 'out = a'
    attempt('D bad unit parse', lambda: s.parse())
    attempt('D bad unit update0', lambda: s.update(0, [('a', 1)]))
    attempt('D bad unit update1', lambda: s.update(1, [('a', 1)]))
    spec_state('D bad unit', s)
    # evaluate and update on one object, both orders
    s = mk()
    s.spec = 'out = once[0,1](a >= 1)'
    s.parse()
    attempt('D mix evaluate', lambda: s.evaluate({'time': [0, 1, 3], 'a': [1, 0, 0]}))
    attempt('D mix update', lambda: s.update(0, [('a', 1)]))
    spec_state('D mix', s)
    s = mk()
    s.spec = 'out = once[0,1](a >= 1)'
    s.parse()
    attempt('D mix2 update', lambda: s.update(0, [('a', 1)]))
    attempt('D mix2 update', lambda: s.update(2, [('a', 0)]))
    attempt('D mix2 evaluate', lambda: s.evaluate({'time': [0, 1, 3], 'a': [1, 0, 0]}))
    spec_state('D mix2', s)
    attempt('D mix2 reset', lambda: s.reset())
    spec_state('D mix2 reset', s)


# ----------------------------------------------------------------------------
# E/F. dense time
# ----------------------------------------------------------------------------
def gen_dense_interval(rng, default_unit):
    b = rng.choice([0, 0, 1, 0.5, 2, 1.5])
    e = b + rng.choice([0, 1, 1, 2, 0.5, 3.25])
    style = rng.randrange(5)

    def lit(x):
        return repr(x) if isinstance(x, float) else str(x)
    if style == 0:
        return '[%s,%s]' % (lit(b), lit(e))
    u = rng.choice(UNITS)
    if style == 1:
        return '[%s,%s%s]' % (lit(b), lit(e), u)
    if style == 2:
        return '[%s%s:%s]' % (lit(b), u, lit(e))
    if style == 3:
        return '[%s%s,%s%s]' % (lit(b), u, lit(e), u)
    # different units: keep begin <= end
    pairs = [('ms', 's'), ('us', 'ms'), ('ns', 'us'), ('us', 's'), ('s', 's')]
    u1, u2 = rng.choice(pairs)
    return '[%s%s,%s%s]' % (lit(b), u1, lit(e + 1), u2)


def gen_dense_formula(rng, depth, unit, past_only):
    if depth <= 0 or rng.random() < 0.2:
        return gen_atom(rng)

    def sub():
        return gen_dense_formula(rng, depth - 1, unit, past_only)
    ops = ['once', 'historically', 'since', 'not', 'and', 'or', 'implies']
    if not past_only:
        ops += ['always', 'eventually', 'until', 'always', 'eventually']
    op = rng.choice(ops)
    if op in ('once', 'historically', 'always', 'eventually'):
        return '(%s%s %s)' % (op, gen_dense_interval(rng, unit), sub())
    if op in ('since', 'until'):
        return '(%s %s%s %s)' % (sub(), op, gen_dense_interval(rng, unit), sub())
    if op == 'not':
        return '(not %s)' % sub()
    return '(%s %s %s)' % (sub(), op, sub())


def gen_signal(rng, t0, n, scale, vs):
    t = t0
    out = []
    for i in range(n):
        out.append([t, rng.choice(vs)])
        t = t + rng.choice([1, 1, 2, 0.5, 3, 1.25]) * scale
    return out, t


def run_dense(rng, count):
    section('E dense offline')
    scales = {'s': 1, 'ms': 1000, 'us': 1000000, 'ns': 1000000000}
    for n in range(count):
        tag = 'E%03d' % n
        kind = rng.randrange(3)
        if kind == 0:
            spec = rtamt.StlDenseTimeOfflineSpecification()
        elif kind == 1:
            spec = rtamt.StlDenseTimeSpecification(semantics=rng.choice(list(Semantics)))
        else:
            spec = rtamt.StlDenseTimeSpecification()
        unit = rng.choice(['s', 's', 'ms', 'us', 'ns', None])
        if unit:
            spec.unit = unit
        declare(spec)
        if rng.random() < 0.2:
            attempt(tag + ' ssp', lambda: spec.set_sampling_period(*rng.choice(PERIODS)))
        f = gen_dense_formula(rng, rng.randrange(1, 4), unit or 's', False)
        print(tag + ' spec: out = ' + f)
        spec.spec = 'out = ' + f
        attempt(tag + ' parse', lambda: spec.parse())
        attempt(tag + ' print', lambda: spec.spec_print())
        scale = scales[unit or 's'] if rng.random() < 0.7 else 1
        vs = rng.choice(VALUE_SETS)
        args = []
        for v in VARS:
            sig, _ = gen_signal(rng, rng.choice([0, 0, 1]) * scale, rng.choice([1, 2, 3, 6, 10]), scale, vs)
            args.append([v, sig])
        if rng.random() < 0.15:
            args = args[:rng.randrange(0, 3)]
        snapshot = canon(args)
        print(tag + ' data ' + snapshot)
        attempt(tag + ' evaluate', lambda: spec.evaluate(*args))
        print(tag + ' caller data untouched', canon(args) == snapshot)
        if rng.random() < 0.3:
            attempt(tag + ' evaluate again', lambda: spec.evaluate(*args))
        spec_state(tag, spec)
        if n % 5 == 0:
            all_values(tag, spec)
        attempt(tag + ' explain', lambda: spec.explain())
        attempt(tag + ' reset', lambda: spec.reset())

    s = rtamt.StlDenseTimeSpecification()
    declare(s)
    s.spec = 'out = always[0,1] a'
    s.parse()
    attempt('E no args', lambda: s.evaluate())
    attempt('E one arg', lambda: s.evaluate(['a', [[0, 1], [5, 2]]]))
    attempt('E one arg tuple', lambda: s.evaluate(('a', [[0, 1], [5, 2]])))
    attempt('E list of lists as one arg', lambda: s.evaluate([['a', [[0, 1], [5, 2]]]]))
    attempt('E kwargs', lambda: s.evaluate(a=[[0, 1]]))
    attempt('E dict arg', lambda: s.evaluate({'time': [0, 1], 'a': [1, 2]}))
    s = rtamt.StlDenseTimeSpecification()
    s.unit = 'min'
    declare(s)
    s.spec = 'out = always[0,1] a'
    attempt('E bad unit parse', lambda: s.parse())
    attempt('E bad unit evaluate', lambda: s.evaluate(['a', [[0, 1], [5, 2]]]))

    section('F dense online')
    for n in range(count):
        tag = 'F%03d' % n
        kind = rng.randrange(3)
        if kind == 0:
            spec = rtamt.StlDenseTimeOnlineSpecification()
        elif kind == 1:
            spec = rtamt.StlDenseTimeSpecification(semantics=rng.choice(list(Semantics)))
        else:
            spec = rtamt.StlDenseTimeSpecification()
        unit = rng.choice(['s', 's', 'ms', 'us', 'ns', None])
        if unit:
            spec.unit = unit
        declare(spec)
        past_only = rng.random() < 0.4
        f = gen_dense_formula(rng, rng.randrange(1, 3), unit or 's', past_only)
        print(tag + ' spec: out = ' + f)
        spec.spec = 'out = ' + f
        attempt(tag + ' parse', lambda: spec.parse())
        if not past_only or rng.random() < 0.5:
            attempt(tag + ' pastify', lambda: spec.pastify())
        attempt(tag + ' print', lambda: spec.spec_print())
        scale = scales[unit or 's'] if rng.random() < 0.7 else 1
        vs = rng.choice(VALUE_SETS)
        t0 = dict((v, 0) for v in VARS)
        rounds = rng.choice([1, 2, 3, 4])
        reset_at = rng.choice([None, None, 0, 1])
        for r in range(rounds):
            args = []
            for v in VARS:
                sig, t0[v] = gen_signal(rng, t0[v], rng.choice([0, 1, 2, 4]), scale, vs)
                args.append([v, sig])
            if rng.random() < 0.1:
                args = args[:rng.randrange(0, 3)]
            print(tag + ' batch ' + canon(args))
            attempt(tag + ' update#%d' % r, lambda: spec.update(*args))
            if reset_at == r:
                attempt(tag + ' reset', lambda: spec.reset())
                t0 = dict((v, 0) for v in VARS)
        attempt(tag + ' final_update', lambda: spec.final_update(*[[v, []] for v in VARS]))
        spec_state(tag, spec)
        if n % 5 == 0:
            all_values(tag, spec)

    s = rtamt.StlDenseTimeSpecification()
    declare(s)
    s.spec = 'out = once[0,1] a'
    s.parse()
    attempt('F no args', lambda: s.update())
    attempt('F one arg', lambda: s.update(['a', [[0, 1], [5, 2]]]))
    attempt('F two', lambda: s.update(['a', [[7, 1]]], ['b', [[0, 3]]]))
    attempt('F final none', lambda: s.final_update())
    attempt('F final one', lambda: s.final_update(['a', []]))
    attempt('F reset', lambda: s.reset())
    attempt('F after reset', lambda: s.update(['a', [[0, 1], [5, 2]]]))


# ----------------------------------------------------------------------------
# H. time_unit_transformer called directly
# ----------------------------------------------------------------------------
def run_transformers(rng, count):
    section('H time_unit_transformer')
    dt = rtamt.StlDiscreteTimeSpecification()
    dt.declare_var('a', 'float')
    dt.spec = 'out = a'
    dt.parse()
    dt.evaluate({'time': [0], 'a': [1]})
    dt2 = rtamt.StlDiscreteTimeSpecification()
    dt2.declare_var('a', 'float')
    dt2.spec = 'out = a'
    dt2.parse()
    dt2.update(0, [('a', 1)])
    ct = rtamt.StlDenseTimeSpecification()
    ct.declare_var('a', 'float')
    ct.spec = 'out = a'
    ct.parse()
    ct.evaluate(['a', [[0, 1]]])
    ct2 = rtamt.StlDenseTimeSpecification()
    ct2.declare_var('a', 'float')
    ct2.spec = 'out = a'
    ct2.parse()
    ct2.update(['a', [[0, 1]]])
    targets = [('dt-off', dt, dt.offline_interpreter), ('dt-on', dt2, dt2.online_interpreter),
               ('ct-off', ct, ct.offline_interpreter), ('ct-on', ct2, ct2.online_interpreter)]
    units = ['', '', 's', 'ms', 'us', 'ns']
    numbers = [0, 1, 2, 3, 5, 10, 1000, 1500, 250, Fraction(1, 2), Fraction(3, 2), Fraction(1, 4), Fraction(1, 3),
               Fraction(5, 1), Fraction(0), Fraction(1, 10), Fraction(2500), Fraction(1, 1000), 1000000,
               Fraction(7, 1000000), -1, Fraction(-1, 2), True]
    for n in range(count):
        name, spec, interp = targets[n % len(targets)]
        if n % 7 == 0:
            u = rng.choice(UNITS)
            spec.ast.unit = u       # plain attribute of the ast: keeps the declarations
        if n % 5 == 0 and name.startswith('dt'):
            p, pu = rng.choice(PERIODS + [(3, 'ms'), (7, 'ns'), (0.25, 'ms')])
            spec.set_sampling_period(p, pu)
        bu = rng.choice(units)
        eu = rng.choice(units)
        if name.startswith('dt') and rng.random() < 0.75:
            # bounds that are multiples of the sampling period, written in the units drawn
            pn = Fraction(interp.sampling_period * U[interp.sampling_period_unit])
            rb = bu or eu or spec.ast.unit
            re_ = eu or bu or spec.ast.unit
            b = rng.choice([0, 0, 1, 2, 3, 7]) * pn / U[rb]
            e = rng.choice([0, 1, 2, 4, 10, 1000]) * pn / U[re_]
            if rng.random() < 0.1:
                e = e + Fraction(1, 3)
            if b.denominator == 1 and rng.random() < 0.5:
                b = int(b)
            if e.denominator == 1 and rng.random() < 0.5:
                e = int(e)
        else:
            b = rng.choice(numbers)
            e = rng.choice(numbers)
        node = Interval(b, e, bu, eu)
        label = 'H%04d %s unit=%s period=%s %s [%s%s,%s%s]' % (
            n, name, spec.ast.unit, canon(getattr(interp, 'sampling_period', None)),
            getattr(interp, 'sampling_period_unit', None), canon(b), bu, canon(e), eu)
        attempt(label, lambda: interp.time_unit_transformer(node))
        print('      node kept', canon((node.begin, node.end, node.begin_unit, node.end_unit)))
    # odd nodes
    for name, spec, interp in targets:
        spec.ast.unit = 's'
        if name.startswith('dt'):
            spec.set_sampling_period(1, 's')
        for node in (Interval(1, 2, 'min', ''), Interval(1, 2, '', 'h'), Interval(1, 2, 'x', 'y'),
                     Interval(0.5, 2, '', ''), Interval(1, 2.0, 's', ''), Interval(None, 1, '', ''),
                     Interval(1, 2, None, 's'), Interval(1, 2, 's', None), Interval('1', 2, '', ''),
                     Interval(1, 2, 's'), Interval(1, 2)):
            label = 'H odd %s [%s %s %s %s]' % (name, canon(node.begin), canon(node.end),
                                                canon(node.begin_unit), canon(node.end_unit))
            attempt(label, lambda: interp.time_unit_transformer(node))
        spec.ast.unit = 'min'
        for node in (Interval(1, 2, '', ''), Interval(1, 2, 's', ''), Interval(1, 2, '', 'ms'),
                     Interval(1, 2, 's', 'ms')):
            label = 'H badunit %s [%s %s %s %s]' % (name, canon(node.begin), canon(node.end),
                                                    canon(node.begin_unit), canon(node.end_unit))
            attempt(label, lambda: interp.time_unit_transformer(node))
        spec.ast.unit = 's'
    for p, pu in ((0, 's'), (0.0, 'ms'), (float('nan'), 's'), (float('inf'), 's'), (1, 'h'), ('1', 'ns'),
                  (None, 's'), (Decimal('0.5'), 's'), (-1, 's'), (Fraction(-1, 2), 's')):
        for name, spec, interp in targets[:2]:
            attempt('H period %s %s ssp' % (canon(p), pu), lambda: spec.set_sampling_period(p, pu))
            for node in (Interval(1, 2, '', ''), Interval(Fraction(1, 2), Fraction(3, 2), 's', ''), Interval(0, 0)):
                attempt('H period %s %s %s [%s,%s]' % (canon(p), pu, name, canon(node.begin), canon(node.end)),
                        lambda: interp.time_unit_transformer(node))


# ----------------------------------------------------------------------------
# I. jitter code called directly
# ----------------------------------------------------------------------------
def run_jitter(rng, count):
    section('I jitter')
    nan = float('nan')
    inf = float('inf')
    for mode in ('off', 'on'):
        spec = rtamt.StlDiscreteTimeSpecification()
        spec.declare_var('a', 'float')
        spec.spec = 'out = a'
        spec.parse()
        if mode == 'off':
            spec.evaluate({'time': [0], 'a': [1]})
            interp = spec.offline_interpreter
        else:
            spec.update(0, [('a', 1)])
            interp = spec.online_interpreter
        for n in range(count):
            if n % 10 == 0:
                p, pu = rng.choice(PERIODS)
                tol = rng.choice([0.0, 0.1, 0.25, 0.5, 1.0, 1, 0, Fraction(1, 10)])
                spec.set_sampling_period(p, pu, tol)
                spec.ast.unit = rng.choice(UNITS)
            period = float(interp.sampling_period) * U[interp.sampling_period_unit] / U[spec.ast.unit]
            t = period * interp.sampling_tolerance
            d = rng.choice([period, period - t, period + t, period - t - t / 1000, period + t + t / 1000,
                            period * 0.5, period * 2, 0, 0.0, -period, nan, inf, -inf, period * rng.random() * 2,
                            int(period), int(period) + 1, Fraction(1, 3), True])
            before = interp.sampling_violation_counter
            attempt('I%s%04d p=%s%s tol=%s unit=%s d=%s' % (mode, n, canon(interp.sampling_period),
                                                            interp.sampling_period_unit,
                                                            canon(interp.sampling_tolerance), spec.ast.unit, canon(d)),
                    lambda: interp.update_sampling_violation_counter(d))
            print('      counter', canon(before), '->', canon(interp.sampling_violation_counter),
                  canon(spec.sampling_violation_counter))
        for d in ('x', None, [1], complex(1, 1), Decimal('1')):
            attempt('I%s odd %s' % (mode, canon(d) if not isinstance(d, complex) else 'complex'),
                    lambda: interp.update_sampling_violation_counter(d))
            print('      counter', canon(interp.sampling_violation_counter))
        spec.ast.unit = 'min'
        attempt('I%s bad unit' % mode, lambda: interp.update_sampling_violation_counter(1))
        print('      counter', canon(interp.sampling_violation_counter))
        spec.ast.unit = 's'
        interp.normalize = 2.0
        if mode == 'off':
            attempt('I normalize evaluate', lambda: spec.evaluate({'time': [0, 0.5, 1, 2], 'a': [1, 2, 3, 4]}))
        else:
            attempt('I normalize reset', lambda: spec.reset())
            for t in (0, 0.5, 1, 2):
                attempt('I normalize update', lambda: spec.update(t, [('a', 1)]))
        spec_state('I normalize ' + mode, spec)

    # time-stamp containers that are not lists
    class Seq(object):
        def __init__(self, items):
            self.items = list(items)
            self.log = []

        def __len__(self):
            self.log.append('len')
            return len(self.items)

        def __getitem__(self, i):
            self.log.append(('get', i))
            return self.items[i]

        def __bool__(self):
            return True
        __nonzero__ = __bool__

    for items in ([0, 1, 2, 3.5], [0], [], [0, 1, 'x', 3, 9]):
        spec = rtamt.StlDiscreteTimeSpecification()
        spec.declare_var('a', 'float')
        spec.spec = 'out = a'
        spec.parse()
        ts = Seq(items)
        attempt('I seq %s' % canon(items), lambda: spec.evaluate({'time': ts, 'a': list(range(len(items)))}))
        print('      access log', canon(ts.log))
        spec_state('I seq', spec)


# ----------------------------------------------------------------------------
# J. a long online run with jitter
# ----------------------------------------------------------------------------
def run_long_runs(rng):
    section('J long runs')
    for unit, p, pu, tol in (('s', 1, 's', 0.1), ('ms', 100, 'ms', 0.0), ('ms', 1, 's', 0.25), ('us', 500, 'us', 0.5),
                             ('s', 500, 'ms', 1.0), ('ns', 1, 'us', 0.1), ('s', 0.1, 's', 0.1)):
        spec = rtamt.StlDiscreteTimeSpecification()
        spec.unit = unit
        declare(spec)
        spec.set_sampling_period(p, pu, tol)
        period_ns = period_ns_of(p, pu)
        spec.spec = 'out = (always[0:%s] (a >= 0)) until[%s:%s] (once[%s:%s] b > c)' % (
            fmt_quantity(2 * period_ns, unit), fmt_quantity(period_ns, unit), fmt_quantity(3 * period_ns, unit),
            fmt_quantity(0, unit), fmt_quantity(period_ns, unit))
        print('J spec', spec.spec)
        attempt('J parse', lambda: spec.parse())
        attempt('J pastify', lambda: spec.pastify())
        times = gen_times(rng, 60, period_ns, unit, tol, 'mixed')
        for i, t in enumerate(times):
            batch = [(v, rng.choice([0, 1, -1, 2.5])) for v in VARS]
            attempt('J update %s' % canon(t), lambda: spec.update(t, batch))
            if i % 10 == 9:
                spec_state('J @%d' % i, spec)
            if i == 30:
                attempt('J reset', lambda: spec.reset())
                spec_state('J after reset', spec)
        off = rtamt.StlDiscreteTimeSpecification()
        off.unit = unit
        declare(off)
        off.set_sampling_period(p, pu, tol)
        off.spec = spec.spec
        attempt('J off parse', lambda: off.parse())
        data = {'time': times}
        for v in VARS:
            data[v] = [rng.choice([0, 1, -1, 2.5]) for _ in times]
        attempt('J off evaluate', lambda: off.evaluate(data))
        spec_state('J off', off)
        attempt('J off evaluate again', lambda: off.evaluate(data))
        spec_state('J off again', off)


def main():
    logging.disable(logging.CRITICAL)
    run_factories()
    run_sampling_api()
    run_discrete_offline(random.Random(1101), 160)
    run_discrete_online(random.Random(1102), 160)
    run_dense(random.Random(1103), 100)
    run_transformers(random.Random(1104), 800)
    run_jitter(random.Random(1105), 300)
    run_long_runs(random.Random(1106))
    print('')
    print('DONE')


if __name__ == '__main__':
    main()
