"""Differential test for rtamt/explanation/**.

usage:  PYTHONPATH=<tree> /venv/bin/python twins/diff_test.py > out.txt

Deterministic (seeded).  Prints every result / exception type in a canonical text form; a
refactoring is behaviour preserving iff the output is byte-identical to that of the clean tree.
"""
import logging
import random
import sys

logging.disable(logging.CRITICAL)

import rtamt
from rtamt.explanation.ltl.discrete_time import explanations as LX
from rtamt.explanation.stl.discrete_time import explanations as SX
from rtamt.explanation.ltl.discrete_time import explainer as LE
from rtamt.explanation.stl.discrete_time import explainer as SE

NAN = float('nan')
INF = float('inf')
OUT = sys.stdout


def emit(*parts):
    OUT.write(' '.join(str(p) for p in parts) + '\n')


def canon(x):
    # canonical text of numbers / nested lists / tuples (repr is stable for float and int)
    if isinstance(x, (list, tuple)):
        o, c = ('[', ']') if isinstance(x, list) else ('(', ')')
        return o + ','.join(canon(e) for e in x) + c
    if isinstance(x, bool):
        return 'T' if x else 'F'
    if isinstance(x, float):
        return 'f' + repr(x)
    if isinstance(x, int):
        return 'i' + repr(x)
    if x is None:
        return 'None'
    return type(x).__name__ + ':' + str(x)


def alias_map(lists):
    # canonical description of object identity among a collection of interval lists and
    # of their inner [begin, end] lists: every object numbered by first occurrence
    outer, inner = {}, {}
    desc = []
    for l in lists:
        o = outer.setdefault(id(l), len(outer))
        ins = []
        if isinstance(l, list):
            for e in l:
                ins.append(inner.setdefault(id(e), len(inner)))
        desc.append('%d:%s' % (o, '.'.join(str(i) for i in ins)))
    return '|'.join(desc)


def call(label, fn, *args):
    try:
        res = fn(*args)
    except Exception as e:  # noqa
        emit(label, 'EXC', type(e).__name__)
        return None
    emit(label, canon(res))
    return res


# --------------------------------------------------------------------------------------
# part A: interval helper functions called directly
# --------------------------------------------------------------------------------------
VALUE_POOLS = [
    [-2, -1, 0, 1, 2],
    [-1.5, -0.0, 0.0, 0.5, 2.0],
    [-1, 1],
    [0],
    [0.0, -0.0],
    [-3, -2, -1],
    [1, 2, 3],
    [-1, 0, 1, NAN],
    [-INF, INF, 0, -1.0, 1],
    [-2, -1, 0, 1, 2, 0.25, -0.25, NAN, INF, -INF],
]


def rand_signal(rnd, n):
    pool = rnd.choice(VALUE_POOLS)
    return [rnd.choice(pool) for _ in range(n)]


def rand_intervals(rnd, n, wild):
    kind = rnd.randrange(8)
    if kind == 0:
        return []
    if kind == 1:
        return [[0, 0]]
    if kind == 2:
        return [[0, n - 1]]
    if kind == 3:
        return [[n - 1, n - 1]]
    out = []
    if kind in (4, 5):
        # sorted, disjoint, inside the trace
        pos = 0
        while pos < n and len(out) < 4:
            b = rnd.randint(pos, n - 1)
            e = rnd.randint(b, n - 1)
            out.append([b, e])
            pos = e + rnd.randint(1, 3)
        return out
    # anything: overlapping, unsorted, sometimes outside the trace / reversed
    lo, hi = (-2, n + 2) if wild else (0, n - 1)
    for _ in range(rnd.randint(1, 4)):
        b = rnd.randint(lo, hi)
        e = rnd.randint(lo, hi)
        if not wild and e < b:
            b, e = e, b
        out.append([b, e])
    return out


UNARY_LTL = ['explain_next', 'explain_prev', 'explain_unary', 'explain_abs', 'explain_sqrt', 'explain_exp',
             'explain_sat_not', 'explain_unsat_not', 'explain_sat_next', 'explain_unsat_next', 'explain_rise',
             'explain_fall', 'explain_sat_prev', 'explain_unsat_prev', 'explain_sat_always',
             'explain_sat_historically', 'explain_sat_eventually', 'explain_sat_once', 'explain_unsat_once',
             'explain_unsat_always', 'explain_unsat_historically', 'explain_unsat_eventually']
BINARY_LTL = ['explain_binary', 'explain_predicate', 'explain_pow', 'explain_addition', 'explain_multiplication',
              'explain_subtraction', 'explain_division', 'explain_sat_iff', 'explain_unsat_iff', 'explain_sat_xor',
              'explain_unsat_xor', 'explain_sat_or', 'explain_unsat_or', 'explain_sat_and', 'explain_unsat_and',
              'explain_sat_implies', 'explain_unsat_implies']
TIMED_STL = ['explain_sat_timed_always', 'explain_sat_timed_historically', 'explain_sat_timed_eventually',
             'explain_sat_timed_once', 'explain_unsat_timed_once', 'explain_unsat_timed_always',
             'explain_unsat_timed_historically', 'explain_unsat_timed_eventually']


def copy2(intervals):
    return [list(i) for i in intervals]


def report_call(label, fn, intervals, mkargs):
    before = copy2(intervals)
    inner_before = [id(i) for i in intervals]
    try:
        res = fn(*mkargs(intervals))
    except Exception as e:  # noqa
        emit(label, 'EXC', type(e).__name__, 'in', canon(intervals), 'kept', canon(intervals == before))
        return
    parts = res if isinstance(res, tuple) else (res,)
    emit(label, canon(res), 'in', canon(intervals), 'kept', canon(intervals == before),
         'same', canon([p is intervals for p in parts]),
         'alias', alias_map([intervals] + list(parts)),
         'innerkept', canon(inner_before == [id(i) for i in intervals]))


def part_a():
    rnd = random.Random(20240911)
    emit('== part A')
    for case in range(260):
        n = rnd.choice([1, 1, 2, 3, 4, 5, 6, 8, 11])
        wild = case % 5 == 4
        s1 = rand_signal(rnd, n)
        s2 = rand_signal(rnd, n) if case % 7 else s1
        if case % 13 == 12:
            s2 = s2[:max(0, n - 2)]   # operands of different length
        ivs = rand_intervals(rnd, n, wild)
        emit('A', case, 'n', n, 's1', canon(s1), 's2', canon(s2), 'iv', canon(ivs))
        for name in UNARY_LTL:
            report_call('A%d %s' % (case, name), getattr(LX, name), copy2(ivs), lambda i: (s1, i))
        for name in BINARY_LTL:
            report_call('A%d %s' % (case, name), getattr(LX, name), copy2(ivs), lambda i: (s1, s2, i))
        bounds = [(0, 0), (0, 1), (1, 1), (0, 2), (1, 3), (2, 2), (0, n), (n, 2 * n + 1), (0, 3 * n),
                  (rnd.randint(0, 3), rnd.randint(3, 9))]
        more = [(0.0, 1.9), (1.0, 2.0), ('0', '2')]
        for a, b in bounds + (more if case % 4 == 0 else []):
            for name in TIMED_STL:
                report_call('A%d %s[%s,%s]' % (case, name, a, b), getattr(SX, name), copy2(ivs),
                            lambda i: (s1, i, a, b))
    # degenerate arguments
    emit('A degenerate')
    for name in UNARY_LTL:
        fn = getattr(LX, name)
        call('Adeg %s empty-signal' % name, fn, [], [[0, 0]])
        call('Adeg %s empty-both' % name, fn, [], [])
        call('Adeg %s tuple-iv' % name, fn, [1, -1, 1], [(0, 2)])
        call('Adeg %s bad-iv' % name, fn, [1, -1, 1], [[0, 1, 2]])
        call('Adeg %s none-signal' % name, fn, None, [[0, 0]])
        call('Adeg %s none-signal-empty' % name, fn, None, [])
        call('Adeg %s tuple-signal' % name, fn, (1, -1, 1, 1), [[1, 2], [3, 3]])
        call('Adeg %s str-values' % name, fn, ['x', 'y'], [[0, 1]])
        call('Adeg %s none-values' % name, fn, [None, 1, None], [[0, 2]])
    for name in BINARY_LTL:
        fn = getattr(LX, name)
        call('Adeg %s empty-signal' % name, fn, [], [], [[0, 0]])
        call('Adeg %s empty-all' % name, fn, [], [], [])
        call('Adeg %s tuple-iv' % name, fn, [1, -1, 1], [-1, -1, 1], [(0, 2)])
        call('Adeg %s bad-iv' % name, fn, [1, -1, 1], [-1, -1, 1], [[0, 1, 2]])
        call('Adeg %s short-op1' % name, fn, [1], [-1, -1, 1], [[0, 2]])
        call('Adeg %s short-op2' % name, fn, [1, -1, 1], [-1], [[0, 2]])
        call('Adeg %s none-op1' % name, fn, [None, 1, 1], [-1, 'x', 1], [[0, 2]])
        call('Adeg %s str-op2' % name, fn, [1, 1, 1], [-1, 'x', 1], [[0, 2]])
        call('Adeg %s reversed-iv' % name, fn, [1, -1, 1], [-1, 1, 1], [[2, 0], [1, 1]])
    for name in TIMED_STL:
        fn = getattr(SX, name)
        call('Adeg %s empty-signal' % name, fn, [], [[0, 0]], 0, 1)
        call('Adeg %s empty-both' % name, fn, [], [], 0, 1)
        call('Adeg %s none-signal-empty' % name, fn, None, [], 0, 1)
        call('Adeg %s none-signal' % name, fn, None, [[0, 0]], 0, 1)
        call('Adeg %s bad-bound' % name, fn, [1, -1], [[0, 0]], 'x', 1)
        call('Adeg %s none-bound' % name, fn, [1, -1], [], None, 1)
        call('Adeg %s tuple-iv' % name, fn, [1, -1, 1], [(0, 1)], 0, 1)
        call('Adeg %s bad-iv' % name, fn, [1, -1, 1], [[0, 1, 2]], 0, 1)
        call('Adeg %s neg-bound' % name, fn, [1, -1, 1, -1], [[1, 2]], -1, 1)
        call('Adeg %s tuple-signal' % name, fn, (1, -1, 1, 1), [[1, 2], [0, 0]], 0, 1)


# --------------------------------------------------------------------------------------
# part B: interval_union and the Explanations dictionary
# --------------------------------------------------------------------------------------
def part_b():
    rnd = random.Random(77)
    emit('== part B')
    emit('B same-function', canon(SE.interval_union is SX.interval_union),
         canon(LE.interval_union is LX.interval_union),
         canon(LX.interval_union.__name__), canon(SX.interval_union.__name__))
    for case in range(300):
        k = rnd.choice([0, 1, 1, 2, 3, 4, 6, 9])
        lo, hi = rnd.choice([(0, 3), (0, 10), (-5, 5), (0, 30)])
        ivs = []
        for _ in range(k):
            b = rnd.randint(lo, hi)
            e = rnd.randint(b, hi) if rnd.random() < 0.85 else rnd.randint(lo, hi)
            ivs.append([b, e])
        if k and rnd.random() < 0.3:
            ivs.append(list(rnd.choice(ivs)))      # equal intervals
        if k and rnd.random() < 0.2:
            ivs.append(rnd.choice(ivs))            # the very same object twice
        for mod, tag in ((LX, 'ltl'), (SX, 'stl')):
            arg = [i for i in ivs]
            before = copy2(arg)
            res = mod.interval_union(arg)
            emit('B%d %s' % (case, tag), canon(ivs), '->', canon(res), 'kept', canon(arg == before),
                 'alias', alias_map([arg, res]))
    for mod, tag in ((LX, 'ltl'), (SX, 'stl')):
        call('Bdeg %s tuples' % tag, mod.interval_union, [(3, 4), (0, 1), (1, 2)])
        call('Bdeg %s mixed' % tag, mod.interval_union, [[3, 4], (0, 1)])
        call('Bdeg %s triple' % tag, mod.interval_union, [[3, 4, 5]])
        call('Bdeg %s floats' % tag, mod.interval_union, [[0.5, 1.5], [2.0, 3], [4.5, 5]])
        call('Bdeg %s none' % tag, mod.interval_union, None)
        call('Bdeg %s nonepair' % tag, mod.interval_union, [[None, 1], [0, 2]])
        call('Bdeg %s generator' % tag, mod.interval_union, ([i, i + 1] for i in (5, 0, 2)))
        call('Bdeg %s tupletuple' % tag, mod.interval_union, ((0, 1), (1, 5)))

    # Explanations: union on repeated assignment
    for case in range(120):
        ex = LE.Explanations()
        keys = ['p', 'q', 'r']
        log = []
        for step in range(rnd.randint(1, 7)):
            key = rnd.choice(keys)
            ivs = rand_intervals(rnd, rnd.choice([1, 3, 6, 10]), False)
            before = copy2(ivs)
            ex[key] = ivs
            log.append(ivs)
            emit('BX%d.%d' % (case, step), key, canon(ivs), 'kept', canon(ivs == before), '=>',
                 canon([[k, v] for k, v in ex.items()]),
                 'stored-is-arg', canon(ex[key] is ivs))
        emit('BX%d alias' % case, alias_map(list(ex.values()) + log))
        ex.clear()
        emit('BX%d cleared' % case, len(ex), canon(isinstance(ex, dict)))
    ex = LE.Explanations()
    ex.update({'k': [[0, 1]]})
    ex.update({'k': [[5, 6]]})
    ex.setdefault('k', [[9, 9]])
    emit('BX update', canon([[k, v] for k, v in ex.items()]))


# --------------------------------------------------------------------------------------
# part C: whole specifications through the public API
# --------------------------------------------------------------------------------------
CMP = ['>=', '<=', '>', '<', '==', '!==']
VARS = ['a', 'b', 'c']


def gen_term(rnd, depth):
    k = rnd.randrange(14 if depth > 0 else 4)
    if k < 2:
        return rnd.choice(VARS)
    if k < 4:
        return rnd.choice(['0', '1', '2', '0.5', '3', '1.0'])
    x = gen_term(rnd, depth - 1)
    y = gen_term(rnd, depth - 1)
    if k == 4:
        return 'abs(%s)' % x
    if k == 5:
        return '(%s + %s)' % (x, y)
    if k == 6:
        return '(%s - %s)' % (x, y)
    if k == 7:
        return '(%s * %s)' % (x, y)
    if k == 8:
        return '(%s / %s)' % (x, rnd.choice(['2', '4', '0.5']))
    if k == 9:
        return 'sqrt(abs(%s))' % x
    if k == 10:
        return 'exp(%s)' % rnd.choice(VARS)
    if k == 11:
        return 'pow(2, %s)' % rnd.choice(VARS)
    if k == 12:
        return '(-%s)' % x
    return rnd.choice(['ln(abs(%s) + 1)' % x, 'log(abs(%s) + 1, 2)' % x])


BOUNDS = ['[0,0]', '[0,1]', '[1,1]', '[0,2]', '[1,3]', '[2,2]', '[0,20]', '[15,30]', '[3,4]', '[0:5]']


def gen_formula(rnd, depth, past_only=False, repeat=None):
    if repeat is not None and rnd.random() < 0.15 and repeat:
        return rnd.choice(repeat)
    if depth <= 0 or rnd.random() < 0.12:
        f = '(%s %s %s)' % (gen_term(rnd, 1), rnd.choice(CMP), gen_term(rnd, 1))
        if repeat is not None:
            repeat.append(f)
        return f
    k = rnd.randrange(30)
    x = gen_formula(rnd, depth - 1, past_only, repeat)
    y = gen_formula(rnd, depth - 1, past_only, repeat)
    bnd = rnd.choice(BOUNDS)
    if k == 0:
        f = 'not(%s)' % x
    elif k == 1:
        f = '(%s and %s)' % (x, y)
    elif k == 2:
        f = '(%s or %s)' % (x, y)
    elif k == 3:
        f = '(%s -> %s)' % (x, y)
    elif k == 4:
        f = '(%s <-> %s)' % (x, y)
    elif k == 5:
        f = '(%s xor %s)' % (x, y)
    elif k == 6:
        f = 'always(%s)' % x
    elif k == 7:
        f = 'eventually(%s)' % x
    elif k == 8:
        f = 'once(%s)' % x
    elif k == 9:
        f = 'historically(%s)' % x
    elif k == 10:
        f = 'prev(%s)' % x
    elif k == 11:
        f = 'next(%s)' % x
    elif k == 12:
        f = 's_prev(%s)' % x
    elif k == 13:
        f = 's_next(%s)' % x
    elif k == 14:
        f = 'rise(%s)' % x
    elif k == 15:
        f = 'fall(%s)' % x
    elif k in (16, 17):
        f = 'always%s(%s)' % (bnd, x)
    elif k in (18, 19):
        f = 'eventually%s(%s)' % (bnd, x)
    elif k in (20, 21):
        f = 'once%s(%s)' % (bnd, x)
    elif k in (22, 23):
        f = 'historically%s(%s)' % (bnd, x)
    elif k == 24:
        f = rnd.choice(['(%s until %s)', '(%s since %s)', '(%s until[0,2] %s)', '(%s since[1,2] %s)',
                        '(%s unless %s)']) % (x, y)
    elif k == 25:
        f = '(%s and %s)' % (x, x)
    elif k == 26:
        f = '(%s implies always[0,1](%s))' % (x, y)
    elif k == 27:
        f = '(always(%s) or eventually(%s))' % (x, x)
    elif k == 28:
        f = '(%s iff %s)' % (x, x)
    else:
        f = 'historically(once[0,1](%s))' % x
    if repeat is not None:
        repeat.append(f)
    return f


DATA_POOLS = [
    [-2, -1, 0, 1, 2],
    [-1.0, 0.0, 1.0, 0.5, -0.5],
    [0],
    [0.0],
    [1, 1, 1],
    [-1, -1],
    [-3, 3],
    [0, 1],
    [-2.5, 2, 0, 3, -1],
]


def gen_data(rnd, n, period=1, t0=0):
    pool = rnd.choice(DATA_POOLS)
    d = {'time': [t0 + i * period for i in range(n)]}
    for v in VARS:
        if rnd.random() < 0.2:
            val = rnd.choice(pool)
            d[v] = [val] * n
        else:
            d[v] = [rnd.choice(pool) for _ in range(n)]
    return d


def key_text(k):
    if isinstance(k, str):
        return repr(k)
    return '<%s %s>' % (type(k).__name__, getattr(k, 'name', '?'))


def dump_explanations(label, explainer):
    ex = explainer.explanations
    emit(label, 'n', len(ex), 'type', type(ex).__name__)
    for k, v in ex.items():
        emit(label, '  ', key_text(k), canon(v))
    emit(label, 'alias', alias_map(list(ex.values())))


def make_spec(text, setup=None):
    spec = rtamt.StlDiscreteTimeOfflineSpecification()
    for v in VARS:
        spec.declare_var(v, 'float')
    if setup is not None:
        setup(spec)
    spec.spec = text
    spec.parse()
    return spec


def snapshot(d):
    return dict((k, list(v)) for k, v in d.items())


def run_spec(label, text, datasets, setup=None, direct=None, rnd=None):
    emit(label, 'SPEC', text.replace('\n', ' '))
    try:
        spec = make_spec(text, setup)
    except Exception as e:  # noqa
        emit(label, 'parse EXC', type(e).__name__)
        return
    # explain() before any evaluation
    try:
        spec.explain()
        emit(label, 'explain-before-evaluate ok')
    except Exception as e:  # noqa
        emit(label, 'explain-before-evaluate EXC', type(e).__name__)
    dump_explanations(label + ' pre', spec.explainer)
    for j, data in enumerate(datasets):
        tag = '%s d%d' % (label, j)
        keep = snapshot(data)
        try:
            out = spec.evaluate(data)
            emit(tag, 'eval', canon(out))
        except Exception as e:  # noqa
            emit(tag, 'eval EXC', type(e).__name__)
            continue
        for rep in range(2):
            try:
                ret = spec.explain()
                emit(tag, 'explain', rep, canon(ret))
            except Exception as e:  # noqa
                emit(tag, 'explain', rep, 'EXC', type(e).__name__)
            dump_explanations('%s x%d' % (tag, rep), spec.explainer)
        emit(tag, 'data-kept', canon(snapshot(data) == keep))
        if direct:
            # the visitor driven directly: both polarities, arbitrary interval sets
            n = len(data['time'])
            top = spec.ast.specs[-1]
            for cls, cname in ((SE.STLExplainer, 'stl'), (LE.LTLExplainer, 'ltl')):
                for flag in (True, False):
                    ivs = rand_intervals(rnd, n, False) if n else []
                    ex = cls()
                    ex.spec = spec.ast
                    arg = copy2(ivs)
                    try:
                        ret = ex.visit(top, [arg, flag])
                        emit(tag, 'visit', cname, canon(flag), canon(ivs), 'ret', canon(ret))
                    except Exception as e:  # noqa
                        emit(tag, 'visit', cname, canon(flag), canon(ivs), 'EXC', type(e).__name__)
                    emit(tag, 'visit arg kept', canon(arg == ivs))
                    dump_explanations('%s v-%s-%s' % (tag, cname, 'T' if flag else 'F'), ex)
            # a fresh explainer object on the same ast
            for cls, cname in ((SE.STLExplainer, 'stl'), (LE.LTLExplainer, 'ltl')):
                ex = cls()
                try:
                    ret = ex.explain(spec.ast)
                    emit(tag, 'fresh', cname, canon(ret))
                except Exception as e:  # noqa
                    emit(tag, 'fresh', cname, 'EXC', type(e).__name__)
                dump_explanations('%s fresh-%s' % (tag, cname), ex)
    for m in ('reset',):
        try:
            getattr(spec, m)()
            emit(label, m, 'ok')
        except Exception as e:  # noqa
            emit(label, m, 'EXC', type(e).__name__)


def part_c():
    rnd = random.Random(4711)
    emit('== part C')
    for case in range(420):
        depth = rnd.choice([1, 2, 2, 3, 3, 4])
        repeat = [] if case % 3 == 0 else None
        f = gen_formula(rnd, depth, repeat=repeat)
        n = rnd.choice([1, 1, 2, 3, 4, 5, 7, 10])
        datasets = [gen_data(rnd, n), gen_data(rnd, rnd.choice([1, 2, 6]))]
        if case % 10 == 0:
            datasets.append(gen_data(rnd, 0))
        direct = case % 2 == 0
        run_spec('C%d+' % case, 'out = %s' % f, datasets, direct=direct, rnd=rnd)
        run_spec('C%d-' % case, 'out = not(%s)' % f, datasets, direct=direct, rnd=rnd)

    # fixed shapes: every operator on its own, violated at time 0 one way or the other
    emit('== part C fixed')
    shapes = ['always(%s)', 'eventually(%s)', 'once(%s)', 'historically(%s)', 'prev(%s)', 'next(%s)',
              's_prev(%s)', 's_next(%s)', 'rise(%s)', 'fall(%s)', 'not(%s)',
              'always[0,0](%s)', 'always[0,2](%s)', 'always[1,3](%s)', 'always[0,50](%s)', 'always[20,50](%s)',
              'eventually[0,0](%s)', 'eventually[0,2](%s)', 'eventually[1,3](%s)', 'eventually[0,50](%s)',
              'eventually[20,50](%s)',
              'once[0,0](%s)', 'once[0,2](%s)', 'once[1,3](%s)', 'once[0,50](%s)',
              'historically[0,0](%s)', 'historically[0,2](%s)', 'historically[1,3](%s)', 'historically[0,50](%s)',
              'always(eventually[0,1](%s))', 'eventually(always[0,1](%s))', 'always(once[0,1](%s))',
              'eventually(historically[1,2](%s))', 'always(next(%s))', 'always(prev(%s))',
              'eventually(next(next(%s)))', 'always(rise(%s))', 'always(not(fall(%s)))',
              'always(eventually(%s))', 'eventually(always(%s))', 'always(once(%s))', 'always(historically(%s))',
              'eventually(once(%s))', 'eventually(historically(%s))',
              'always[0,1](always[0,1](%s))', 'eventually[0,1](eventually[1,2](%s))',
              'always[0,2](eventually[0,1](%s))', 'always(once[1,2](historically[0,1](%s)))']
    atoms = ['(a >= 0)', '(a > b)', '(a == b)', '(abs(a) <= 1)']
    binshapes = ['(%s and %s)', '(%s or %s)', '(%s -> %s)', '(%s <-> %s)', '(%s xor %s)',
                 'always(%s and %s)', 'always(%s or %s)', 'always(%s -> %s)', 'always(%s <-> %s)',
                 'always(%s xor %s)', 'eventually(%s and %s)', 'eventually(%s or %s)', 'eventually(%s -> %s)',
                 'eventually(%s iff %s)', 'eventually(%s xor %s)', 'always(%s -> eventually[0,2](%s))',
                 'always((%s and not(%s)))', '(%s until %s)', 'always(%s since[0,2] %s)']
    case = 0
    for sh in shapes:
        for at in atoms[:2]:
            for neg in (False, True):
                f = sh % at
                if neg:
                    f = 'not(%s)' % f
                n = rnd.choice([1, 2, 5, 9])
                run_spec('CF%d' % case, 'out = %s' % f, [gen_data(rnd, n), gen_data(rnd, 6)],
                         direct=(case % 3 == 0), rnd=rnd)
                case += 1
    for sh in binshapes:
        for neg in (False, True):
            x, y = rnd.choice(atoms), rnd.choice(atoms)
            f = sh % (x, y)
            if neg:
                f = 'not(%s)' % f
            run_spec('CF%d' % case, 'out = %s' % f, [gen_data(rnd, 1), gen_data(rnd, 7), gen_data(rnd, 4)],
                     direct=True, rnd=rnd)
            case += 1

    # several assertions, sub-specifications, no left hand side, constants
    emit('== part C multi')
    multi = [
        'p = once[0,1](a >= 0);\nout = always(p and (b >= 0));',
        'p = (a >= 0);\nq = (b >= 0);\nout = always(p -> eventually[0,2](q));',
        'p = (a >= 0);\nout = always((p >= 0) or (p <= 1));',
        'out = always(a >= 0);\nout2 = eventually(b >= 0);',
        'out2 = eventually(b >= 0);\nout = always(a >= 0);',
        'always(a >= 0);',
        'a >= 0;',
        'out = a;',
        'out = 0 - 1;',
        'out = always(a >= 0) and always(a >= 0) and eventually(not(a >= 0));',
    ]
    for i, text in enumerate(multi):
        for rep in range(3):
            run_spec('CM%d.%d' % (i, rep), text, [gen_data(rnd, rnd.choice([1, 3, 6])), gen_data(rnd, 5)],
                     direct=True, rnd=rnd)

    # units and sampling periods: the bounds are counted in samples
    emit('== part C units')

    def su(period, unit, tol=None, specunit=None):
        def f(spec):
            if specunit is not None:
                spec.unit = specunit
            if tol is None:
                spec.set_sampling_period(period, unit)
            else:
                spec.set_sampling_period(period, unit, tol)
        return f

    unit_cases = [
        ('out = always[0,2s](a >= 0)', su(500, 'ms', 0.1), 0.5),
        ('out = always[500ms,2s](a >= 0)', su(500, 'ms', 0.1), 0.5),
        ('out = eventually[0,1500ms](a >= 0)', su(500, 'ms', 0.1), 0.5),
        ('out = always(once[1s,2s](a >= 0))', su(500, 'ms', 0.1), 0.5),
        ('out = always(historically[0,1s](a >= 0))', su(250, 'ms', 0.1), 0.25),
        ('out = always[0,1000](a >= 0)', su(500, 'ms', 0.1, 'ms'), 500),
        ('out = eventually[500,1500](a >= 0)', su(500, 'ms', 0.1, 'ms'), 500),
        ('out = always[0,3](a >= 0)', su(1, 's', 0.1), 1),
        ('out = always[0,0.3](a >= 0)', su(0.1, 's', 0.1), 0.1),
        ('out = eventually[0.1,0.3](a >= 0)', su(0.1, 's', 0.1), 0.1),
        ('out = always[0,3](a >= 0)', su(2, 's', 0.1), 2),
        ('out = always[1,700ms](a >= 0)', su(500, 'ms', 0.1), 0.5),
        ('out = always[0,1s](a >= 0)', su(1, 'ms', 0.1, 'ms'), 1),
        ('out = once[0,2000us](a >= 0) and always[0,3ms](a >= 0)', su(1, 'ms', 0.1, 'ms'), 1),
        ('out = always[0,2](a >= 0)', su(3, 's'), 3),
        ('out = always[0,2](a >= 0)', None, 1),
    ]
    for i, (text, setup, per) in enumerate(unit_cases):
        for rep in range(4):
            run_spec('CU%d.%d' % (i, rep), text,
                     [gen_data(rnd, rnd.choice([1, 3, 6, 9]), per), gen_data(rnd, 5, per)],
                     setup=setup, direct=(rep == 0), rnd=rnd)


# --------------------------------------------------------------------------------------
# part D: other entry points that own an explainer or not
# --------------------------------------------------------------------------------------
def part_d():
    emit('== part D')
    emit('D mro', ' '.join(c.__name__ for c in SE.STLExplainer.__mro__))
    emit('D mro', ' '.join(c.__name__ for c in LE.LTLExplainer.__mro__))
    for cls in (SE.STLExplainer, LE.LTLExplainer):
        ex = cls()
        emit('D new', cls.__name__, type(ex.explanations).__name__, len(ex.explanations),
             canon(hasattr(ex, 'spec')))
        for meth in ('visitUntil', 'visitSince', 'visitTimedUntil', 'visitTimedSince', 'visitTimedPrecedes'):
            try:
                getattr(ex, meth)(None, [[[0, 0]], False])
                emit('D', cls.__name__, meth, 'ok')
            except Exception as e:  # noqa
                emit('D', cls.__name__, meth, 'EXC', type(e).__name__, str(e))
        try:
            ex.visitDefault(None)
        except Exception as e:  # noqa
            emit('D', cls.__name__, 'visitDefault EXC', type(e).__name__, str(e))
        try:
            ex.visit(object(), [[[0, 0]], False])
        except Exception as e:  # noqa
            emit('D', cls.__name__, 'visit(object) EXC', type(e).__name__, str(e))
        try:
            ex.explain(None)
        except Exception as e:  # noqa
            emit('D', cls.__name__, 'explain(None) EXC', type(e).__name__)
    for ctor in ('StlDiscreteTimeSpecification', 'StlDenseTimeSpecification', 'StlDiscreteTimeOnlineSpecification',
                 'StlDenseTimeOfflineSpecification'):
        try:
            spec = getattr(rtamt, ctor)()
            spec.declare_var('a', 'float')
            spec.spec = 'out = always[0,1](a >= 0)'
            spec.parse()
            spec.explain()
            emit('D', ctor, 'explain ok')
        except Exception as e:  # noqa
            emit('D', ctor, 'explain EXC', type(e).__name__)
    # one explainer shared by hand between two specifications, explanations cleared in between
    ex = SE.STLExplainer()
    s1 = make_spec('out = always(a >= 0)')
    s2 = make_spec('out = eventually[0,1](b >= 0)')
    s1.evaluate({'time': [0, 1, 2], 'a': [1, -1, 1], 'b': [0, 0, 0], 'c': [0, 0, 0]})
    s2.evaluate({'time': [0, 1, 2], 'a': [1, -1, 1], 'b': [-1, -2, 0], 'c': [0, 0, 0]})
    held = ex.explanations
    for s in (s1, s2, s1):
        ex.explain(s.ast)
        dump_explanations('D shared', ex)
        emit('D shared same-dict', canon(ex.explanations is held), canon(ex.spec is s.ast))


if __name__ == '__main__':
    part_a()
    part_b()
    part_c()
    part_d()
