"""Differential script for the discrete-time ONLINE monitors of rtamt.

usage:  PYTHONPATH=<tree> /venv/bin/python twins/diff_test.py > out.txt

Deterministic (seeded).  Prints every result / exception type in a canonical text
form; two trees behave the same iff the outputs are byte-identical.
"""
from __future__ import print_function

import collections
import logging
import random
import sys
import types

logging.disable(logging.CRITICAL)

import rtamt
from rtamt.exception.exception import RTAMTException
from rtamt.semantics.enumerations.comp_oper import StlComparisonOperator

from rtamt.semantics.stl.discrete_time.online.once_timed_operation import OnceTimedOperation
from rtamt.semantics.stl.discrete_time.online.historically_timed_operation import HistoricallyTimedOperation
from rtamt.semantics.stl.discrete_time.online.since_timed_operation import SinceTimedOperation
from rtamt.semantics.stl.discrete_time.online.precedes_timed_operation import PrecedesTimedOperation
from rtamt.semantics.stl.discrete_time.online.once_operation import OnceOperation
from rtamt.semantics.stl.discrete_time.online.historically_operation import HistoricallyOperation
from rtamt.semantics.stl.discrete_time.online.eventually_operation import EventuallyOperation
from rtamt.semantics.stl.discrete_time.online.always_operation import AlwaysOperation
from rtamt.semantics.stl.discrete_time.online.since_operation import SinceOperation
from rtamt.semantics.stl.discrete_time.online.rise_operation import RiseOperation
from rtamt.semantics.stl.discrete_time.online.fall_operation import FallOperation
from rtamt.semantics.stl.discrete_time.online.previous_operation import PreviousOperation
from rtamt.semantics.stl.discrete_time.online.strong_previous_operation import StrongPreviousOperation
from rtamt.semantics.stl.discrete_time.online.not_operation import NotOperation
from rtamt.semantics.stl.discrete_time.online.and_operation import AndOperation
from rtamt.semantics.stl.discrete_time.online.or_operation import OrOperation
from rtamt.semantics.stl.discrete_time.online.implies_operation import ImpliesOperation
from rtamt.semantics.stl.discrete_time.online.iff_operation import IffOperation
from rtamt.semantics.stl.discrete_time.online.xor_operation import XorOperation
from rtamt.semantics.stl.discrete_time.online.predicate_operation import PredicateOperation
from rtamt.semantics.stl.discrete_time.online.variable_operation import VariableOperation
from rtamt.semantics.stl.discrete_time.online.constant_operation import ConstantOperation
from rtamt.semantics.iastl.discrete_time.online.predicate_operation import PredicateOperation as IaPredicateOperation
from rtamt.semantics.arithmetic.discrete_time.online.abs_operation import AbsOperation
from rtamt.semantics.arithmetic.discrete_time.online.addition_operation import AdditionOperation
from rtamt.semantics.arithmetic.discrete_time.online.subtraction_operation import SubtractionOperation
from rtamt.semantics.arithmetic.discrete_time.online.multiplication_operation import MultiplicationOperation
from rtamt.semantics.arithmetic.discrete_time.online.division_operation import DivisionOperation
from rtamt.semantics.arithmetic.discrete_time.online.exp_operation import ExpOperation
from rtamt.semantics.arithmetic.discrete_time.online.log_operation import LogOperation
from rtamt.semantics.arithmetic.discrete_time.online.ln_operation import LnOperation
from rtamt.semantics.arithmetic.discrete_time.online.negate_operation import NegateOperation
from rtamt.semantics.arithmetic.discrete_time.online.pow_operation import PowOperation
from rtamt.semantics.arithmetic.discrete_time.online.sqrt_operation import SqrtOperation
from rtamt.semantics.abstract_online_interpreter import AbstractOnlineUpdateVisitor, AbstractOnlineResetVisitor
from rtamt.semantics.abstract_discrete_time_online_interpreter import DiscreteTimeOnlineUpdateVisitor

INF = float('inf')
NAN = float('nan')

out = sys.stdout.write


def fmt(v):
    """canonical text of a value: the type is part of it (1 and 1.0 differ)"""
    if isinstance(v, bool):
        return 'bool:%r' % v
    if isinstance(v, int):
        return 'int:%r' % v
    if isinstance(v, float):
        return 'float:%r' % v
    if isinstance(v, str):
        return 'str:%r' % v
    if v is None:
        return 'None'
    if isinstance(v, (list, tuple, collections.deque)):
        return type(v).__name__ + '[' + ','.join(fmt(x) for x in v) + ']'
    if isinstance(v, StlComparisonOperator):
        return 'op:' + v.name
    if hasattr(v, 'twin_repr'):
        return v.twin_repr()
    if hasattr(v, 'name') and hasattr(v, 'value'):
        return 'enum:' + str(v.name)
    return 'obj:' + type(v).__name__


def exc(e):
    if isinstance(e, RTAMTException):
        return 'EXC RTAMTException(%s)' % (e,)
    return 'EXC ' + type(e).__name__


def call(f, *args):
    try:
        return fmt(f(*args))
    except Exception as e:          # noqa - every exception type is part of the behaviour
        return exc(e)


def state(op):
    d = vars(op)
    return '{' + ' '.join('%s=%s' % (k, fmt(d[k])) for k in sorted(d)) + '}'


def line(*parts):
    out(' '.join(str(p) for p in parts) + '\n')


# ---------------------------------------------------------------------------------
# sample pools
# ---------------------------------------------------------------------------------
PLAIN = [0, 1, -1, 2, -2, 3, 5, 0.0, -0.0, 1.0, -1.0, 2.0, 0.5, -0.5, 2.5, -3.25, 100, -100.0, 1e-9]
EXTREME = PLAIN + [INF, -INF, 1e308, -1e308]
WITH_NAN = EXTREME + [NAN, NAN]
WITH_BAD = EXTREME + ['x', None]


def pools(rng):
    k = rng.randrange(10)
    if k < 4:
        return PLAIN
    if k < 6:
        return [0, 1, 1.0, 0.0, -0.0]        # ties between int and float
    if k < 7:
        return EXTREME
    if k < 8:
        return WITH_NAN
    if k < 9:
        return WITH_BAD
    return [rng.choice(PLAIN)]                # constant signal


# ---------------------------------------------------------------------------------
# PART A : operations driven directly
# ---------------------------------------------------------------------------------
BOUNDS = [(0, 0), (0, 1), (1, 1), (0, 2), (1, 2), (2, 2), (0, 5), (2, 4), (3, 10), (7, 7), (0, 12),
          (3, 1), (5, 0), (-1, 2), (-2, -1), (0, -1), (1, -1), (-3, 0), (0, -2)]


def drive(tag, make, arity, rng, steps):
    try:
        op = make()
    except Exception as e:
        line(tag, 'ctor', exc(e))
        return
    line(tag, 'ctor', state(op))
    pool = pools(rng)
    for k in range(steps):
        r = rng.random()
        if r < 0.08:
            line(tag, k, 'reset', call(op.reset), state(op))
            continue
        args = [rng.choice(pool) for _ in range(arity)]
        line(tag, k, 'upd', ','.join(fmt(a) for a in args), '->', call(op.update, *args))
    line(tag, 'end', state(op))
    line(tag, 'reset', call(op.reset), state(op))
    args = [rng.choice(pool) for _ in range(arity)]
    line(tag, 'after-reset', ','.join(fmt(a) for a in args), '->', call(op.update, *args), state(op))


class FakeOp(object):
    def __init__(self, value):
        self.value = value
        self.name = 'fake%r' % (value,)


def part_a():
    rng = random.Random(20240911)
    timed1 = [('OnceTimed', OnceTimedOperation), ('HistTimed', HistoricallyTimedOperation)]
    timed2 = [('SinceTimed', SinceTimedOperation), ('PrecTimed', PrecedesTimedOperation)]
    for rep in range(4):
        for (b, e) in BOUNDS:
            for name, cls in timed1:
                drive('A1 %s[%d,%d]#%d' % (name, b, e, rep), lambda: cls(b, e), 1, rng, 6 + 2 * max(e, 0))
            for name, cls in timed2:
                drive('A2 %s[%d,%d]#%d' % (name, b, e, rep), lambda: cls(b, e), 2, rng, 6 + 2 * max(e, 0))
    unary = [('Once', OnceOperation), ('Hist', HistoricallyOperation), ('Ev', EventuallyOperation),
             ('Alw', AlwaysOperation), ('Rise', RiseOperation), ('Fall', FallOperation),
             ('Prev', PreviousOperation), ('SPrev', StrongPreviousOperation), ('Not', NotOperation),
             ('Abs', AbsOperation), ('Exp', ExpOperation), ('Neg', NegateOperation), ('Sqrt', SqrtOperation)]
    binary = [('Since', SinceOperation), ('And', AndOperation), ('Or', OrOperation), ('Impl', ImpliesOperation),
              ('Iff', IffOperation), ('Xor', XorOperation), ('Add', AdditionOperation),
              ('Sub', SubtractionOperation), ('Mul', MultiplicationOperation), ('Div', DivisionOperation),
              ('Pow', PowOperation), ('Log', LogOperation)]
    for rep in range(6):
        for name, cls in unary:
            drive('A3 %s#%d' % (name, rep), cls, 1, rng, 12)
        for name, cls in binary:
            drive('A4 %s#%d' % (name, rep), cls, 2, rng, 12)
    # Ln prints its result itself: part of the observable behaviour
    for rep in range(3):
        drive('A5 Ln#%d' % rep, LnOperation, 1, rng, 8)
    for rep in range(3):
        drive('A6 Var#%d' % rep, VariableOperation, 0, rng, 3)
        drive('A6 Const#%d' % rep, lambda: ConstantOperation(rng.choice(PLAIN)), 0, rng, 3)
    # predicates: every comparison, foreign comparison objects, both methods
    cmps = list(StlComparisonOperator) + [FakeOp(99), FakeOp(-1), FakeOp(2), FakeOp(2.0), FakeOp('EQ'),
                                          FakeOp(None), None, 3]
    for c in cmps:
        try:
            op = PredicateOperation(c)
        except Exception as e:
            line('A7 pred', fmt(c), 'ctor', exc(e))
            continue
        line('A7 pred', fmt(c), 'ctor', state(op))
        for pool in (PLAIN, [0, 1, 1.0, -0.0], WITH_NAN, WITH_BAD):
            for k in range(14):
                l, r = rng.choice(pool), rng.choice(pool)
                line('A7 pred', fmt(c), fmt(l), fmt(r), 'upd', call(op.update, l, r), 'sat', call(op.sat, l, r))
        line('A7 pred', fmt(c), 'reset', call(op.reset), state(op))
    sems = [rtamt.Semantics.STANDARD, rtamt.Semantics.OUTPUT_ROBUSTNESS, rtamt.Semantics.INPUT_ROBUSTNESS,
            rtamt.Semantics.INPUT_VACUITY, rtamt.Semantics.OUTPUT_VACUITY]
    for c in list(StlComparisonOperator) + [FakeOp(99)]:
        for s in sems:
            for iv, ov in (([], []), (['a'], []), ([], ['b']), (['a'], ['b'])):
                op = IaPredicateOperation(c, s, iv, ov)
                for k in range(4):
                    l, r = rng.choice(PLAIN), rng.choice(PLAIN)
                    line('A8 iapred', fmt(c), s.name, len(iv), len(ov), fmt(l), fmt(r), call(op.update, l, r))


# ---------------------------------------------------------------------------------
# PART B : visitors driven on hand-made trees (memo, reset, leaf dispatch)
# ---------------------------------------------------------------------------------
def part_b():
    from rtamt.syntax.node.ltl.variable import Variable
    from rtamt.syntax.node.ltl.constant import Constant
    from rtamt.syntax.node.ltl.conjunction import Conjunction
    from rtamt.syntax.node.ltl.once import Once
    from rtamt.syntax.node.ltl.previous import Previous
    from rtamt.syntax.node.leaf_node import LeafNode

    class Ast(object):
        def __init__(self, specs):
            self.specs = specs

    class CountingOp(object):
        def __init__(self, name, log):
            self.name = name
            self.log = log
            self.n = 0

        def update(self, *samples):
            self.n += 1
            self.log.append('%s.update(%s)' % (self.name, ','.join(fmt(s) for s in samples)))
            return sum(samples) + self.n

        def reset(self):
            self.log.append('%s.reset' % self.name)
            self.n = 0

    a = Variable('a', '', 'output')
    a2 = Variable('a', '', 'output')          # a second node with the same name
    c = Constant(2.0)
    p1 = Previous(a)
    p2 = Previous(a2)                          # shares the operator (same name) with p1
    conj = Conjunction(p1, p2)
    o = Once(conj)
    top2 = Conjunction(o, c)
    log = []
    ops = dict()
    for n in (p1, conj, o, top2):
        ops[n.name] = CountingOp(n.name, log)
    line('B names', [n.name for n in (a, a2, c, p1, p2, conj, o, top2)])
    vis = DiscreteTimeOnlineUpdateVisitor()
    vod = {'a': 3}
    for k in range(3):
        vod['a'] = 3 + k
        res = vis.visitAst(Ast([o, top2]), ops, vod)
        line('B upd', k, fmt(res), 'visited', [(n, fmt(v)) for n, v in vis.visited.items()])
        line('B results', [(n.name, fmt(v)) for n, v in vis.results.items()])
    line('B log', log)
    del log[:]
    rv = AbstractOnlineResetVisitor()
    line('B reset', fmt(rv.visitAst(Ast([o, top2]), ops)), log)
    del log[:]
    line('B empty', fmt(vis.visitAst(Ast([]), ops, vod)), fmt(rv.visitAst(Ast([]), ops)))
    # missing operator: KeyError after the children were stepped
    del ops[o.name]
    try:
        vis.visitAst(Ast([top2]), ops, vod)
    except Exception as e:
        line('B missing', exc(e), log, 'visited', sorted(vis.visited))
    del log[:]
    try:
        rv.visitAst(Ast([top2]), ops)
    except Exception as e:
        line('B missing-reset', exc(e), log)
    # a leaf that is neither a constant nor a variable; a non-node
    class Odd(LeafNode):
        def __init__(self):
            LeafNode.__init__(self)
            self.name = 'odd'
    for bad in (Odd(), object(), None):
        try:
            line('B odd', fmt(vis.visitAst(Ast([bad]), ops, vod)))
        except Exception as e:
            line('B odd', exc(e))
        try:
            line('B odd-reset', fmt(rv.visitAst(Ast([bad]), ops)))
        except Exception as e:
            line('B odd-reset', exc(e))
    # object variable with a field
    class Msg(object):
        def __init__(self, v):
            self.v = v
            self.inner = self
    f = Variable('m', 'inner.v', 'output')
    g = Variable('m', 'nope', 'output')
    line('B field', call(vis.visitAst, Ast([f]), {}, {'m': Msg(7)}), call(vis.visitAst, Ast([g]), {}, {'m': Msg(7)}),
         call(vis.visitAst, Ast([f]), {}, {}))
    # the abstract visitor has no visitVariable / visitConstant of its own
    av = AbstractOnlineUpdateVisitor()
    line('B abstract', call(av.visitAst, Ast([a]), {}, {'a': 1}), call(av.visitAst, Ast([c]), {}, {}))


# ---------------------------------------------------------------------------------
# PART C : random specifications through the public API
# ---------------------------------------------------------------------------------
VARS = ['a', 'b', 'c']


class Gen(object):
    def __init__(self, rng, unit_suffix='', period=1, allow_future=True, allow_unbounded=False, weird=False):
        self.rng = rng
        self.pool_f = []
        self.pool_t = []
        self.unit_suffix = unit_suffix
        self.period = period
        self.allow_future = allow_future
        self.allow_unbounded = allow_unbounded
        self.weird = weird

    def lit(self):
        return self.rng.choice(['0', '1', '2', '3', '0.5', '2.0', '1.5', '10'])

    def term(self, d):
        rng = self.rng
        if self.pool_t and rng.random() < 0.2:
            return rng.choice(self.pool_t)
        if d <= 0 or rng.random() < 0.45:
            t = rng.choice(VARS) if rng.random() < 0.7 else self.lit()
        else:
            k = rng.randrange(12)
            if k < 2:
                t = '(%s + %s)' % (self.term(d - 1), self.term(d - 1))
            elif k < 4:
                t = '(%s - %s)' % (self.term(d - 1), self.term(d - 1))
            elif k < 6:
                t = '(%s * %s)' % (self.term(d - 1), self.term(d - 1))
            elif k < 7:
                t = '(%s / %s)' % (self.term(d - 1), self.term(d - 1))
            elif k < 8:
                t = 'abs(%s)' % self.term(d - 1)
            elif k < 9:
                t = 'sqrt(%s)' % self.term(d - 1)
            elif k < 10:
                t = rng.choice(['exp(%s)' % self.term(d - 1), 'pow(%s,%s)' % (self.lit(), self.term(d - 1)),
                                'log(%s,%s)' % (self.term(d - 1), self.lit()), 'ln(%s)' % self.term(d - 1)])
            else:
                t = '(-%s)' % self.term(d - 1)
        self.pool_t.append(t)
        return t

    def bound(self):
        rng = self.rng
        lo, hi = rng.choice([(0, 0), (0, 1), (1, 1), (0, 2), (1, 3), (2, 2), (0, 4), (3, 5), (0, 9), (4, 4)])
        if self.weird and rng.random() < 0.3:
            return rng.choice(['[0.5,1]', '[2,1]', '[0,1.5]', '[1ms,2s]'])
        lo *= self.period
        hi *= self.period
        return '[%d%s,%d%s]' % (lo, self.unit_suffix, hi, self.unit_suffix)

    def formula(self, d):
        rng = self.rng
        if self.pool_f and rng.random() < 0.2:
            return rng.choice(self.pool_f)
        if d <= 0 or rng.random() < 0.2:
            f = '(%s %s %s)' % (self.term(1), rng.choice(['<=', '<', '>=', '>', '==', '!==']), self.term(1))
        else:
            k = rng.randrange(30)
            s1 = lambda: self.formula(d - 1)
            if k < 1:
                f = '(not %s)' % s1()
            elif k < 3:
                f = '(%s and %s)' % (s1(), s1())
            elif k < 5:
                f = '(%s or %s)' % (s1(), s1())
            elif k < 6:
                f = '(%s implies %s)' % (s1(), s1())
            elif k < 7:
                f = '(%s iff %s)' % (s1(), s1())
            elif k < 8:
                f = '(%s xor %s)' % (s1(), s1())
            elif k < 9:
                f = '(once %s)' % s1()
            elif k < 10:
                f = '(historically %s)' % s1()
            elif k < 11:
                f = '(%s since %s)' % (s1(), s1())
            elif k < 13:
                f = '(once%s %s)' % (self.bound(), s1())
            elif k < 15:
                f = '(historically%s %s)' % (self.bound(), s1())
            elif k < 18:
                f = '(%s since%s %s)' % (s1(), self.bound(), s1())
            elif k < 19:
                f = '(prev %s)' % s1()
            elif k < 20:
                f = '(s_prev %s)' % s1()
            elif k < 21:
                f = 'rise(%s)' % s1()
            elif k < 22:
                f = 'fall(%s)' % s1()
            elif k < 28 and self.allow_future:
                j = rng.randrange(8)
                if j < 2:
                    f = '(always%s %s)' % (self.bound(), s1())
                elif j < 4:
                    f = '(eventually%s %s)' % (self.bound(), s1())
                elif j < 6:
                    f = '(%s until%s %s)' % (s1(), self.bound(), s1())
                elif j < 7:
                    f = '(next %s)' % s1()
                else:
                    f = '(s_next %s)' % s1()
            elif k < 29 and self.allow_unbounded:
                f = rng.choice(['(always %s)', '(eventually %s)', '(%s until %s)' % ('%s', s1()),
                                '(%s unless[0,1] %s)' % ('%s', s1())]) % s1()
            else:
                f = '(%s %s %s)' % (self.term(2), rng.choice(['<=', '<', '>=', '>', '==', '!==']), self.term(2))
        self.pool_f.append(f)
        return f


def dump_ops(spec):
    d = getattr(spec.online_interpreter, 'online_operator_dict', None)
    if d is None:
        return 'no-ops'
    items = []
    for k, v in d.items():
        s = type(v).__name__
        if hasattr(v, 'begin'):
            s += '[%r,%r]' % (v.begin, v.end)
        if hasattr(v, 'comparison_op'):
            s += ':' + v.comparison_op.name
        items.append('%s=>%s' % (k, s))
    return ' | '.join(items)


def dump_op_states(spec):
    d = getattr(spec.online_interpreter, 'online_operator_dict', None)
    if d is None:
        return 'no-ops'
    return ' | '.join('%s=>%s' % (k, state(v)) for k, v in d.items())


def dump_results(spec):
    r = getattr(spec.ast, 'results', None)
    if not r:
        return 'no-results'
    return ' | '.join('%s=%s' % (n.name, fmt(v)) for n, v in r.items())


def value_pool(rng):
    k = rng.randrange(12)
    if k < 5:
        return [0, 1, 2, 3, -1, -2, 0.5, 1.5, 2.0, -0.5, 4, 10.0]
    if k < 7:
        return [0, 1, 1.0, 2, 2.0, 0.0]
    if k < 8:
        return [rng.choice([0, 1, 2.0, -1.5])]
    if k < 9:
        return [0, 0.0, -0.0]
    if k < 10:
        return [1, 2, 3, INF, -INF, 1e300, -1e300]
    if k < 11:
        return [1, 2.0, NAN, 3]
    return [1, 2.0, 'x', None, 3, 0]


def make_batch(rng, pool, used):
    k = rng.randrange(20)
    if k < 11:
        names = list(VARS)
    elif k < 14:
        names = [v for v in VARS if rng.random() < 0.6]
    elif k < 15:
        names = []
    elif k < 16:
        names = list(VARS) + ['zz', 'out', 'p']
    elif k < 17:
        names = list(VARS) + [rng.choice(VARS)]      # the same variable twice
    else:
        names = list(VARS)
        rng.shuffle(names)
    batch = []
    for n in names:
        v = rng.choice(pool)
        shape = rng.randrange(8)
        if shape < 4:
            batch.append((n, v))
        elif shape < 6:
            batch.append([n, v])
        elif shape < 7:
            batch.append((n, v, 'extra'))
        else:
            batch.append([n, v, 1, 2])
    return batch


def run_spec(tag, rng, sem, text, pastify, period=None, unit=None, nsteps=14, io=None, sub_specs=None,
             probe_names=()):
    try:
        if sem is None:
            spec = rtamt.StlDiscreteTimeOnlineSpecification()
        else:
            spec = rtamt.StlDiscreteTimeSpecification(semantics=sem)
        for v in VARS:
            spec.declare_var(v, rng.choice(['float', 'float', 'int']))
        spec.declare_var('out', 'float')
        spec.declare_var('p', 'float')
        if io:
            for v, t in io.items():
                spec.set_var_io_type(v, t)
        if unit is not None:
            spec.unit = unit
        if period is not None:
            spec.set_sampling_period(*period)
        spec.spec = text
        spec.parse()
        if pastify:
            spec.pastify()
    except Exception as e:
        line(tag, 'setup', exc(e))
        return
    line(tag, 'spec', text)
    if rng.random() < 0.3:
        line(tag, 'early-reset', call(spec.reset), fmt(spec.sampling_violation_counter))
    pool = value_pool(rng)
    t = 0
    step_kind = rng.randrange(4)
    first = True
    for k in range(nsteps):
        r = rng.random()
        if r < 0.1 and not first:
            line(tag, k, 'reset', call(spec.reset), 'viol', fmt(spec.sampling_violation_counter))
            line(tag, k, 'ops-after-reset', dump_op_states(spec))
            line(tag, k, 'vars-after-reset', ' '.join('%s=%s' % (v, fmt(spec.ast.var_object_dict.get(v))) for v in VARS + ['out', 'p']))
            if rng.random() < 0.5:
                t = 0
            continue
        batch = make_batch(rng, pool, VARS)
        res = call(spec.update, t, batch)
        line(tag, k, 'upd t=%s' % fmt(t), fmt(batch), '->', res)
        if first:
            line(tag, 'ops', dump_ops(spec))
            first = False
        line(tag, k, 'results', dump_results(spec))
        vals = []
        for n in list(VARS) + ['out', 'p'] + list(probe_names):
            vals.append('%s=%s' % (n, call(spec.get_value, n)))
        line(tag, k, 'values', ' '.join(vals), 'viol', fmt(spec.sampling_violation_counter),
             'vod', ' '.join('%s=%s' % (v, fmt(spec.ast.var_object_dict.get(v))) for v in VARS + ['out', 'p']))
        if rng.random() < 0.15:
            line(tag, k, 'op-states', dump_op_states(spec))
        if step_kind == 0:
            t = t + 1
        elif step_kind == 1:
            t = t + rng.choice([1, 1, 1, 2, 0.5, 1.05, 1.2, 0, -1])
        elif step_kind == 2:
            t = t + 1.0
        else:
            t = t + rng.choice([0.5, 1, 1000, 0.001])
    line(tag, 'final-reset', call(spec.reset), dump_op_states(spec))
    line(tag, 'after-reset', call(spec.update, 0, [(v, 1) for v in VARS]), dump_results(spec))


def part_c():
    rng = random.Random(77001)
    sems = [None, rtamt.Semantics.STANDARD, rtamt.Semantics.OUTPUT_ROBUSTNESS, rtamt.Semantics.INPUT_ROBUSTNESS,
            rtamt.Semantics.INPUT_VACUITY, rtamt.Semantics.OUTPUT_VACUITY]
    # C1: random past + bounded-future specifications, default units
    for n in range(260):
        g = Gen(rng, allow_future=True, allow_unbounded=(n % 9 == 0), weird=(n % 11 == 0))
        f = g.formula(rng.choice([1, 2, 3, 3, 4]))
        sem = sems[n % len(sems)]
        io = None
        if sem not in (None, rtamt.Semantics.STANDARD):
            io = dict((v, rng.choice(['input', 'output'])) for v in VARS)
        pastify = rng.random() < 0.9
        run_spec('C1.%d' % n, rng, sem, 'out = ' + f, pastify, nsteps=rng.choice([1, 2, 6, 14, 25]), io=io)
    # C2: sub-specifications and shared sub-formulas
    for n in range(60):
        g = Gen(rng, allow_future=(n % 2 == 0))
        f1 = g.formula(2)
        f2 = g.formula(2)
        text = rng.choice(['p = %s; out = (p >= 0.5) and %s' % (g.term(2), f2),
                           'p = %s; out = (%s) or ((p) and %s)' % (f1, f1, f2),
                           'p = %s; out = once[0,2](p) since[1,3] (%s)' % (f1, f1),
                           'p = %s; c = %s' % (f1, f2),
                           'out = (%s) and (%s)' % (f1, f1)])
        run_spec('C2.%d' % n, rng, sems[n % 2], text, True, nsteps=10)
    # C3: units, sampling period, tolerance
    for n in range(60):
        per, unit_suffix, unit, period_arg = rng.choice([
            (500, 'ms', 'ms', (500, 'ms', 0.1)),
            (1, 's', 's', (1, 's', 0.2)),
            (2, 's', 's', (2, 's', 0.0)),
            (10, 'us', 'ms', (10, 'us', 1.0)),
            (1, '', 'ms', (1, 'ms', 0.1)),
            (1000, '', 'us', (1, 'ms', 0.5)),
            (3, '', None, None),                       # bounds not multiples of ... default 1s: fine
            (1, 'ms', 's', (3, 'ms', 0.1)),            # not a multiple of the sampling period
        ])
        g = Gen(rng, unit_suffix=unit_suffix, period=per, allow_future=True)
        f = g.formula(3)
        run_spec('C3.%d' % n, rng, sems[n % 3], 'out = ' + f, True, period=period_arg, unit=unit, nsteps=8)
    # C4: fixed boundary specifications
    fixed = [
        'out = 5', 'out = a', 'out = a + 1', 'out = (a >= 1)', 'out = once[0,0](a >= 1)',
        'out = historically[0,0](a >= 1)', 'out = (a>=1) since[0,0] (b>=1)', 'out = always[0,0](a >= 1)',
        'out = (a>=1) until[0,0] (b>=1)', 'out = (a>=1) until[0,3] (b>=1)', 'out = (a>=1) until[2,2] (b>=1)',
        'out = eventually[0,20](a >= 1)', 'out = historically[5,20](a >= 1)', 'out = (a>=1) since[3,20] (b<=1)',
        'out = (a>=1) until[7,20] (b<=1)', 'out = next next next (a>=1)', 'out = prev prev (a)',
        'out = rise(a) and fall(a)', 'out = rise(a>=1) or fall(b>=1)', 'out = a since b', 'out = once(a) and once(a)',
        'out = (once[1,2](a>=1)) and (once[1,2](a>=1))', 'out = always(a>=1)', 'out = a until b',
        'out = eventually(a)', 'out = next(a)', 'out = a / b', 'out = sqrt(a)', 'out = ln(a) >= log(b, 2)',
        'out = pow(a, b) >= exp(c)', 'out = a unless[0,2] b', 'out = once[2,1](a)', 'out = zz >= 1',
    ]
    for n, text in enumerate(fixed):
        for past in (True, False):
            run_spec('C4.%d.%d' % (n, past), rng, sems[n % 2], text, past, nsteps=9)
    # C5: object-typed variables with fields (variable visitor, output field)
    mod = types.ModuleType('TwinMsg')

    class TwinMsg(object):
        def __init__(self, v=0.0, w=0):
            self.v = v
            self.w = w

        def twin_repr(self):
            return 'TwinMsg(%s,%s)' % (fmt(self.v), fmt(self.w))
    mod.TwinMsg = TwinMsg
    sys.modules['TwinMsg'] = mod
    for n, text in enumerate(['res.v = (req.v >= 3) and once[0,1](req.w <= 2)', 'res.w = req.v + req.w',
                              'res.v = historically[0,2](req.v >= req.w)', 'res = req.v >= 1']):
        tag = 'C5.%d' % n
        try:
            spec = rtamt.StlDiscreteTimeSpecification()
            spec.import_module('TwinMsg', 'TwinMsg')
            spec.declare_var('req', 'TwinMsg')
            spec.declare_var('res', 'TwinMsg')
            spec.spec = text
            spec.parse()
        except Exception as e:
            line(tag, 'setup', exc(e))
            continue
        for k in range(6):
            m = TwinMsg(rng.choice([0, 1, 2.5, 3, 4.0]), rng.choice([0, 1, 2, 3.0]))
            if k == 3:
                line(tag, 'reset', call(spec.reset), fmt(spec.ast.var_object_dict['req']),
                     fmt(spec.ast.var_object_dict['res']))
            batch = [('req', m)] if k != 4 else []
            line(tag, k, fmt(m), call(spec.update, k, batch), fmt(spec.ast.var_object_dict['res']),
                 dump_results(spec))
    # C6: no specification / not parsed
    for mk in (rtamt.StlDiscreteTimeSpecification, rtamt.StlDiscreteTimeOnlineSpecification):
        spec = mk()
        line('C6', call(spec.reset), call(spec.update, 0, [('a', 1)]), call(spec.reset))
        spec = mk()
        spec.declare_var('a', 'float')
        spec.spec = 'out = once[0,1](a>=1)'
        line('C6 unparsed', call(spec.update, 0, [('a', 1)]))
        spec.parse()
        line('C6 parsed', call(spec.update, 0, [('a', 1)]), call(spec.update, 1, 'a'), call(spec.update, 2, None),
             call(spec.update, 3, [('a',)]), call(spec.update, 4, [5]), call(spec.update, 'x', [('a', 2)]),
             call(spec.update, 6, [('a', 2)]), fmt(spec.sampling_violation_counter),
             call(spec.update, 7, {'a': 1}), call(spec.update, 8, [(['a'], 1)]), call(spec.update))


# ---------------------------------------------------------------------------------
# PART D : dense-time online monitors share the memoising update visitor
# ---------------------------------------------------------------------------------
def part_d():
    rng = random.Random(4242)
    texts = ['out = (a >= 1) and (a >= 1)', 'out = once[0,1](a >= 1) or once[0,1](a >= 1)',
             'out = ((a >= b) since[0,2] (b >= 1)) and (historically[0,1](a >= b))',
             'p = a + b; out = (p >= 2) and once[0,1](p >= 2)', 'out = abs(a - b) + abs(a - b) >= 1',
             'out = always[0,1](a >= 1) and eventually[0,2](a >= 1)', 'out = rise(a >= 1) or fall(a >= 1)',
             'out = a', 'out = 3']
    for n, text in enumerate(texts):
        tag = 'D.%d' % n
        try:
            spec = rtamt.StlDenseTimeSpecification()
            for v in ('a', 'b', 'p', 'out'):
                spec.declare_var(v, 'float')
            spec.spec = text
            spec.parse()
            spec.pastify()
        except Exception as e:
            line(tag, 'setup', exc(e))
            continue
        line(tag, 'spec', text)
        t = 0.0
        for k in range(7):
            if k == 4:
                line(tag, 'reset', call(spec.reset))
                t = 0.0
            sigs = []
            for v in ('a', 'b'):
                pts = []
                tt = t
                for _ in range(rng.choice([1, 2, 3])):
                    pts.append([tt, rng.choice([0, 1, 2, 0.5, 3.0, -1])])
                    tt += rng.choice([0.5, 1, 1.5])
                sigs.append([v, pts])
            t = max(s[1][-1][0] for s in sigs) + 0.5
            if k == 5:
                sigs = sigs[:1]
            res = call(spec.update, *sigs)
            line(tag, k, fmt(sigs), '->', res)
            r = getattr(spec.ast, 'results', None) or {}
            line(tag, k, 'results', ' | '.join('%s=%s' % (nd.name, fmt(v)) for nd, v in r.items()))


if __name__ == '__main__':
    part_a()
    part_b()
    part_c()
    part_d()
