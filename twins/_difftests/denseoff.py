"""Differential test for the dense-time OFFLINE area of rtamt.

usage:  PYTHONPATH=<tree> /venv/bin/python twins/diff_test.py > out.txt

Deterministic (seeded).  Every result / exception type is printed in a canonical
text form; behaviour is preserved iff the output is byte-identical.
"""
from __future__ import print_function

import copy
import random
import sys
import types

import rtamt
import rtamt.semantics.stl.dense_time.offline.ast_visitor as av
import rtamt.semantics.stl.dense_time.offline.intersection as ix
from rtamt.semantics.stl.dense_time.offline.interpreter import StlDenseTimeOfflineInterpreter
from rtamt.spec.stl.dense_time.specification import (StlDenseTimeOfflineSpecification,
                                                     StlDenseTimeOnlineSpecification)

INF = float('inf')
NAN = float('nan')


# ---------------------------------------------------------------------------
# canonical printing
# ---------------------------------------------------------------------------
def canon(x):
    if isinstance(x, float):
        return 'f:' + repr(x)
    if isinstance(x, bool):
        return 'b:' + repr(x)
    if isinstance(x, int):
        return 'i:' + repr(x)
    if isinstance(x, list):
        return '[' + ', '.join(canon(e) for e in x) + ']'
    if isinstance(x, tuple):
        return '(' + ', '.join(canon(e) for e in x) + ')'
    if isinstance(x, dict):
        return '{' + ', '.join(sorted(str(k) + ': ' + canon(v) for k, v in x.items())) + '}'
    if x is None:
        return 'None'
    if isinstance(x, str):
        return 's:' + repr(x)
    return type(x).__name__ + ':' + repr(x)


def run(label, fn, *args, **kwargs):
    try:
        res = fn(*args, **kwargs)
        print(label, '->', canon(res))
        return res
    except Exception as e:  # noqa
        print(label, '-> EXC', type(e).__name__)
        return None


# ---------------------------------------------------------------------------
# random signals
# ---------------------------------------------------------------------------
VALUE_POOLS = [
    [0, 1, 2, -1, -2, 3],
    [0.0, 1.0, 2.5, -1.5, -0.0, 3.25],
    [0, 0.0, 1, 1.0, -1, -1.0, 2, 2.0],
    [5, 5, 5],
    [0.1, 0.2, 0.30000000000000004, 0.3, -0.1, 1e-9, 1e9],
    [INF, -INF, 0, 1.5, -2],
]

TIME_STEPS = [
    [1, 1, 1],
    [0.5, 1, 1.5, 2],
    [0.1, 0.2, 0.7, 1.3],
    [1, 2, 3, 5],
    [0.25, 0.25, 0.5],
]


def rand_signal(rng, n=None, start=None, pool=None, steps=None):
    if n is None:
        n = rng.choice([0, 1, 1, 2, 2, 3, 3, 4, 5, 6, 8, 12])
    if pool is None:
        pool = rng.choice(VALUE_POOLS)
    if steps is None:
        steps = rng.choice(TIME_STEPS)
    if start is None:
        start = rng.choice([0, 0, 0, 0.0, 0.5, 1, 2, 3.5])
    t = start
    out = []
    for _ in range(n):
        out.append([t, rng.choice(pool)])
        t = t + rng.choice(steps)
    return out


def rand_bad_signal(rng):
    """Signals that violate the strictly-increasing-time assumption or contain NaN."""
    kind = rng.randrange(8)
    sig = rand_signal(rng, n=rng.choice([2, 3, 4, 5, 6]))
    if kind == 0:       # duplicated time stamp
        k = rng.randrange(len(sig) - 1)
        sig[k + 1][0] = sig[k][0]
    elif kind == 1:     # unsorted
        rng.shuffle(sig)
    elif kind == 2:     # NaN value
        sig[rng.randrange(len(sig))][1] = NAN
    elif kind == 3:     # NaN time
        sig[rng.randrange(len(sig))][0] = NAN
    elif kind == 4:     # infinite last time
        sig[-1][0] = INF
    elif kind == 5:     # negative times
        for s in sig:
            s[0] = s[0] - 3
    elif kind == 6:     # infinite time in the middle
        sig[rng.randrange(len(sig))][0] = INF
    else:               # reversed
        sig.reverse()
    return sig


BOUNDS = [(0, 0), (0, 1), (0, 0.5), (1, 1), (1, 2), (0.5, 2.5), (0, 5), (2, 100), (0, 1000),
          (3, 3), (0.1, 0.2), (1, 3), (0, 2), (0.25, 0.75), (10, 20), (0.0, 1.0), (1.0, 1.0)]


# ---------------------------------------------------------------------------
# part 1: kernels called directly
# ---------------------------------------------------------------------------
def call_unary_kernel(label, fn, sig, b, e):
    keep = copy.deepcopy(sig)
    run(label, fn, sig, b, e)
    if canon(keep) != canon(sig):
        print(label, 'INPUT MUTATED', canon(sig))


def call_binary_kernel(label, fn, left, right, *extra):
    kl = copy.deepcopy(left)
    kr = copy.deepcopy(right)
    run(label, fn, left, right, *extra)
    if canon(kl) != canon(left) or canon(kr) != canon(right):
        print(label, 'INPUT MUTATED', canon(left), canon(right))


def part_kernels():
    rng = random.Random(20240611)
    unary = [('once_t', av.once_timed_operation),
             ('hist_t', av.historically_timed_operation),
             ('alw_t', av.always_timed_operation),
             ('ev_t', av.eventually_timed_operation)]
    binary = [('since', av.since_operation), ('until', av.until_operation),
              ('and', av.and_operation), ('sub', av.subtraction_operation)]
    binary_t = [('since_t', av.since_timed_operation), ('until_t', av.until_timed_operation)]

    print('== kernels: well-formed signals')
    for k in range(700):
        sig = rand_signal(rng)
        b, e = rng.choice(BOUNDS)
        print('K%04d sig=%s b=%s e=%s' % (k, canon(sig), canon(b), canon(e)))
        for name, fn in unary:
            call_unary_kernel('K%04d %s' % (k, name), fn, sig, b, e)
        other = rand_signal(rng)
        print('K%04d other=%s' % (k, canon(other)))
        for name, fn in binary:
            call_binary_kernel('K%04d %s' % (k, name), fn, sig, other)
        for name, fn in binary_t:
            call_binary_kernel('K%04d %s' % (k, name), fn, sig, other, b, e)

    print('== kernels: same time base for both operands')
    for k in range(250):
        n = rng.choice([1, 2, 3, 4, 6, 9])
        steps = rng.choice(TIME_STEPS)
        seed = rng.random()
        left = rand_signal(random.Random(seed), n=n, steps=steps, start=0, pool=[0])
        pool = rng.choice(VALUE_POOLS)
        right = [[s[0], rng.choice(pool)] for s in left]
        left = [[s[0], rng.choice(pool)] for s in left]
        b, e = rng.choice(BOUNDS)
        print('S%04d l=%s r=%s b=%s e=%s' % (k, canon(left), canon(right), canon(b), canon(e)))
        for name, fn in binary:
            call_binary_kernel('S%04d %s' % (k, name), fn, left, right)
        for name, fn in binary_t:
            call_binary_kernel('S%04d %s' % (k, name), fn, left, right, b, e)
        call_binary_kernel('S%04d self-and' % k, av.and_operation, left, left)
        call_binary_kernel('S%04d self-until' % k, av.until_operation, left, left)

    print('== kernels: hand-made boundary cases')
    hand = [
        [],
        [[0, 1]],
        [[0, 1.0]],
        [[5, -1]],
        [[0, 1], [1, 1]],
        [[0, 1], [1, 1], [2, 1], [3, 1]],
        [[0, 0], [1, 0.0], [2, -0.0], [3, 0]],
        [[0, -1], [1, -2], [2, -3], [3, -4]],
        [[0, 1], [1, 2], [2, 3], [3, 4]],
        [[0, 3], [1, 1], [2, 3], [3, 1], [4, 3]],
        [[0, 1.3], [0.7, 3], [1.3, 0.1], [2.1, -2.2]],
        [[0, 2.5], [0.7, 4], [1.3, -1.2], [2.1, 1.7]],
        [[2, 1], [4, 0], [9, 7]],
        [[0, 1], [INF, 1]],
        [[0, 1], [3, 2], [INF, 2]],
        [(0, 1), (1, 2), (2, 0)],
        ((0, 1), (1, 2), (2, 0)),
    ]
    hb = [(0, 0), (0, 1), (1, 1), (1, 2), (0, 100), (50, 100), (0.5, 0.5), (0, 0.5), (2, 2.5)]
    for i, sig in enumerate(hand):
        for (b, e) in hb:
            for name, fn in unary:
                run('H%02d %s[%s,%s]' % (i, name, canon(b), canon(e)), fn, sig, b, e)
        for j, other in enumerate(hand):
            for name, fn in binary:
                run('H%02d/%02d %s' % (i, j, name), fn, sig, other)
            for (b, e) in [(0, 0), (0, 1), (1, 2), (0, 100), (2, 2)]:
                for name, fn in binary_t:
                    run('H%02d/%02d %s[%s,%s]' % (i, j, name, canon(b), canon(e)), fn, sig, other, b, e)

    print('== kernels: malformed signals (exceptions / garbage must be the same)')
    for k in range(400):
        sig = rand_bad_signal(rng)
        other = rand_bad_signal(rng) if rng.random() < 0.5 else rand_signal(rng)
        b, e = rng.choice(BOUNDS)
        print('B%04d sig=%s other=%s b=%s e=%s' % (k, canon(sig), canon(other), canon(b), canon(e)))
        for name, fn in unary:
            call_unary_kernel('B%04d %s' % (k, name), fn, sig, b, e)
        for name, fn in binary:
            call_binary_kernel('B%04d %s' % (k, name), fn, sig, other)
        for name, fn in binary_t:
            call_binary_kernel('B%04d %s' % (k, name), fn, sig, other, b, e)

    print('== kernels: wrongly typed samples')
    weird = [
        [[0, 1], [1]],
        [[0], [1, 2]],
        [[0, 1], ['x', 2], [3, 1]],
        [[0, 1], [1, 'v'], [2, 1]],
        [[0, 1], None, [2, 1]],
        [[0, 1], [1, None], [2, 1]],
        [[0, None]],
        [[None, 1]],
        [[0, 1], [1, 2], ['x']],
        [['x', 1], [1, 2], [2]],
        [[0, 1, 7], [1, 2, 8], [2, 0, 9]],
        [['x', 1], [1, 2], []],
        [[0, 1], [1, 2], []],
        [[], [1, 2], [2, 3]],
        [[0, 'v'], [1, 2], None],
        [[0, 1], [1, 2], 7],
        None,
        5,
        'ab',
        [[0, 1 + 2j], [1, 2 + 0j]],
    ]
    good = [[0, 1], [1, 3], [2, 2]]
    for i, sig in enumerate(weird):
        for (b, e) in [(0, 0), (0, 1), (1, 2)]:
            for name, fn in unary:
                run('W%02d %s[%s,%s]' % (i, name, b, e), fn, sig, b, e)
            for name, fn in binary_t:
                run('W%02d %s[%s,%s] L' % (i, name, b, e), fn, sig, good, b, e)
                run('W%02d %s[%s,%s] R' % (i, name, b, e), fn, good, sig, b, e)
        for name, fn in binary:
            run('W%02d %s L' % (i, name), fn, sig, good)
            run('W%02d %s R' % (i, name), fn, good, sig)
    for (b, e) in [(None, 1), (0, None), ('a', 1), (0, 'b'), (NAN, 1), (0, NAN), (-1, 1), (2, 1), (0, INF),
                   (INF, INF)]:
        for name, fn in unary:
            run('WB %s[%s,%s]' % (name, canon(b), canon(e)), fn, good, b, e)
            run('WB %s[%s,%s] empty' % (name, canon(b), canon(e)), fn, [], b, e)
        for name, fn in binary_t:
            run('WB %s[%s,%s]' % (name, canon(b), canon(e)), fn, good, [[0, 2], [1.5, 0]], b, e)


# ---------------------------------------------------------------------------
# part 2: intersection (with remainders) and intersects
# ---------------------------------------------------------------------------
def part_intersection():
    rng = random.Random(777)
    methods = [('conj', ix.conjunction), ('disj', ix.disjunction), ('impl', ix.implication), ('xor', ix.xor),
               ('iff', ix.iff), ('add', ix.addition), ('sub', ix.subtraction), ('mul', ix.multiplication),
               ('div', ix.division), ('eq', ix.eq), ('neq', ix.neq), ('geq', ix.geq), ('gt', ix.greater),
               ('leq', ix.leq), ('lt', ix.less), ('pow', ix.power), ('log', ix.log), ('split', ix.split)]
    print('== intersection')
    for k in range(600):
        bad = rng.random() < 0.2
        a = rand_bad_signal(rng) if bad else rand_signal(rng)
        b = rand_bad_signal(rng) if (bad and rng.random() < 0.5) else rand_signal(rng)
        if rng.random() < 0.15:
            b = [[s[0], rng.choice([0, 1, 2.0, -1])] for s in a]
        if rng.random() < 0.1:
            a = tuple(a)
        ka, kb = copy.deepcopy(a), copy.deepcopy(b)
        for name, m in rng.sample(methods, 5):
            run('I%04d %s a=%s b=%s' % (k, name, canon(a), canon(b)), ix.intersection, a, b, m)
        if canon(ka) != canon(a) or canon(kb) != canon(b):
            print('I%04d INPUT MUTATED' % k)
    # the remainders must be fresh lists whose elements are the caller's sample objects
    a = [[0, 1], [1, 2], [4, 0]]
    b = [[0.5, 1], [2, 2]]
    out, last, ra, rb = ix.intersection(a, b, ix.conjunction)
    print('alias ra', [any(x is y for y in a) for x in ra], ra is a)
    print('alias rb', [any(x is y for y in b) for x in rb], rb is b)
    out, last, ra, rb = ix.intersection([], b, ix.conjunction)
    print('alias empty', canon(out), canon(last), canon(ra), canon(rb), rb is b, [x is y for x, y in zip(rb, b)])
    a = [[0, 1], [INF, 1]]
    out, last, ra, rb = ix.intersection(a, b, ix.conjunction)
    print('alias inf', canon(out), canon(ra), canon(rb), [any(x is y for y in a) for x in ra])
    for args in [(0, 1, 1, 2), (0, 1, 2, 3), (2, 3, 0, 1), (0, 5, 1, 2), (1, 2, 0, 5), (0, 0, 0, 0), (1, 0, 0, 1),
                 (0, INF, 3, 4), (NAN, 1, 0, 2), (0, 1, NAN, 2), (0, 1.0, 1, 2)]:
        run('intersects%s' % (canon(args),), ix.intersects, *args)
    run('intersection none', ix.intersection, None, [[0, 1]], ix.conjunction)
    run('intersection bad method', ix.intersection, [[0, 1]], [[0, 1]], None)
    run('intersection raising method', ix.intersection, [[0, 1], [1, 0]], [[0, 0], [2, 1]], ix.division)


# ---------------------------------------------------------------------------
# part 3: random specifications through the public API
# ---------------------------------------------------------------------------
VARS = ['a', 'b', 'c']
UNITS = ['', 's', 'ms', 'us', 'ns']


def rand_interval(rng, allow_units=True):
    b, e = rng.choice([(0, 0), (0, 1), (1, 1), (1, 2), (0, 5), (2, 100), (0, 1000), (3, 3), (1, 3), (0, 2),
                       (0.5, 1.5), (0, 0.5), (0.25, 2)])
    if allow_units and rng.random() < 0.35:
        u = rng.choice(UNITS)
        v = rng.choice(UNITS)
        if rng.random() < 0.5:
            v = u
        return '[%s%s,%s%s]' % (b, u, e, v)
    sep = rng.choice([',', ':'])
    return '[%s%s%s]' % (b, sep, e)


def rand_arith(rng, depth):
    if depth <= 0 or rng.random() < 0.3:
        r = rng.random()
        if r < 0.7:
            return rng.choice(VARS)
        return rng.choice(['0', '1', '2', '0.5', '3', '1.5'])
    k = rng.randrange(12)
    x = rand_arith(rng, depth - 1)
    if k < 5:
        y = rand_arith(rng, depth - 1)
        op = ['+', '-', '*', '/', '-'][k]
        return '(%s %s %s)' % (x, op, y)
    if k == 5:
        return 'abs(%s)' % x
    if k == 6:
        return 'sqrt(abs(%s))' % x
    if k == 7:
        return 'sqrt(%s)' % x
    if k == 8:
        return 'exp(%s)' % x
    if k == 9:
        return 'pow(2, %s)' % x
    if k == 10:
        return 'abs(%s)' % x
    return '(%s + 1)' % x


def rand_formula(rng, depth, future=True, past=True, subs=None):
    if depth <= 0 or rng.random() < 0.18:
        if subs and rng.random() < 0.3:
            return rng.choice(subs)
        op = rng.choice(['<=', '<', '>=', '>', '==', '!=='])
        return '(%s %s %s)' % (rand_arith(rng, 1), op, rand_arith(rng, 1))
    choices = ['not', 'and', 'or', 'implies', 'iff', 'xor', 'pred', 'rep']
    if future:
        choices += ['ev', 'alw', 'until', 'evt', 'alwt', 'untilt', 'evt', 'alwt', 'untilt']
    if past:
        choices += ['once', 'hist', 'since', 'oncet', 'histt', 'sincet', 'oncet', 'histt', 'sincet']
    c = rng.choice(choices)
    sub = lambda: rand_formula(rng, depth - 1, future, past, subs)  # noqa
    if c == 'pred':
        op = rng.choice(['<=', '<', '>=', '>', '==', '!=='])
        return '(%s %s %s)' % (rand_arith(rng, 2), op, rand_arith(rng, 2))
    if c == 'rep':
        x = sub()
        op = rng.choice(['and', 'or', 'until', 'since', 'iff'])
        if op == 'until' and not future:
            op = 'and'
        if op == 'since' and not past:
            op = 'or'
        return '((%s) %s (%s))' % (x, op, x)
    if c == 'not':
        return 'not(%s)' % sub()
    if c in ('and', 'or', 'implies', 'iff', 'xor'):
        return '((%s) %s (%s))' % (sub(), c, sub())
    if c == 'ev':
        return 'eventually(%s)' % sub()
    if c == 'alw':
        return 'always(%s)' % sub()
    if c == 'once':
        return 'once(%s)' % sub()
    if c == 'hist':
        return 'historically(%s)' % sub()
    if c == 'until':
        return '((%s) until (%s))' % (sub(), sub())
    if c == 'since':
        return '((%s) since (%s))' % (sub(), sub())
    if c == 'evt':
        return 'eventually%s(%s)' % (rand_interval(rng), sub())
    if c == 'alwt':
        return 'always%s(%s)' % (rand_interval(rng), sub())
    if c == 'oncet':
        return 'once%s(%s)' % (rand_interval(rng), sub())
    if c == 'histt':
        return 'historically%s(%s)' % (rand_interval(rng), sub())
    if c == 'untilt':
        return '((%s) until%s (%s))' % (sub(), rand_interval(rng), sub())
    if c == 'sincet':
        return '((%s) since%s (%s))' % (sub(), rand_interval(rng), sub())
    raise AssertionError(c)


SEMANTICS = [None, rtamt.Semantics.STANDARD, rtamt.Semantics.OUTPUT_ROBUSTNESS, rtamt.Semantics.INPUT_ROBUSTNESS,
             rtamt.Semantics.INPUT_VACUITY, rtamt.Semantics.OUTPUT_VACUITY]


def make_spec(rng, sem):
    if sem is None:
        spec = StlDenseTimeOfflineSpecification()
    else:
        spec = rtamt.StlDenseTimeSpecification(semantics=sem)
    for v in VARS:
        spec.declare_var(v, rng.choice(['float', 'float', 'int']))
    spec.declare_var('out', 'float')
    if sem is not None:
        for v in VARS:
            spec.set_var_io_type(v, rng.choice(['input', 'output']))
        spec.set_var_io_type('out', 'output')
    return spec


def rand_dataset(rng, vars_, common=False):
    data = []
    if common:
        base = rand_signal(rng, start=0, n=rng.choice([1, 2, 3, 5, 8]))
    for v in vars_:
        if common:
            pool = rng.choice(VALUE_POOLS[:5])
            data.append([v, [[s[0], rng.choice(pool)] for s in base]])
        else:
            data.append([v, rand_signal(rng, start=rng.choice([0, 0, 0, 0.0, 1]), pool=rng.choice(VALUE_POOLS[:5]))])
    return data


def dump_state(label, spec):
    d = spec.ast.var_object_dict
    keys = sorted(k for k in d if isinstance(k, str))
    vals = [d[k] for k in keys]
    shared = [vals[i] is vals[0] for i in range(len(vals))] if vals else []
    print(label, 'vars', canon([[k, d[k]] for k in keys]), 'shared', shared)
    interp = spec.offline_interpreter
    for attr in ('prev', 'next'):
        if hasattr(interp, attr):
            print(label, 'interp.' + attr, canon(getattr(interp, attr)))


def part_specs():
    rng = random.Random(4242)
    print('== random specifications')
    for k in range(450):
        sem = rng.choice(SEMANTICS)
        spec = make_spec(rng, sem)
        mode = rng.choice(['future', 'past', 'mixed'])
        nsub = rng.choice([0, 0, 1, 2])
        subs = []
        text = ''
        for j in range(nsub):
            name = 'p%d' % j
            spec.declare_var(name, 'float')
            f = rand_formula(rng, 2, future=(mode != 'past'), past=(mode != 'future'), subs=list(subs))
            text += '%s = %s;\n' % (name, f)
            subs.append(name)
        f = rand_formula(rng, rng.choice([1, 2, 3, 3]), future=(mode != 'past'), past=(mode != 'future'),
                         subs=list(subs))
        text += 'out = %s' % f
        spec.spec = text
        if rng.random() < 0.3:
            spec.unit = rng.choice(['s', 'ms', 'us', 'ns'])
        print('P%04d sem=%s unit=%s spec=%s' % (k, sem, spec.unit, text.replace('\n', ' ')))
        try:
            spec.parse()
        except Exception as e:  # noqa
            print('P%04d parse EXC' % k, type(e).__name__)
            continue
        if rng.random() < 0.15:
            # change of the unit after parsing: time_unit_transformer looks at ast.unit
            spec.unit = rng.choice(['s', 'ms', 'us', 'ns'])
            print('P%04d unit now %s' % (k, spec.unit))
        for r in range(rng.choice([1, 2, 3])):
            missing = rng.random() < 0.12
            vars_ = list(VARS)
            if missing:
                vars_.remove(rng.choice(vars_))
            if rng.random() < 0.1:
                vars_.append('zzz')
            data = rand_dataset(rng, vars_, common=rng.random() < 0.4)
            keep = copy.deepcopy(data)
            print('P%04d.%d data=%s' % (k, r, canon(data)))
            res = run('P%04d.%d eval' % (k, r), spec.evaluate, *data)
            if canon(keep) != canon(data):
                print('P%04d.%d DATA MUTATED %s' % (k, r, canon(data)))
            for name in ['out'] + subs + VARS:
                run('P%04d.%d get_value(%s)' % (k, r, name), spec.get_value, name)
            dump_state('P%04d.%d' % (k, r), spec)
            if True:
                # results of all nodes, in a deterministic order (by node name, then by value)
                items = sorted((n.name, canon(v)) for n, v in spec.ast.results.items())
                print('P%04d.%d results' % (k, r), items)


# ---------------------------------------------------------------------------
# part 4: fixed specifications, API call sequences
# ---------------------------------------------------------------------------
def part_api():
    print('== API sequences')
    req = [[0, 1.3], [0.7, 3], [1.3, 0.1], [2.1, -2.2]]
    gnt = [[0, 2.5], [0.7, 4], [1.3, -1.2], [2.1, 1.7]]
    specs = [
        'out = req and gnt', 'out = req or gnt', 'out = req iff gnt', 'out = req xor gnt', 'out = req implies gnt',
        'out = always(req)', 'out = eventually(req)', 'out = historically(req)', 'out = once(req)',
        'out = req since gnt', 'out = req until gnt', 'out = once[0:1](req)', 'out = historically[0:1](req)',
        'out = always[0:1](req)', 'out = eventually[0:1](req)', 'out = eventually[0:5](req)',
        'out = req since[0:1] gnt', 'out = req until[0:1] gnt', 'out = req since[1:2] gnt',
        'out = req until[1:2] gnt', 'out = req until[0.5:0.5] gnt', 'out = req since[0.5:0.5] gnt',
        'out = req + gnt', 'out = (req - gnt)', 'out = req * gnt', 'out = req / gnt', 'out = abs(req)',
        'out = sqrt(abs(req))', 'out = sqrt(req)', 'out = exp(req)', 'out = pow(2, req)', 'out = pow(req, gnt)',
        'out = not(req)', 'out = -req', 'out = - (req + gnt)',
        'out = next req', 'out = prev req', 'out = rise(req)', 'out = fall(req)',
        'out = req <= gnt', 'out = req < gnt', 'out = req >= gnt', 'out = req > gnt', 'out = req == gnt',
        'out = req !== gnt', 'out = req >= 2', 'out = 1 <= req', 'out = always[0,2](req >= 1)',
        'out = always[0s,2s](req >= 1)', 'out = always[0ms,2000ms](req >= 1)', 'out = always[500ms,2s](req >= 1)',
        'out = once[0,500ms](req >= 1)', 'out = once[500ms,1](req >= 1)', 'out = historically[1,2s](req >= gnt)',
        'out = eventually[0,1000000us](req >= 1)', 'out = eventually[1000000000ns,2s](req >= 1)',
        'out = always(req >= 1 implies eventually[0:1](gnt >= 2))',
        'out = always((req >= 3) implies (eventually[0:1.5](gnt <= 0)))',
        'out = historically((once[0:1](req >= 3)) implies (gnt >= 0))',
        'out = (req >= 1) until[0:2] ((gnt <= 0) until[1:2] (req <= 0))',
        'out = (req >= 1) since[0:2] ((gnt <= 0) since[1:2] (req <= 0))',
        'out = (req>=1) and (req>=1)', 'out = ((req>=1) until (gnt>=1)) or ((req>=1) until (gnt>=1))',
        'out = 3', 'out = 3 >= 2', 'out = always[0,1](2 >= 1)', 'out = req >= req',
        'out = eventually[0,1](always[0,1](req >= 1))', 'out = once[0,1](historically[0,1](req >= 1))',
        'out = always[1,1](req)', 'out = eventually[1,1](req)', 'out = once[1,1](req)', 'out = historically[1,1](req)',
        'out = always[0,0](req)', 'out = eventually[0,0](req)', 'out = once[0,0](req)', 'out = historically[0,0](req)',
        'out = always[0,100](req)', 'out = eventually[0,100](req)', 'out = once[0,100](req)',
        'out = historically[0,100](req)', 'out = always[50,100](req)', 'out = eventually[50,100](req)',
        'out = once[50,100](req)', 'out = historically[50,100](req)',
        'out = ln(req)', 'out = log(req, 2)', 'out = ln(abs(req))',
    ]
    traces = [
        (req, gnt),
        ([[0, 1]], [[0, 2]]),
        ([[0, 1]], [[0.5, 2]]),
        ([[0, 1], [1, 1], [2, 1]], [[0, 1], [1, 1], [2, 1]]),
        ([[0, 0], [1, 0], [2, 0]], [[0, 0.0], [1.5, -0.0]]),
        ([[0, -1], [1, -2], [2, -3], [5, 4]], [[0, 3], [1, 2], [2, -1], [3, 0], [4, 5]]),
        ([[0, 3], [10, 1]], [[0, 1], [0.1, 2], [0.2, 3], [0.30000000000000004, 4]]),
        ([], [[0, 1], [1, 2]]),
        ([], []),
        ([[1, 2], [2, 3], [4, 1]], [[0, 0], [3, 3]]),
    ]
    for si, text in enumerate(specs):
        for sem in (rtamt.Semantics.STANDARD, rtamt.Semantics.OUTPUT_ROBUSTNESS):
            spec = rtamt.StlDenseTimeSpecification(semantics=sem)
            spec.declare_var('req', 'float')
            spec.declare_var('gnt', 'float')
            spec.declare_var('out', 'float')
            spec.set_var_io_type('req', 'input')
            spec.set_var_io_type('gnt', 'output')
            spec.spec = text
            try:
                spec.parse()
            except Exception as e:  # noqa
                print('A%03d %s parse EXC %s' % (si, text, type(e).__name__))
                continue
            for ti, (l, r) in enumerate(traces):
                kl, kr = copy.deepcopy(l), copy.deepcopy(r)
                res = run('A%03d/%s/%d %s' % (si, sem.name, ti, text), spec.evaluate, ['req', l], ['gnt', r])
                if canon(kl) != canon(l) or canon(kr) != canon(r):
                    print('A%03d/%d DATA MUTATED' % (si, ti))
                run('A%03d/%s/%d get out' % (si, sem.name, ti), spec.get_value, 'out')
                if res is not None and res:
                    # the returned list may alias caller data (bare variable): check identity
                    print('A%03d/%s/%d alias' % (si, sem.name, ti), res is l, res is r)
            dump_state('A%03d/%s' % (si, sem.name), spec)

    print('== API misuse / odd call sequences')
    spec = StlDenseTimeOfflineSpecification()
    spec.declare_var('a', 'float')
    spec.declare_var('b', 'float')
    spec.spec = 'out = always[0,1](a >= b)'
    run('M evaluate before parse', spec.evaluate, ['a', [[0, 1]]], ['b', [[0, 1]]])
    spec = StlDenseTimeOfflineSpecification()
    spec.declare_var('a', 'float')
    spec.declare_var('b', 'float')
    spec.spec = 'out = always[0,1](a >= b)'
    spec.parse()
    run('M no args', spec.evaluate)
    run('M one var only (first call: default object 0.0 for b)', spec.evaluate, ['a', [[0, 1], [1, 2]]])
    dump_state('M1', spec)
    run('M both', spec.evaluate, ['a', [[0, 1], [1, 2]]], ['b', [[0, 0], [2, 5]]])
    dump_state('M2', spec)
    run('M one var only (after reset of the dict)', spec.evaluate, ['a', [[0, 1], [1, 2]]])
    dump_state('M3', spec)
    run('M unknown var', spec.evaluate, ['q', [[0, 1]]])
    run('M malformed entry', spec.evaluate, ['a'])
    dump_state('M4', spec)
    run('M malformed entry unknown', spec.evaluate, ['q'])
    run('M entry with 3 fields', spec.evaluate, ['a', [[0, 1], [1, 0]], 'extra'], ['b', [[0, 0]], 'extra'])
    run('M tuple entries', spec.evaluate, ('a', [[0, 1], [1, 0]]), ('b', ((0, 0), (1, 1))))
    run('M entry None', spec.evaluate, None)
    run('M duplicate entries', spec.evaluate, ['a', [[0, 1]]], ['a', [[0, 5]]], ['b', [[0, 2]]])
    run('M signal None', spec.evaluate, ['a', None], ['b', [[0, 2]]])
    dump_state('M5', spec)
    run('M kwargs ignored', spec.evaluate, ['a', [[0, 1]]], ['b', [[0, 2]]], foo=1)
    run('M get_value unknown', spec.get_value, 'nope')
    run('M get_value out', spec.get_value, 'out')

    # predicate nodes whose operator is not one of the six comparison operators
    for sem in (None, rtamt.Semantics.STANDARD):
        for opval in (99, -1, 2.0, True, False, None, 'x', 5, 3, (2,), 1 + 0j):
            spec = StlDenseTimeOfflineSpecification() if sem is None else rtamt.StlDenseTimeSpecification(semantics=sem)
            spec.declare_var('a', 'float')
            spec.declare_var('b', 'float')
            spec.spec = 'out = once[0,1](a >= b)'
            spec.parse()
            pred = [n for n in spec.ast.phi_name_to_node_dict.values() if type(n).__name__ == 'Predicate'][0]
            pred.operator = types.SimpleNamespace(value=opval)
            run('O %s op=%s' % (sem, canon(opval)), spec.evaluate, ['a', [[0, 1], [1, 3], [2, 0], [3, 0]]],
                ['b', [[0, 1], [1.5, -1], [2, 5]]])
            run('O %s op=%s empty' % (sem, canon(opval)), spec.evaluate, ['a', []], ['b', [[0, 1], [1.5, -1], [2, 5]]])
        spec = StlDenseTimeOfflineSpecification() if sem is None else rtamt.StlDenseTimeSpecification(semantics=sem)
        spec.declare_var('a', 'float')
        spec.declare_var('b', 'float')
        spec.spec = 'out = (a >= b)'
        spec.parse()
        pred = [n for n in spec.ast.phi_name_to_node_dict.values() if type(n).__name__ == 'Predicate'][0]
        pred.operator = None
        run('O %s op None, empty input' % sem, spec.evaluate, ['a', []], ['b', [[0, 1]]])
        run('O %s op None' % sem, spec.evaluate, ['a', [[0, 2]]], ['b', [[0, 1]]])

    # interpreter used directly
    interp = StlDenseTimeOfflineInterpreter()
    run('D evaluate without ast', interp.evaluate, [['a', [[0, 1]]]])
    interp.set_ast(None)
    run('D evaluate ast None', interp.evaluate, [['a', [[0, 1]]]])
    spec = StlDenseTimeOfflineSpecification()
    spec.declare_var('a', 'float')
    spec.declare_var('b', 'float')
    spec.spec = 'p = a + b; out = always[0,1](p >= b)'
    spec.parse()
    interp.set_ast(spec.ast)
    run('D dataset_check', interp.dataset_check, [['a', [[0, 1]]]])
    run('D is_dataset_valid ab', interp.is_dataset_valid, [['a', []], ['b', []]])
    run('D is_dataset_valid a', interp.is_dataset_valid, [['a', []]])
    run('D is_dataset_valid abq', interp.is_dataset_valid, [['a', []], ['b', []], ['q', []]])
    run('D is_dataset_valid aab', interp.is_dataset_valid, [['a', []], ['b', []], ['a', []]])
    run('D is_dataset_valid empty', interp.is_dataset_valid, [])
    run('D is_dataset_valid bad', interp.is_dataset_valid, [[]])
    run('D free vars', lambda: sorted(spec.ast.free_vars))
    run('D evaluate', interp.evaluate, [['a', [[0, 1], [1, 3]]], ['b', [[0, 1], [2, 0]]]])
    run('D evaluate empty dataset', interp.evaluate, [])
    run('D evaluate dataset None', interp.evaluate, None)
    run('D evaluate generator', interp.evaluate, (x for x in [['a', [[0, 1], [1, 3]]], ['b', [[0, 1], [2, 0]]]]))
    d = spec.ast.var_object_dict
    print('D dict', canon([[k, d[k]] for k in sorted(k for k in d if isinstance(k, str))]),
          d['a'] is d['b'])
    # an exception in the middle of the evaluation must not reset the variable dictionary
    run('D evaluate failing', interp.evaluate, [['a', [[0, 1], [1, 3]]], ['b', [[0, 'x'], [2, 0]]]])
    print('D dict after failure', canon([[k, d2] for k, d2 in sorted((k, v) for k, v in spec.ast.var_object_dict.items()
                                                                    if isinstance(k, str))]))
    # no specs at all
    empty = StlDenseTimeOfflineSpecification()
    empty.declare_var('a', 'float')
    interp2 = StlDenseTimeOfflineInterpreter()
    interp2.set_ast(empty.ast)
    run('D evaluate no specs', interp2.evaluate, [['a', [[0, 1]]]])
    print('D dict no specs', canon([[k, v] for k, v in sorted(empty.ast.var_object_dict.items())]))
    # several specs: the last one is returned
    multi = StlDenseTimeOfflineSpecification()
    multi.declare_var('a', 'float')
    multi.declare_var('x', 'float')
    multi.declare_var('y', 'float')
    multi.spec = 'x = a >= 1; y = once[0,1](x); out = historically(y)'
    multi.parse()
    run('D multi', multi.evaluate, ['a', [[0, 0], [1, 2], [3, 0], [4, 0]]])
    for n in ('x', 'y', 'out', 'a'):
        run('D multi get ' + n, multi.get_value, n)
    run('D multi again', multi.evaluate, ['a', [[0, 3], [1, 0], [3, 1]]])
    for n in ('x', 'y', 'out', 'a'):
        run('D multi get ' + n, multi.get_value, n)


# ---------------------------------------------------------------------------
# part 5: time_unit_transformer (dense interpreters, offline and online)
# ---------------------------------------------------------------------------
def part_units():
    print('== time_unit_transformer')
    spec = StlDenseTimeOfflineSpecification()
    spec.declare_var('a', 'float')
    spec.spec = 'out = always[0,1](a >= 1)'
    spec.parse()
    interp = StlDenseTimeOfflineInterpreter()
    interp.set_ast(spec.ast)
    units = ['', 's', 'ms', 'us', 'ns']
    bounds = [(0, 0), (0, 1), (1, 2), (500, 2), (3, 7), (0.5, 1.5), (1, 1000000), (7, 13)]
    for au in ['s', 'ms', 'us', 'ns']:
        spec.unit = au
        for bu in units:
            for eu in units:
                for (b, e) in bounds:
                    node = types.SimpleNamespace(begin=b, end=e, begin_unit=bu, end_unit=eu)
                    run('U ast=%s [%s%s,%s%s]' % (au, b, bu, e, eu), interp.time_unit_transformer, node)
    spec.unit = 's'
    for bu, eu in [(None, 's'), ('s', None), (None, None), ('x', 's'), ('s', 'x'), ('', 'x'), ('x', ''),
                   (['s'], 's'), ('s', ['ms']), (('s',), ''), (0, 's'), ('s', 0), ([], []), ([], 'ms'), ('ms', ())]:
        node = types.SimpleNamespace(begin=1, end=2, begin_unit=bu, end_unit=eu)
        run('U odd units %s %s' % (canon(bu), canon(eu)), interp.time_unit_transformer, node)
    for b, e in [(None, 1), (1, None), ('a', 1), (1, 'a'), ([1], 2)]:
        node = types.SimpleNamespace(begin=b, end=e, begin_unit='', end_unit='')
        run('U odd bounds %s %s' % (canon(b), canon(e)), interp.time_unit_transformer, node)
    run('U missing attrs', interp.time_unit_transformer, types.SimpleNamespace(begin=1, end=2))
    run('U missing end_unit', interp.time_unit_transformer, types.SimpleNamespace(begin=1, end=2, begin_unit=''))
    run('U missing begin_unit', interp.time_unit_transformer, types.SimpleNamespace(begin=1, end=2, end_unit=''))
    spec.unit = 'weird'
    run('U odd ast unit', interp.time_unit_transformer,
        types.SimpleNamespace(begin=1, end=2, begin_unit='', end_unit=''))
    run('U odd ast unit 2', interp.time_unit_transformer,
        types.SimpleNamespace(begin=1, end=2, begin_unit='s', end_unit='ms'))

    print('== units through the API, offline and online')
    sig = [[0, 0], [0.4, 2], [1.1, 3], [1.9, 0], [2.6, 4], [5, 1]]
    texts = ['out = always[0,1](a >= 1)', 'out = eventually[500ms,2s](a >= 1)', 'out = once[0,1500ms](a >= 1)',
             'out = historically[1,2000ms](a >= 1)', 'out = historically[500ms,1](a >= 1)',
             'out = once[1s,2](a >= 1)', 'out = (a >= 1) since[0ms,1] (a <= 2)',
             'out = (a >= 1) until[1,2s] (a <= 2)', 'out = once[0,1](a >= 1)', 'out = once[100,2500](a >= 1)']
    for text in texts:
        for unit in ['s', 'ms']:
            spec = rtamt.StlDenseTimeSpecification()
            spec.declare_var('a', 'float')
            spec.unit = unit
            spec.spec = text
            try:
                spec.parse()
            except Exception as e:  # noqa
                print('UA %s unit=%s parse EXC %s' % (text, unit, type(e).__name__))
                continue
            scale = 1 if unit == 's' else 1000
            s2 = [[t * scale, v] for t, v in sig]
            run('UA off %s unit=%s' % (text, unit), spec.evaluate, ['a', s2])
            if 'until' in text or 'eventually' in text or 'always' in text:
                continue
            on = StlDenseTimeOnlineSpecification()
            on.declare_var('a', 'float')
            on.unit = unit
            on.spec = text
            try:
                on.parse()
                on.pastify()
            except Exception as e:  # noqa
                print('UA on %s unit=%s parse EXC %s' % (text, unit, type(e).__name__))
                continue
            run('UA on1 %s unit=%s' % (text, unit), on.update, ['a', s2[:3]])
            run('UA on2 %s unit=%s' % (text, unit), on.update, ['a', s2[3:]])
            run('UA on reset', on.reset)
            run('UA on3 %s unit=%s' % (text, unit), on.update, ['a', s2])
            run('UA on4 empty %s unit=%s' % (text, unit), on.update, ['a', []])


def main():
    part_kernels()
    part_intersection()
    part_specs()
    part_api()
    part_units()
    print('== done')


if __name__ == '__main__':
    main()
    sys.stdout.flush()
