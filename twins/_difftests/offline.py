# Differential test for the discrete-time OFFLINE evaluation of rtamt.
#
#   PYTHONPATH=<tree> /venv/bin/python twins/diff_test.py > out.txt
#
# Deterministic (seeded); prints every result / exception type in a canonical form.
# Behaviour is preserved iff the output on two trees is byte-identical.
import sys
import math
import random
import logging
import copy
from fractions import Fraction

logging.disable(logging.CRITICAL)

import rtamt
from rtamt.semantics.interval.interval import Interval

INF = float('inf')
OUT = sys.stdout


# ----------------------------------------------------------------------------------------------
# canonical printing
# ----------------------------------------------------------------------------------------------
def canon(x):
    if isinstance(x, bool):
        return 'B' + repr(x)
    if isinstance(x, float):
        if x != x:
            return 'nan'
        return 'f' + repr(x)
    if isinstance(x, int):
        return 'i' + repr(x)
    if isinstance(x, Fraction):
        return 'Q%d/%d' % (x.numerator, x.denominator)
    if isinstance(x, list):
        return '[' + ','.join(canon(e) for e in x) + ']'
    if isinstance(x, tuple):
        return '(' + ','.join(canon(e) for e in x) + ')'
    if isinstance(x, dict):
        return '{' + ','.join('%s:%s' % (k, canon(x[k])) for k in sorted(x, key=str)) + '}'
    if x is None:
        return 'None'
    if isinstance(x, str):
        return 's' + repr(x)
    return '<%s>' % type(x).__name__


def emit(*parts):
    OUT.write(' '.join(str(p) for p in parts) + '\n')


def exc_text(e):
    # the type is what matters; the message of the library's own exceptions is stable as well
    if isinstance(e, rtamt.RTAMTException):
        return 'EXC ' + type(e).__name__ + ' ' + str(e).strip()
    return 'EXC ' + type(e).__name__


# ----------------------------------------------------------------------------------------------
# random material
# ----------------------------------------------------------------------------------------------
VALUE_POOLS = [
    [0, 1, -1, 2, -2, 3, 5, -7],                                   # ints
    [0.0, -0.0, 1.0, -1.0, 0.5, -0.5, 2.5, -3.25, 1e-9, 1e9],       # floats
    [0, 0.0, -0.0, 1, 1.0, -1, -1.0, 2, 2.0],                      # int/float ties, signed zeros
    [1, 1, 1, 1.0],                                                # equal values
    [0, 0, 0.0, -0.0],                                             # zeros
    [-5, -4.5, -0.25, -1, -100.0],                                 # negatives
    [0.1, 0.2, 0.3, 0.7, 1.3, 2.1, -2.2, 4, 100, -1],              # README-like
    [INF, -INF, 0, 1.5, -2],                                       # infinities
    [True, False, 1, 0],                                           # booleans
]

VARS = ['a', 'b', 'c']


def rand_trace(rng, n, pool=None):
    if pool is None:
        pool = rng.choice(VALUE_POOLS)
    return [rng.choice(pool) for _ in range(n)]


def rand_bound(rng):
    r = rng.random()
    if r < 0.25:
        return (0, 0)
    if r < 0.35:
        k = rng.randint(0, 3)
        return (k, k)
    b = rng.randint(0, 3)
    e = b + rng.randint(0, 4)
    if rng.random() < 0.1:
        e += 20  # far longer than the trace
    return (b, e)


def bound_str(rng, be):
    sep = rng.choice([',', ':'])
    return '[%d%s%d]' % (be[0], sep, be[1])


def rand_arith(rng, depth):
    if depth <= 0 or rng.random() < 0.3:
        r = rng.random()
        if r < 0.7:
            return rng.choice(VARS)
        return rng.choice(['0', '1', '2', '0.5', '3.0', '10', '0.0'])
    r = rng.random()
    l = rand_arith(rng, depth - 1)
    if r < 0.12:
        return 'abs(%s)' % l
    if r < 0.15:
        return 'sqrt(abs(%s))' % l if rng.random() < 0.7 else 'sqrt(%s)' % l
    if r < 0.19:
        return 'exp(%s)' % l
    if r < 0.22:
        return 'ln(abs(%s) + 1)' % l if rng.random() < 0.7 else 'ln(%s)' % l
    if r < 0.3:
        return '(- %s)' % l
    rr = rand_arith(rng, depth - 1)
    if r < 0.34:
        return 'pow(%s, %s)' % (l, rng.choice(['2', '3', '0', '1', rr]))
    if r < 0.37:
        return 'log(abs(%s) + 1, %s)' % (l, rng.choice(['2', '10', rr]))
    op = rng.choice(['+', '-', '*', '+', '-', '*', '+', '-', '/'])
    return '(%s %s %s)' % (l, op, rr)


CMP = ['<=', '<', '>=', '>', '==', '!==']
UNARY_T = ['always', 'eventually', 'once', 'historically', 'G', 'F', 'O', 'H']
UNARY_X = ['prev', 'next', 's_prev', 's_next', 'not']
BIN_T = ['until', 'since', 'unless']
BIN_B = ['and', 'or', 'implies', 'iff', 'xor', '->', '<->', '&', '|']


def rand_formula(rng, depth, past_only=False):
    if depth <= 0 or rng.random() < 0.15:
        r = rng.random()
        if r < 0.7:
            return '(%s %s %s)' % (rand_arith(rng, 1), rng.choice(CMP), rand_arith(rng, 1))
        return rng.choice(VARS)
    r = rng.random()
    if r < 0.25:
        op = rng.choice(UNARY_T)
        if past_only:
            op = rng.choice(['once', 'historically'])
        f = rand_formula(rng, depth - 1, past_only)
        if rng.random() < 0.7:
            return '(%s%s %s)' % (op, bound_str(rng, rand_bound(rng)), f)
        return '(%s %s)' % (op, f)
    if r < 0.40:
        op = rng.choice(UNARY_X)
        if past_only:
            op = rng.choice(['prev', 's_prev', 'not'])
        return '(%s %s)' % (op, rand_formula(rng, depth - 1, past_only))
    if r < 0.50:
        return '%s(%s)' % (rng.choice(['rise', 'fall']), rand_formula(rng, depth - 1, past_only))
    if r < 0.70:
        op = rng.choice(BIN_T)
        if past_only:
            op = 'since'
        l = rand_formula(rng, depth - 1, past_only)
        if rng.random() < 0.25:
            rr = l  # repeated sub-formula
        else:
            rr = rand_formula(rng, depth - 1, past_only)
        if rng.random() < 0.7:
            return '(%s %s%s %s)' % (l, op, bound_str(rng, rand_bound(rng)), rr)
        return '(%s %s %s)' % (l, op, rr)
    if r < 0.92:
        op = rng.choice(BIN_B)
        l = rand_formula(rng, depth - 1, past_only)
        rr = l if rng.random() < 0.2 else rand_formula(rng, depth - 1, past_only)
        return '(%s %s %s)' % (l, op, rr)
    # arithmetic on top of formulas (the grammar is untyped)
    l = rand_formula(rng, depth - 1, past_only)
    rr = rand_formula(rng, depth - 1, past_only)
    return '((%s %s %s) %s %s)' % (l, rng.choice(['+', '-', '*']), rr, rng.choice(CMP), rng.choice(['0', '1', '0.5']))


# ----------------------------------------------------------------------------------------------
# drivers
# ----------------------------------------------------------------------------------------------
def make_spec(kind, semantics=None):
    if kind == 'both':
        if semantics is None:
            return rtamt.StlDiscreteTimeSpecification()
        return rtamt.StlDiscreteTimeSpecification(semantics=semantics)
    if kind == 'offline':
        return rtamt.StlDiscreteTimeOfflineSpecification()
    raise ValueError(kind)


def dump_results(spec, data):
    """every stored intermediate result, by formula name (sorted), with aliasing flags"""
    try:
        names = sorted(spec.ast.phi_name_to_node_dict.keys())
    except Exception as e:
        emit('   names', exc_text(e))
        return
    for name in names:
        try:
            val = spec.get_value(name)
        except Exception as e:
            emit('   val', name, exc_text(e))
            continue
        alias = [k for k in sorted(data, key=str) if val is data[k]]
        emit('   val', name, '=', canon(val), 'alias', alias)


def evaluate_and_print(tag, spec, data, dump=False):
    before = copy.deepcopy(data)
    try:
        out = spec.evaluate(data)
        emit(tag, 'OUT', canon(out))
    except Exception as e:
        emit(tag, exc_text(e))
    # effect on caller data
    same = canon(before) == canon(data)
    emit(tag, 'data-unchanged', same, 'svc', canon(safe(lambda: spec.sampling_violation_counter)),
         'rtime', canon(safe(lambda: spec.ast.results.get('time', 'unset'))))
    if not same:
        emit(tag, 'data-now', canon(data))
    if dump:
        dump_results(spec, data)


def safe(f):
    try:
        return f()
    except Exception as e:
        return 'EXC ' + type(e).__name__


def run_case(tag, formula, data, kind='both', semantics=None, consts=(), unit=None, sp=None,
             io=None, pastify=False, dump=False, repeat=1, var_type='float'):
    emit(tag, 'SPEC', formula, 'kind', kind, 'sem', semantics, 'unit', unit, 'sp', sp, 'consts', list(consts))
    try:
        spec = make_spec(kind, semantics)
        for v in VARS:
            spec.declare_var(v, var_type)
        for c in consts:
            spec.declare_const(*c)
        if io:
            for v, t in io.items():
                spec.set_var_io_type(v, t)
        if unit is not None:
            spec.unit = unit
        if sp is not None:
            spec.set_sampling_period(*sp)
        spec.spec = formula
        spec.parse()
        if pastify:
            spec.pastify()
    except Exception as e:
        emit(tag, 'SETUP', exc_text(e))
        return None
    for k in range(repeat):
        evaluate_and_print('%s.%d' % (tag, k), spec, data, dump=dump)
    return spec


def mk_data(rng, n, dt=1, t0=0, pool=None, same_pool=False):
    data = {'time': [t0 + i * dt for i in range(n)]}
    p = rng.choice(VALUE_POOLS) if same_pool else pool
    for v in VARS:
        data[v] = rand_trace(rng, n, p)
    return data


# ----------------------------------------------------------------------------------------------
# sections
# ----------------------------------------------------------------------------------------------
def section_fixed():
    emit('## fixed operator table')
    rng = random.Random(1)
    ops1 = ['always', 'eventually', 'once', 'historically', 'prev', 'next', 's_prev', 's_next', 'not',
            'rise', 'fall', 'abs', 'sqrt', 'exp', 'ln', '-']
    bounds = ['', '[0,0]', '[0,1]', '[1,1]', '[1,3]', '[0,5]', '[2,30]', '[3,3]']
    traces = [
        [],
        [2],
        [0, 0],
        [1, 1.0, 1],
        [0.0, -0.0, 0],
        [-1, 3, -2.5, 4, 0, 0.5, -7],
        [1, 2, 3, 4, 5, 6, 7, 8, 9, 10],
        [5, 4.0, 3, 2.0, 1, 0.0, -1],
        [INF, -INF, 0, 1],
    ]
    k = 0
    for tr_a in traces:
        n = len(tr_a)
        tr_b = rand_trace(rng, n, [0, 1, -1, 1.0, 0.0, -0.0, 2.5, -3])
        tr_c = rand_trace(rng, n, [1, 2, 3])
        for op in ops1:
            blist = bounds if op in ('always', 'eventually', 'once', 'historically') else ['']
            for b in blist:
                for arg in ['a', '(a >= b)']:
                    if op in ('rise', 'fall', 'abs', 'sqrt', 'exp', 'ln'):
                        f = 'out = %s(%s)' % (op, arg)
                    else:
                        f = 'out = %s%s %s' % (op, b, arg)
                    data = {'time': list(range(n)), 'a': list(tr_a), 'b': list(tr_b), 'c': list(tr_c)}
                    run_case('F%d' % k, f, data, dump=(k % 7 == 0))
                    k += 1
        for op in ['until', 'since', 'unless', 'and', 'or', 'implies', 'iff', 'xor',
                   '+', '-', '*', '/', '<=', '<', '>=', '>', '==', '!==']:
            blist = bounds if op in ('until', 'since', 'unless') else ['']
            for b in blist:
                for (l, r) in [('a', 'b'), ('(a >= 0)', '(b <= c)'), ('a', 'a')]:
                    f = 'out = (%s) %s%s (%s)' % (l, op, b, r)
                    data = {'time': list(range(n)), 'a': list(tr_a), 'b': list(tr_b), 'c': list(tr_c)}
                    run_case('F%d' % k, f, data, dump=(k % 7 == 0))
                    k += 1
        for fn in ['pow', 'log']:
            f = 'out = %s(a, c)' % fn
            data = {'time': list(range(n)), 'a': list(tr_a), 'b': list(tr_b), 'c': list(tr_c)}
            run_case('F%d' % k, f, data)
            k += 1


def section_random():
    emit('## random specifications')
    rng = random.Random(20240911)
    for k in range(700):
        depth = rng.choice([1, 2, 2, 3, 3, 4])
        f = 'out = ' + rand_formula(rng, depth)
        n = rng.choice([0, 1, 1, 2, 3, 4, 5, 6, 8, 12])
        data = mk_data(rng, n, same_pool=(rng.random() < 0.5))
        run_case('R%d' % k, f, data, kind=rng.choice(['both', 'offline']),
                 dump=(rng.random() < 0.3), repeat=rng.choice([1, 1, 2]))


def section_multi_spec():
    emit('## several assertions / sub-specifications, get_value')
    rng = random.Random(77)
    for k in range(60):
        f1 = rand_formula(rng, 2)
        f2 = rand_formula(rng, 2)
        text = 'p = %s;\nq = %s;\nout = (p and (not q)) or (always[0,2] p);' % (f1, f2)
        n = rng.choice([0, 1, 2, 4, 7])
        data = mk_data(rng, n, same_pool=True)
        run_case('M%d' % k, text, data, dump=True)


def section_iastl():
    emit('## IA-STL semantics')
    rng = random.Random(5)
    sems = [rtamt.Semantics.STANDARD, rtamt.Semantics.OUTPUT_ROBUSTNESS, rtamt.Semantics.INPUT_ROBUSTNESS,
            rtamt.Semantics.INPUT_VACUITY, rtamt.Semantics.OUTPUT_VACUITY]
    for k in range(100):
        f = 'out = ' + rand_formula(rng, rng.choice([1, 2, 3]))
        n = rng.choice([0, 1, 3, 6])
        data = mk_data(rng, n, same_pool=(rng.random() < 0.5))
        io = {'a': 'input', 'b': 'output'}
        if rng.random() < 0.5:
            io['c'] = rng.choice(['input', 'output'])
        run_case('I%d' % k, f, data, semantics=rng.choice(sems), io=io)


def section_units():
    emit('## units, sampling period, tolerance, irregular time stamps')
    rng = random.Random(9)
    combos = [
        # unit, sampling period, bound string
        (None, None, '[0,2]'),
        (None, None, '[1s,2s]'),
        (None, None, '[1000ms,2s]'),
        (None, None, '[1,2s]'),
        (None, None, '[1s,2]'),
        (None, None, '[500ms,2s]'),
        (None, None, '[0.5,2]'),
        (None, None, '[1.0,2.0]'),
        ('ms', None, '[1000,2000]'),
        ('ms', None, '[1,2]'),
        ('ms', (500, 'ms', 0.1), '[500,1500]'),
        ('ms', (500, 'ms', 0.1), '[1s,2s]'),
        ('ms', (500, 'ms', 0.1), '[250,500]'),
        ('s', (500, 'ms', 0.1), '[0.5,1.5]'),
        ('s', (500, 'ms', 0.1), '[0.5s,1500ms]'),
        ('s', (0.5, 's', 0.1), '[0.5,1.5]'),
        ('s', (0.25, 's', 0.0), '[0.5,1]'),
        ('us', (10, 'us', 1.0), '[10,30]'),
        ('us', (10, 'us', 1.0), '[10,35]'),
        ('ns', (2, 'ns', 0.5), '[2,6]'),
        ('ns', (2, 'us', 0.5), '[2000,6000]'),
        ('s', (2, 's', 0.1), '[1,2]'),
        ('s', (2, 's', 0.1), '[2,4]'),
        ('s', (3, 'ms', 0.1), '[1,2]'),
        ('s', (3, 'ms', 0.1), '[3ms,9ms]'),
        ('foo', None, '[1,2]'),
        ('s', (1, 'foo', 0.1), '[1,2]'),
        ('s', (0, 's', 0.1), '[1,2]'),
        ('s', (1, 's', 1.5), '[1,2]'),
        ('s', (1, 's', -0.5), '[1,2]'),
        ('ms', (1, 's', 0.1), '[0,1s]'),
        ('ms', (1, 's', 0.1), '[0,1000]'),
        ('ms', (1, 's', 0.1), '[0,100]'),
    ]
    ops = ['always', 'eventually', 'once', 'historically']
    k = 0
    for unit, sp, b in combos:
        for op in ops:
            f = 'out = %s%s (a >= b)' % (op, b)
            data = mk_data(rng, 6, pool=[0, 1, -1, 2.5, -0.5, 3])
            run_case('U%d' % k, f, data, unit=unit, sp=sp)
            k += 1
        for op in ['until', 'since']:
            f = 'out = (a >= 0) %s%s (b >= 0)' % (op, b)
            data = mk_data(rng, 6, pool=[0, 1, -1, 2.5, -0.5, 3])
            run_case('U%d' % k, f, data, unit=unit, sp=sp)
            k += 1
    # unit changed after parse
    for unit in ['ms', 'us', 'foo', None, '']:
        emit('U-late', repr(unit))
        try:
            spec = rtamt.StlDiscreteTimeSpecification()
            spec.declare_var('a', 'float')
            spec.spec = 'out = always[0,2] a'
            spec.parse()
            spec.unit = unit
            data = {'time': [0, 1, 2, 3], 'a': [3, 1, 2, 5]}
            evaluate_and_print('U-late', spec, data)
        except Exception as e:
            emit('U-late', exc_text(e))
    # sampling violation counter with irregular / float time stamps, several evaluations
    times = [
        [0, 1, 2, 3, 4],
        [0, 1, 2.05, 3.2, 4.1],
        [0, 0.9, 1.8, 2.9, 4.0],
        [0, 1.1, 2.2, 3.3000000000000003, 4.4],
        [0.0, 1.1, 2.2, 3.3, 4.4],
        [5, 4, 3, 2, 1],
        [0, 0, 0, 0, 0],
        [0, 2, 4, 6, 8],
        [0, 1000, 2000, 3100, 4500],
        [0, 0.5, 1.0, 1.5, 2.0],
        [0, INF, 1, 2, 3],
        [0, float('nan'), 1, 2, 3],
        [7],
        [],
    ]
    setups = [(None, None), ('ms', None), ('ms', (1, 's', 0.1)), ('s', (500, 'ms', 0.2)), ('s', (1, 's', 0.0)),
              ('s', (1, 's', 1.0)), ('ms', (1000, 'ms', 0.05)), ('s', (2, 's', 0.1))]
    for si, (unit, sp) in enumerate(setups):
        try:
            spec = rtamt.StlDiscreteTimeSpecification()
            spec.declare_var('a', 'float')
            if unit is not None:
                spec.unit = unit
            if sp is not None:
                spec.set_sampling_period(*sp)
            spec.spec = 'out = a'
            spec.parse()
        except Exception as e:
            emit('V%d' % si, 'SETUP', exc_text(e))
            continue
        for ti, ts in enumerate(times):
            data = {'time': list(ts), 'a': [1] * len(ts)}
            evaluate_and_print('V%d.%d' % (si, ti), spec, data)
            emit('V%d.%d' % (si, ti), 'freq', canon(safe(spec.get_sampling_frequency)),
                 'tol', canon(safe(lambda: spec.sampling_tolerance)))


def section_const_bounds():
    emit('## bounds given by constants, including negative and zero ones')
    rng = random.Random(123)
    vals = ['-3', '-1', '0', '1', '2', '4', '0.5', '1.0']
    k = 0
    for lo in vals:
        for hi in vals:
            for op in ['always', 'eventually', 'once', 'historically']:
                for n in [0, 1, 2, 5]:
                    data = mk_data(rng, n, pool=[0, 1, -1, 2.5, -0.5, 3, 1.0, 0.0])
                    run_case('C%d' % k, 'out = %s[lo,hi] a' % op, data,
                             consts=[('lo', 'float', lo), ('hi', 'float', hi)])
                    k += 1
            for op in ['until', 'since', 'unless']:
                for n in [0, 1, 3]:
                    data = mk_data(rng, n, pool=[0, 1, -1, 2.5, -0.5, 3, 1.0, 0.0])
                    run_case('C%d' % k, 'out = a %s[lo,hi] b' % op, data,
                             consts=[('lo', 'float', lo), ('hi', 'float', hi)])
                    k += 1


def section_bad_inputs():
    emit('## malformed / unusual inputs')
    formulas = ['out = a', 'out = a + b >= 1', 'out = a >= b', 'out = always[0,2] a', 'out = eventually[1,2] a',
                'out = once[0,2] a', 'out = historically[1,2] a', 'out = a since[0,2] b', 'out = a until[0,2] b',
                'out = a since b', 'out = a until b', 'out = always a', 'out = eventually a', 'out = once a',
                'out = historically a', 'out = rise(a)', 'out = fall(a)', 'out = prev a', 'out = next a',
                'out = s_prev a', 'out = s_next a', 'out = a and b', 'out = a or b', 'out = a xor b',
                'out = a iff b', 'out = a implies b', 'out = not a', 'out = abs(a)', 'out = sqrt(a)',
                'out = exp(a)', 'out = ln(a)', 'out = pow(a,b)', 'out = log(a,b)', 'out = a * b', 'out = a / b',
                'out = a - b', 'out = - a', 'out = a + 1 >= 2', 'out = always[0,1](a + 1 >= b)',
                'out = (a >= 1) until[1,2] (b + 1 >= 2)']
    datasets = [
        ('short-b', {'time': [0, 1, 2, 3], 'a': [1, 2, 3, 4], 'b': [1, 2], 'c': [0, 0, 0, 0]}),
        ('long-b', {'time': [0, 1, 2], 'a': [1, 2, 3], 'b': [1, 2, 0, 7, 9], 'c': [0, 0, 0]}),
        ('short-a', {'time': [0, 1, 2, 3], 'a': [1, 2], 'b': [4, 3, 2, 1], 'c': [0, 0, 0, 0]}),
        ('short-time', {'time': [0, 1], 'a': [1, 2, 3, 4], 'b': [4, 3, 2, 1], 'c': [0, 0, 0, 0]}),
        ('tuples', {'time': (0, 1, 2, 3), 'a': (1, -2, 3, 4), 'b': (4, 3, -2, 1), 'c': (0, 0, 0, 0)}),
        ('tuple-a', {'time': [0, 1, 2, 3], 'a': (1, -2, 3, 4), 'b': [4, 3, -2, 1], 'c': [0, 0, 0, 0]}),
        ('tuple-short', {'time': [0], 'a': (1,), 'b': (2,), 'c': (0,)}),
        ('range', {'time': range(4), 'a': range(4), 'b': range(3, -1, -1), 'c': [0, 0, 0, 0]}),
        ('no-time', {'a': [1, 2], 'b': [1, 2], 'c': [1, 2]}),
        ('no-b', {'time': [0, 1], 'a': [1, 2], 'c': [1, 2]}),
        ('extra', {'time': [0, 1], 'a': [1, 2], 'b': [3, 0], 'c': [1, 2], 'zzz': [9, 9]}),
        ('strings', {'time': [0, 1], 'a': ['x', 'y'], 'b': [1, 2], 'c': [1, 2]}),
        ('none', {'time': [0, 1], 'a': [None, 1], 'b': [1, 2], 'c': [1, 2]}),
        ('nan', {'time': [0, 1, 2], 'a': [float('nan'), 1, 2], 'b': [1, float('nan'), 0], 'c': [1, 2, 3]}),
        ('neg', {'time': [0, 1, 2], 'a': [-1, -4.0, 0], 'b': [0, 0.0, -0.0], 'c': [1, 2, 3]}),
        ('big', {'time': [0, 1, 2], 'a': [1e308, 1000, 710], 'b': [1e308, 1000, 2], 'c': [1, 2, 3]}),
        ('time-scalar', {'time': 3, 'a': [1, 2], 'b': [1, 2], 'c': [1, 2]}),
        ('empty', {'time': [], 'a': [], 'b': [], 'c': []}),
    ]
    k = 0
    for f in formulas:
        for name, data in datasets:
            d = dict((key, (list(v) if isinstance(v, list) else v)) for key, v in data.items())
            # no deepcopy comparison for range objects etc.: canon handles them as opaque
            emit('B%d' % k, 'SPEC', f, 'DATA', name)
            try:
                spec = rtamt.StlDiscreteTimeSpecification()
                for v in VARS:
                    spec.declare_var(v, 'float')
                spec.spec = f
                spec.parse()
            except Exception as e:
                emit('B%d' % k, 'SETUP', exc_text(e))
                k += 1
                continue
            try:
                out = spec.evaluate(d)
                emit('B%d' % k, 'OUT', canon(out))
            except Exception as e:
                emit('B%d' % k, exc_text(e))
            emit('B%d' % k, 'data', canon(dict((key, (list(v) if isinstance(v, range) else v)) for key, v in d.items())),
                 'svc', canon(safe(lambda: spec.sampling_violation_counter)),
                 'rtime', canon(safe(lambda: spec.ast.results.get('time', 'unset'))))
            dump_results(spec, d)
            k += 1
    # not a dict at all / no AST
    for bad in [None, [], [['a', [[0, 1]]]], 5, 'time']:
        try:
            spec = rtamt.StlDiscreteTimeSpecification()
            spec.declare_var('a', 'float')
            spec.spec = 'out = a'
            spec.parse()
            emit('BX', canon(spec.evaluate(bad)))
        except Exception as e:
            emit('BX', exc_text(e))
    try:
        spec = rtamt.StlDiscreteTimeSpecification()
        emit('BY', canon(spec.evaluate({'time': [0], 'a': [1]})))
    except Exception as e:
        emit('BY', exc_text(e))
    try:
        spec = rtamt.StlDiscreteTimeSpecification()
        emit('BZ', canon(spec.evaluate()))
    except Exception as e:
        emit('BZ', exc_text(e))


def section_call_sequences():
    emit('## call sequences: evaluate / update / reset / pastify mixed on one object')
    rng = random.Random(4242)
    for k in range(120):
        past = rng.random() < 0.6
        f = 'out = ' + rand_formula(rng, rng.choice([1, 2, 3]), past_only=past)
        tag = 'S%d' % k
        emit(tag, 'SPEC', f)
        try:
            spec = rtamt.StlDiscreteTimeSpecification()
            for v in VARS:
                spec.declare_var(v, 'float')
            if rng.random() < 0.3:
                spec.set_sampling_period(1, 's', rng.choice([0.0, 0.1, 0.5]))
            spec.spec = f
            spec.parse()
        except Exception as e:
            emit(tag, 'SETUP', exc_text(e))
            continue
        t = 0
        offline_first = rng.random() < 0.8
        for step in range(rng.randint(3, 9)):
            action = rng.choice(['evaluate', 'evaluate', 'evaluate', 'update', 'reset', 'pastify', 'setsp', 'get'])
            if step == 0 and offline_first:
                action = 'evaluate'
            try:
                if action == 'evaluate':
                    n = rng.choice([0, 1, 2, 3, 5])
                    data = mk_data(rng, n, dt=rng.choice([1, 1, 1, 2, 0.5]), same_pool=True)
                    before = canon(data)
                    out = spec.evaluate(data)
                    emit(tag, step, 'evaluate', canon(out), 'unchanged', before == canon(data))
                elif action == 'update':
                    vals = [(v, rng.choice([0, 1, -1, 2.5, -0.5])) for v in VARS]
                    out = spec.update(t, vals)
                    t += 1
                    emit(tag, step, 'update', canon(out))
                elif action == 'reset':
                    spec.reset()
                    t = 0
                    emit(tag, step, 'reset')
                elif action == 'pastify':
                    spec.pastify()
                    emit(tag, step, 'pastify')
                elif action == 'setsp':
                    args = rng.choice([(1, 's', 0.1), (1, 's', 0.0), (1000, 'ms', 0.2), (2, 's', 0.1), (1, 's', 2.0)])
                    spec.set_sampling_period(*args)
                    emit(tag, step, 'setsp', args)
                else:
                    emit(tag, step, 'get', canon(spec.get_value('out')))
            except Exception as e:
                emit(tag, step, action, exc_text(e))
            emit(tag, step, 'svc', canon(safe(lambda: spec.sampling_violation_counter)),
                 'freq', canon(safe(spec.get_sampling_frequency)))


def section_interpreter_direct():
    emit('## interpreter methods called directly')
    from rtamt.semantics.stl.discrete_time.offline.interpreter import StlDiscreteTimeOfflineInterpreter
    from rtamt.syntax.ast.parser.stl.specification_parser import StlAst

    class FakeNode(object):
        def __init__(self, b, e, bu, eu):
            self.begin = b
            self.end = e
            self.begin_unit = bu
            self.end_unit = eu

    bounds = [0, 0, 1, 1, 2, 3, Fraction(1, 2), Fraction(3, 2), Fraction(5), Fraction(1), Fraction(2), Fraction(1000), 1000, 1500,
              500, 250, -1, Fraction(-3, 2), Fraction(-2), 2.0, 0.5]
    units = ['', '', '', 's', 's', 'ms', 'ms', 'us', 'ns', 'foo']
    sps = [(1, 's'), (1, 's'), (1, 's'), (500, 'ms'), (500, 'ms'), (0.5, 's'), (2, 's'), (3, 'ms'), (1, 'ns'),
           (1, 'ms'), (250, 'us'), (0, 's'), (1, 'bar'), (Fraction(1, 3), 's'), (-1, 's')]
    ast_units = ['s', 's', 's', 'ms', 'ms', 'ns', 'us', 'zzz', '']
    rng = random.Random(31337)
    for k in range(1500):
        interp = StlDiscreteTimeOfflineInterpreter()
        ast = StlAst()
        ast.unit = rng.choice(ast_units)
        interp.set_ast(ast)
        sp = rng.choice(sps)
        try:
            interp.set_sampling_period(sp[0], sp[1], rng.choice([0.1, 0.0, 1.0]))
        except Exception as e:
            emit('T%d' % k, 'setsp', exc_text(e))
        node = FakeNode(rng.choice(bounds), rng.choice(bounds), rng.choice(units), rng.choice(units))
        try:
            r = interp.time_unit_transformer(node)
            emit('T%d' % k, canon(node.begin), repr(node.begin_unit), canon(node.end), repr(node.end_unit),
                 ast.unit, sp, '->', canon(r))
        except Exception as e:
            emit('T%d' % k, canon(node.begin), repr(node.begin_unit), canon(node.end), repr(node.end_unit),
                 ast.unit, sp, '->', exc_text(e))
        emit('T%d' % k, 'period', canon(safe(interp.get_sampling_period)), 'freq', canon(safe(interp.get_sampling_frequency)))
    # unit attributes that are not strings
    for bu, eu in [(None, 's'), ('s', None), (None, None), ([], 's'), ((), ())]:
        interp = StlDiscreteTimeOfflineInterpreter()
        ast = StlAst()
        interp.set_ast(ast)
        try:
            emit('TN', canon(interp.time_unit_transformer(FakeNode(1, 2, bu, eu))))
        except Exception as e:
            emit('TN', exc_text(e))
    # violation counter directly
    for k in range(300):
        interp = StlDiscreteTimeOfflineInterpreter()
        ast = StlAst()
        ast.unit = rng.choice(['s', 's', 'ms', 'ms', 'us', 'ns', 'zzz'])
        interp.set_ast(ast)
        sp = rng.choice(sps)
        try:
            interp.set_sampling_period(sp[0], sp[1], rng.choice([0.1, 0.0, 1.0, 0.5]))
        except Exception as e:
            emit('W%d' % k, 'setsp', exc_text(e))
        for d in [0, 1, 0.9, 1.1, 1.1000000000000001, 0.5, 2, 1000, 1e9, -1, INF, float('nan')]:
            try:
                interp.update_sampling_violation_counter(d)
                emit('W%d' % k, canon(d), canon(interp.sampling_violation_counter))
            except Exception as e:
                emit('W%d' % k, canon(d), exc_text(e))
    # evaluate without an AST / dataset_check
    interp = StlDiscreteTimeOfflineInterpreter()
    for ds in [{'time': [0]}, {'time': []}, {}, {'time': None}]:
        try:
            emit('DC', canon(interp.dataset_check(ds)))
        except Exception as e:
            emit('DC', exc_text(e))
    try:
        interp.evaluate({'time': [0], 'a': [1]})
    except Exception as e:
        emit('NOAST', exc_text(e))
    try:
        interp.set_ast(None)
        interp.evaluate({'time': [0], 'a': [1]})
    except Exception as e:
        emit('NOAST2', exc_text(e))


def section_visitor_direct():
    emit('## visitor handlers on hand-made sample lists (through a stub child)')
    # The handlers obtain their operand samples through self.visit(child); feed arbitrary sample
    # lists by evaluating specifications whose operands are plain variables.
    rng = random.Random(2718)
    unary = ['always', 'eventually', 'once', 'historically']
    for k in range(400):
        n = rng.choice([0, 1, 2, 3, 4, 6, 9])
        b = rng.randint(0, 4)
        e = b + rng.randint(0, 5)
        pool = rng.choice(VALUE_POOLS + [[float('nan'), 1, 0, -1, 1.0]])
        data = {'time': list(range(n)), 'a': rand_trace(rng, n, pool), 'b': rand_trace(rng, n, pool),
                'c': rand_trace(rng, n, pool)}
        r = rng.random()
        if r < 0.45:
            f = 'out = %s[%d,%d] a' % (rng.choice(unary), b, e)
        elif r < 0.8:
            f = 'out = a %s[%d,%d] b' % (rng.choice(['since', 'until', 'unless']), b, e)
        elif r < 0.9:
            f = 'out = %s a' % rng.choice(unary)
        else:
            f = 'out = a %s b' % rng.choice(['since', 'until', 'unless'])
        run_case('D%d' % k, f, data, dump=(k % 5 == 0))


def section_explain():
    emit('## explain() after offline evaluation (reads the stored results)')
    rng = random.Random(99)
    for k in range(40):
        f = 'out = ' + rand_formula(rng, rng.choice([1, 2, 3]))
        n = rng.choice([1, 2, 4, 6])
        data = mk_data(rng, n, same_pool=True)
        spec = run_case('E%d' % k, f, data, kind='offline')
        if spec is None:
            continue
        try:
            spec.explain()
            expl = spec.explainer.explanations
            items = sorted((str(key), canon(expl[key])) for key in expl.keys())
            emit('E%d' % k, 'explain', items)
        except Exception as e:
            emit('E%d' % k, 'explain', exc_text(e))


def main():
    sys.stderr.write('rtamt imported from %s\n' % rtamt.__file__)
    section_fixed()
    section_random()
    section_multi_spec()
    section_iastl()
    section_units()
    section_const_bounds()
    section_bad_inputs()
    section_call_sequences()
    section_interpreter_direct()
    section_visitor_direct()
    section_explain()
    emit('## done')


if __name__ == '__main__':
    main()
