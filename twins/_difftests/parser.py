# -*- coding: utf-8 -*-
"""Differential test for the front end (parser visitors, AbstractAst, syntax nodes).

usage:  PYTHONPATH=<tree> /venv/bin/python twins/diff_test.py > out.txt

Deterministic (seeded).  Prints every result / exception type+message / logging record in a
canonical text form; two trees behave alike on this script iff their outputs are byte-identical.
"""
from __future__ import print_function

import logging
import os
import random
import re
import sys
from fractions import Fraction

sys.path.insert(0, os.path.dirname(os.path.abspath(__file__)))

import rtamt
from rtamt.semantics.interval.interval import Interval
from rtamt.syntax.ast.parser.ltl.specification_parser import LtlAst
from rtamt.syntax.ast.parser.stl.specification_parser import StlAst
from rtamt.syntax.node.ltl.variable import Variable
from rtamt.syntax.node.ltl.constant import Constant
from rtamt.syntax.node.ltl.predicate import Predicate
from rtamt.syntax.node.ltl.neg import Neg
from rtamt.syntax.node.ltl.conjunction import Conjunction
from rtamt.syntax.node.ltl.always import Always
from rtamt.syntax.node.ltl.until import Until
from rtamt.syntax.node.arithmetic.addition import Addition
from rtamt.syntax.node.arithmetic.abs import Abs
from rtamt.syntax.node.stl.timed_always import TimedAlways
from rtamt.syntax.node.stl.timed_eventually import TimedEventually
from rtamt.syntax.node.stl.timed_once import TimedOnce
from rtamt.syntax.node.stl.timed_historically import TimedHistorically
from rtamt.syntax.node.stl.timed_since import TimedSince
from rtamt.syntax.node.stl.timed_until import TimedUntil
from rtamt.syntax.node.stl.timed_precedes import TimedPrecedes
from rtamt.semantics.enumerations.comp_op import StlComparisonOperator


# ----------------------------------------------------------------------------------------------
# canonical printing
# ----------------------------------------------------------------------------------------------
ADDR = re.compile(r' at 0x[0-9a-fA-F]+')


def emit(*parts):
    sys.stdout.write(' '.join(str(p) for p in parts) + '\n')


class EmitHandler(logging.Handler):
    def emit(self, record):
        try:
            msg = record.getMessage()
        except Exception as err:  # pragma: no cover
            msg = 'unformattable %s' % type(err).__name__
        emit('  LOG', record.levelname, ADDR.sub('', msg))


_root = logging.getLogger()
for _h in list(_root.handlers):
    _root.removeHandler(_h)
_root.addHandler(EmitHandler())
_root.setLevel(logging.DEBUG)
logging.getLogger('antlr4').setLevel(logging.WARNING)


def canon(x):
    if isinstance(x, bool) or x is None:
        return repr(x)
    if isinstance(x, (int, float, complex, Fraction)):
        return type(x).__name__ + ':' + repr(x)
    if isinstance(x, str):
        return repr(x)
    if isinstance(x, bytes):
        return repr(x)
    if isinstance(x, (list, tuple)):
        o, c = ('[', ']') if isinstance(x, list) else ('(', ')')
        return o + ', '.join(canon(e) for e in x) + c
    if isinstance(x, (set, frozenset)):
        return '{' + ', '.join(sorted(canon(e) for e in x)) + '}'
    if isinstance(x, dict):
        return '{' + ', '.join(sorted(canon(k) + ': ' + canon(v) for k, v in x.items())) + '}'
    if hasattr(x, 'children') and hasattr(x, 'name'):
        return '<' + type(x).__name__ + ' ' + repr(x.name) + '>'
    if hasattr(x, '__dict__') and type(x).__module__ == 'twin_types':
        return '<' + type(x).__name__ + ' ' + canon(vars(x)) + '>'
    return '<' + type(x).__name__ + ' ' + ADDR.sub('', repr(x)) + '>'


def run(label, fn, show=True):
    try:
        r = fn()
    except Exception as err:
        emit(label, 'EXC', type(err).__name__, ADDR.sub('', str(err)))
        return None, err
    if show:
        emit(label, 'OK', canon(r))
    else:
        emit(label, 'OK')
    return r, None


def dump_node(node, depth=0, budget=None):
    if budget is None:
        budget = [400]
    if budget[0] <= 0:
        emit('  ' * depth + '   ...')
        return
    budget[0] -= 1
    extra = []
    if isinstance(node, Interval):
        extra.append('I=' + canon([node.begin, node.end, node.begin_unit, node.end_unit]))
    if isinstance(node, Constant):
        extra.append('val=' + canon(node.val))
    if isinstance(node, Variable):
        extra.append('var=' + canon([node.var, node.field, node.io_type]))
    if isinstance(node, Predicate):
        extra.append('op=' + repr(node.operator) + '/' + str(node.operator))
    kids = node.children
    alias = []
    for k in kids:
        alias.append(('i' if node.in_vars is k.in_vars else '-') + ('o' if node.out_vars is k.out_vars else '-'))
    emit('  ' * depth + '   N', type(node).__name__, 'name=' + canon(node.name), 'repr=' + repr(node),
         'in=' + canon(node.in_vars), 'out=' + canon(node.out_vars),
         'kids=' + str(len(kids)), 'alias=' + ','.join(alias),
         'node=' + canon(node.node), 'interp=' + canon(node.interpreter), *extra)
    seen = []
    for k in kids:
        if any(k is s for s in seen):
            continue
        seen.append(k)
        dump_node(k, depth + 1, budget)


def dump_ast(ast, label='AST'):
    emit(' ', label, 'name=' + canon(ast.name), 'out_var=' + canon(ast.out_var),
         'out_var_field=' + canon(ast.out_var_field), 'unit=' + canon(getattr(ast, 'unit', None)))
    emit('   vars=' + canon(ast.vars), 'free=' + canon(ast.free_vars),
         'in=' + canon(ast.in_vars), 'out=' + canon(ast.out_vars))
    emit('   types=' + canon(ast.var_type_dict), 'io=' + canon(ast.var_io_dict),
         'topics=' + canon(ast.var_topic_dict))
    emit('   const_types=' + canon(ast.const_type_dict), 'const_vals=' + canon(ast.const_val_dict))
    emit('   objects=' + canon(ast.var_object_dict))
    emit('   objects_order=' + canon(list(ast.var_object_dict.keys())))
    emit('   subspecs=' + canon(list(ast.var_subspec_dict.keys())),
         'modules=' + canon(sorted(ast.modules.keys())))
    emit('   phi=' + canon([[k, type(v).__name__, v.name] for k, v in ast.phi_name_to_node_dict.items()]))
    for i, s in enumerate(ast.specs):
        emit('   spec', i)
        dump_node(s, 1)


# ----------------------------------------------------------------------------------------------
# random specifications
# ----------------------------------------------------------------------------------------------
NUMS = ['0', '1', '2', '3', '5', '0.5', '1.5', '2.0', '1e0', '2.5e-1', '.5', '3.', '0x1F', '0b101', '1_0',
        '1__0', '100', '0X0a', '0B1_1', '1E+1', '0.0']
CMP = ['<', '<=', '>=', '>', '==', '!==']
UNITS = ['', '', '', 's', 'ms', 'us', 'ns']
BOUNDS = ['0', '0', '1', '2', '3', '5', '10', '0.5', '1.0', '2e0', '0x2', '1_0', '1000', '2000', '100']


def gen_interval(rng, consts):
    def one():
        if consts and rng.random() < 0.15:
            return rng.choice(consts + ['nobound']) if rng.random() < 0.9 else 'nobound'
        return rng.choice(BOUNDS)
    r = rng.random()
    if r < 0.2:
        b, e = '0', '0'
    elif r < 0.3:
        b = e = one()
    else:
        b, e = one(), one()
        try:
            if float(int(b, 0) if b.startswith('0x') else b.replace('_', '')) > \
                    float(int(e, 0) if e.startswith('0x') else e.replace('_', '')) and rng.random() < 0.8:
                b, e = e, b
        except ValueError:
            pass
    r = rng.random()
    if r < 0.6:
        ub = ue = ''
    elif r < 0.75:
        ub = ue = rng.choice(UNITS)
    else:
        ub, ue = rng.choice(UNITS), rng.choice(UNITS)
    sep = rng.choice([',', ',', ':', ' , '])
    sp = rng.choice(['', '', ' '])
    return '[' + b + sp + ub + sep + e + sp + ue + ']'


def gen_arith(rng, depth, env):
    r = rng.random()
    if depth <= 0 or r < 0.35:
        r2 = rng.random()
        if r2 < 0.55:
            return rng.choice(env['vars'])
        if r2 < 0.65 and env['consts']:
            return rng.choice(env['consts'])
        if r2 < 0.72 and env['fields']:
            return rng.choice(env['fields'])
        return rng.choice(NUMS)
    k = rng.choice(['+', '-', '*', '/', 'neg', 'abs', 'sqrt', 'exp', 'pow', 'log', 'ln', 'paren', '+', '-', '*',
                    '+', '-', '*', 'neg', 'abs', 'paren', '+', '-', 'abs', 'neg'])
    a = gen_arith(rng, depth - 1, env)
    if k in '+-*/':
        b = gen_arith(rng, depth - 1, env)
        sp = rng.choice(['', ' '])
        return a + sp + k + sp + b if rng.random() < 0.5 else '(' + a + ')' + sp + k + sp + '(' + b + ')'
    if k == 'neg':
        return '-' + a if rng.random() < 0.5 else '-(' + a + ')'
    if k == 'paren':
        return '(' + a + ')'
    if k in ('sqrt', 'ln') and rng.random() < 0.7:
        return k + '(abs(' + a + ')+1)'
    if k in ('pow', 'log'):
        return k + '(' + a + ',' + gen_arith(rng, depth - 1, env) + ')'
    return k + '(' + a + ')'


def gen_bool(rng, depth, env, timed=True, past_only=False, future_only=False):
    r = rng.random()
    if depth <= 0 or r < 0.22:
        if env['subs'] and rng.random() < 0.2:
            return rng.choice(env['subs'])
        return '(' + gen_arith(rng, 1, env) + ' ' + rng.choice(CMP) + ' ' + gen_arith(rng, 1, env) + ')'
    ops = ['not', 'and', 'or', 'implies', 'iff', 'xor', 'rise', 'fall', 'paren', 'pred']
    past = ['once', 'historically', 'since', 'prev', 's_prev']
    fut = ['always', 'eventually', 'until', 'unless', 'next', 's_next']
    if not future_only:
        ops += past + past
    if not past_only:
        ops += fut + fut
    k = rng.choice(ops)
    sub = lambda: gen_bool(rng, depth - 1, env, timed, past_only, future_only)
    iv = lambda: gen_interval(rng, env['consts']) if (timed and rng.random() < 0.7) else ''
    if k == 'pred':
        return gen_arith(rng, 2, env) + rng.choice(CMP) + gen_arith(rng, 2, env)
    if k == 'paren':
        return '(' + sub() + ')'
    if k == 'not':
        return rng.choice(['not ', '!', 'not']) + '(' + sub() + ')'
    if k in ('and', 'or', 'implies', 'iff', 'xor'):
        sym = {'and': ['and', '&'], 'or': ['or', '|'], 'implies': ['implies', '->'], 'iff': ['iff', '<->'],
               'xor': ['xor']}[k]
        return '(' + sub() + ') ' + rng.choice(sym) + ' (' + sub() + ')'
    if k in ('rise', 'fall'):
        return k + '(' + sub() + ')'
    if k in ('always', 'eventually', 'once', 'historically'):
        alt = {'always': 'G', 'eventually': 'F', 'once': 'O', 'historically': 'H'}[k]
        return rng.choice([k, k, alt]) + iv() + '(' + sub() + ')'
    if k in ('until', 'since', 'unless'):
        alt = {'until': 'U', 'since': 'S', 'unless': 'W'}[k]
        return '(' + sub() + ') ' + rng.choice([k, k, alt]) + iv() + ' (' + sub() + ')'
    alt = {'prev': 'Y', 'next': 'X', 's_prev': 'sY', 's_next': 'sX'}[k]
    return rng.choice([k, alt]) + ' (' + sub() + ')'


def gen_values(rng, n):
    mode = rng.random()
    if mode < 0.15:
        v = rng.choice([0, 1, -1, 2.5, 0.0])
        return [v] * n
    if mode < 0.5:
        return [rng.choice([-3, -2, -1, 0, 0, 1, 2, 3, 4, 5]) for _ in range(n)]
    if mode < 0.8:
        return [rng.choice([-2.5, -1.0, -0.5, 0.0, 0.0, 0.5, 1.0, 1.5, 2.0, 3.25]) for _ in range(n)]
    return [rng.choice([-3, 0, 2, 1.5, -0.25, 4.0, 0.0, 1]) for _ in range(n)]


SEMANTICS = [rtamt.Semantics.STANDARD, rtamt.Semantics.OUTPUT_ROBUSTNESS, rtamt.Semantics.INPUT_ROBUSTNESS,
             rtamt.Semantics.INPUT_VACUITY, rtamt.Semantics.OUTPUT_VACUITY]


def setup_spec(spec, cfg):
    """Applies a configuration (declarations, io types, constants, unit, text) through the public API."""
    for call in cfg['calls']:
        name, args = call[0], call[1:]
        run('  call ' + name + canon(list(args)), lambda: getattr(spec, name)(*args))
    if cfg.get('unit') is not None:
        spec.unit = cfg['unit']
    if cfg.get('period') is not None:
        run('  set_sampling_period', lambda: spec.set_sampling_period(*cfg['period']))
    spec.spec = cfg['text']


def random_cfg(rng, timed=True, past_only=False, future_only=False):
    calls = []
    env = {'vars': ['a', 'b', 'c'], 'consts': [], 'fields': [], 'subs': []}
    header = ''
    decl_in_text = rng.random() < 0.3
    types = {'a': 'float', 'b': rng.choice(['float', 'float', 'int']), 'c': rng.choice(['float', 'int'])}
    ios = {}
    for v in ['a', 'b', 'c']:
        r = rng.random()
        if r < 0.35:
            ios[v] = 'input'
        elif r < 0.6:
            ios[v] = 'output'
        elif r < 0.65:
            ios[v] = 'other'
    undeclared = rng.random() < 0.15
    if rng.random() < 0.25:
        header += 'specification ' + rng.choice(['S1', 'my_spec', 'x']) + '\n'
    use_struct = rng.random() < 0.15
    if use_struct:
        if decl_in_text and rng.random() < 0.5:
            header += 'from twin_types import Pt\n'
        else:
            calls.append(('import_module', 'twin_types', 'Pt'))
    for v in ['a', 'b', 'c']:
        if undeclared and v == 'c':
            continue
        if decl_in_text:
            io = ios.get(v)
            header += (io + ' ' if io in ('input', 'output') else '') + types[v] + ' ' + v + '\n'
        else:
            calls.append(('declare_var', v, types[v]))
            if v in ios:
                calls.append(('set_var_io_type', v, ios[v]))
    if use_struct:
        if decl_in_text:
            header += rng.choice(['', 'input ', 'output ']) + 'Pt m\n'
        else:
            calls.append(('declare_var', 'm', 'Pt'))
            if rng.random() < 0.5:
                calls.append(('set_var_io_type', 'm', rng.choice(['input', 'output'])))
        env['fields'] = ['m.x', 'm.n', 'm.inner.v', 'm.inner.k']
        if rng.random() < 0.15:
            env['fields'] += ['m.s', 'm.q', 'm.inner.label', 'm', 'm.z']
    nconst = rng.choice([0, 0, 1, 2])
    for i in range(nconst):
        cname = 'k' + str(i)
        cval = rng.choice(['1', '2', '3', '0', '0.5', '0x2', '1_0', '2e0', '1000'])
        ctype = rng.choice(['float', 'int'])
        if decl_in_text:
            header += 'const ' + ctype + ' ' + cname + ' = ' + cval + '\n'
        else:
            if rng.random() < 0.3:
                cval = rng.choice([1, 2, 0.5, 2.0, 3])
            calls.append(('declare_const', cname, ctype, cval))
        env['consts'].append(cname)
    if decl_in_text and rng.random() < 0.3:
        header += '@ topic(a, ' + rng.choice(['ta', 'ns/ta', 'a.b']) + ')\n'
    elif rng.random() < 0.15:
        calls.append(('set_var_topic', rng.choice(['a', 'zz']), 'top/ic'))
    body = ''
    nsub = rng.choice([0, 0, 0, 1, 2])
    depth = rng.choice([1, 2, 2, 3])
    for i in range(nsub):
        sname = rng.choice(['p', 'q', 'p', 'q', 'r', 'sub_f', 'sub.f', 'b']) if rng.random() < 0.7 else 's' + str(i)
        body += sname + ' = ' + gen_bool(rng, depth - 1, env, timed, past_only, future_only) + ';\n'
        if sname not in env['subs'] and sname != 'b':
            env['subs'].append(sname)
    main = gen_bool(rng, depth, env, timed, past_only, future_only)
    r = rng.random()
    if r < 0.55:
        target = 'out = '
    elif r < 0.7:
        target = ''
    elif r < 0.8:
        target = rng.choice(['res = ', 'a = ', 'c = ', 'out.f = ', 'zz.t = '])
    elif r < 0.9 and use_struct:
        target = rng.choice(['m.x = ', 'm.inner.v = ', 'm.s = ', 'm.q = ', 'm = '])
    else:
        target = 'out='
    body += target + main
    body += rng.choice(['', '', ';', ' ;', '; // trailing', ' // c', '\n', ';\n', ' /* c */', ' /* c */ ;'])
    cfg = {'calls': calls, 'text': header + body}
    if timed and rng.random() < 0.3:
        cfg['unit'] = rng.choice(['s', 'ms', 'us', 'ns'])
    if timed and rng.random() < 0.25:
        cfg['period'] = rng.choice([(1, 's', 0.1), (500, 'ms', 0.1), (1, 'ms', 0.1), (2, 's', 0.2), (100, 'us', 0.1)])
    cfg['types'] = types
    cfg['struct'] = use_struct
    return cfg


U_NS = {'s': 10 ** 9, 'ms': 10 ** 6, 'us': 10 ** 3, 'ns': 1}
BOUND = re.compile(r'^\s*([A-Za-z_0-9.+\-]*?)\s*(s|ms|us|ns)?\s*$')


def _num(tok, consts):
    tok = consts.get(tok, tok)
    if not isinstance(tok, str):
        return float(tok)
    tok = tok.replace('_', '')
    try:
        return float(tok)
    except ValueError:
        try:
            return float(int(tok, 0))
        except ValueError:
            return 0.0


def window_samples(cfg):
    """Largest operator bound of the text, in sampling periods (keeps the monitors of the test fast)."""
    consts = {}
    for call in cfg['calls']:
        if call[0] == 'declare_const':
            consts[call[1]] = call[3]
    for m in re.finditer(r'const \w+ (\w+) = (\S+)', cfg['text']):
        consts[m.group(1)] = m.group(2)
    unit = cfg.get('unit') or 's'
    period = cfg.get('period') or (1, 's', 0.1)
    period_ns = period[0] * U_NS[period[1]]
    worst = 0.0
    for m in re.finditer(r'\[([^\]]*)\]', cfg['text']):
        parts = re.split(r'[,:]', m.group(1))
        units = []
        nums = []
        for part in parts:
            mm = BOUND.match(part)
            if mm is None:
                continue
            nums.append(_num(mm.group(1), consts))
            units.append(mm.group(2))
        for i, x in enumerate(nums):
            u = units[i] or next((w for w in units if w), None) or unit
            worst = max(worst, x * U_NS[u] / period_ns)
    return worst


def random_small_cfg(rng, **kw):
    while True:
        cfg = random_cfg(rng, **kw)
        if window_samples(cfg) <= 40:
            return cfg


def make_dataset(rng, cfg, n):
    import twin_types
    period = 1
    data = {'time': [i * period for i in range(n)]}
    if rng.random() < 0.2:
        data['time'] = [float(t) for t in data['time']]
    for v in ['a', 'b', 'c']:
        data[v] = gen_values(rng, n)
    if cfg['struct']:
        objs = []
        for i in range(n):
            p = twin_types.Pt()
            p.x = rng.choice([-1.0, 0.0, 0.5, 2.0])
            p.n = rng.choice([-1, 0, 1, 3])
            p.inner.v = rng.choice([-1.5, 0.0, 1.0])
            p.inner.k = rng.choice([0, 1, 2])
            objs.append(p)
        data['m'] = objs
    return data


def discrete_round(rng, idx, cfg):
    sem = rng.choice(SEMANTICS)
    emit('DISCRETE', idx, sem.name)
    emit('  TEXT', repr(cfg['text']))
    spec = rtamt.StlDiscreteTimeSpecification(semantics=sem)
    setup_spec(spec, cfg)
    _, err = run('  parse', spec.parse)
    dump_ast(spec.ast)
    if err is not None:
        if rng.random() < 0.5:
            # a failed parse leaves state behind; a second parse must behave alike
            run('  parse-again', spec.parse)
            dump_ast(spec.ast, 'AST2')
        return
    n = rng.choice([1, 1, 2, 3, 4, 5, 6, 8])
    data = make_dataset(rng, cfg, n)
    emit('  DATA', canon(data))
    snapshot = canon(data)
    run('  evaluate', lambda: spec.evaluate(data))
    if canon(data) != snapshot:
        emit('  DATA-CHANGED', canon(data))
    for name in ['out', 'a', 'p', 'q', 'res', spec.out_var]:
        run('  get_value ' + canon(name), lambda: spec.get_value(name))
    run('  counter', lambda: spec.sampling_violation_counter)
    if rng.random() < 0.25:
        run('  parse-twice', spec.parse)
        dump_ast(spec.ast, 'AST-twice')
    # online on a fresh specification
    spec = rtamt.StlDiscreteTimeSpecification(semantics=sem)
    setup_spec(spec, cfg)
    _, err = run('  parse(online)', spec.parse)
    if err is not None:
        return
    _, err = run('  pastify', spec.pastify)
    if err is not None:
        return
    dump_ast(spec.ast, 'PAST')
    reset_at = rng.choice([None, 0, n // 2, n - 1])
    for i in range(n):
        sample = [(v, data[v][i]) for v in ['a', 'b', 'c'] + (['m'] if cfg['struct'] else [])]
        if rng.random() < 0.1:
            sample = sample[:-1]
        r, err = run('  update %d' % i, lambda: spec.update(i, sample))
        if err is not None:
            break
        if reset_at == i:
            run('  reset', spec.reset)
            run('  update-after-reset', lambda: spec.update(0, sample))
    run('  get_value(out)', lambda: spec.get_value('out'))


def dense_trace(rng, n):
    t = 0.0
    out = []
    vals = gen_values(rng, n)
    for i in range(n):
        out.append([t, vals[i]])
        t += rng.choice([0.5, 1, 1, 1.5, 2, 0.25])
    return out


def dense_round(rng, idx, cfg):
    sem = rng.choice(SEMANTICS)
    emit('DENSE', idx, sem.name)
    emit('  TEXT', repr(cfg['text']))
    spec = rtamt.StlDenseTimeSpecification(semantics=sem)
    setup_spec(spec, cfg)
    _, err = run('  parse', spec.parse)
    dump_ast(spec.ast)
    if err is not None:
        return
    n = rng.choice([1, 2, 3, 5, 7])
    traces = [[v, dense_trace(rng, n)] for v in ['a', 'b', 'c']]
    emit('  DATA', canon(traces))
    snapshot = canon(traces)
    run('  evaluate', lambda: spec.evaluate(*traces))
    if canon(traces) != snapshot:
        emit('  DATA-CHANGED', canon(traces))
    spec = rtamt.StlDenseTimeSpecification(semantics=sem)
    setup_spec(spec, cfg)
    _, err = run('  parse(online)', spec.parse)
    if err is not None:
        return
    _, err = run('  pastify', spec.pastify)
    if err is not None:
        return
    dump_ast(spec.ast, 'PAST')
    t0 = 0.0
    for batch in range(3):
        k = rng.choice([0, 1, 2, 3])
        chunk = []
        for v in ['a', 'b', 'c']:
            vals = gen_values(rng, k)
            chunk.append([v, [[t0 + j * 0.5, vals[j]] for j in range(k)]])
        t0 += k * 0.5
        r, err = run('  update batch %d %s' % (batch, canon(chunk)), lambda: spec.update(*chunk))
        if err is not None:
            break
        if batch == 1 and rng.random() < 0.4:
            run('  reset', spec.reset)
            t0 = 0.0


def ltl_round(rng, idx, cfg):
    emit('LTL', idx)
    emit('  TEXT', repr(cfg['text']))
    ast = LtlAst()
    for call in cfg['calls']:
        name, args = call[0], call[1:]
        run('  call ' + name + canon(list(args)), lambda: getattr(ast, name)(*args))
    ast.spec = cfg['text']
    run('  parse', ast.parse)
    dump_ast(ast)


# ----------------------------------------------------------------------------------------------
# targeted cases
# ----------------------------------------------------------------------------------------------
def targeted_text_cases():
    emit('TARGETED TEXTS')
    texts = [
        'out = always[0,2](a >= 1)', 'out = always[0,2](a >= 1);', 'always[0,2](a >= 1)', 'a >= 1', 'a>=1;;',
        '', ';', ' ', '// only a comment', '/* c */', 'out = a >= 1 // x', 'out = a >= 1 // x;', 'out = a >= 1 /* ; */',
        'out = a//b >= 1', 'out = (a >= 1', 'out = a >= ', 'out = always[2,1](a>=1)', 'out = always[1s,500ms](a>=1)',
        'out = always[1,500ms](a>=1)', 'out = always[1s,2](a>=1)', 'out = always[1ms,1](a>=1)',
        'out = always[1000ms,1s](a>=1)', 'out = always[1001ms,1s](a>=1)', 'out = always[0,0](a>=1)',
        'out = eventually[0:0] (a<=1)', 'out = eventually[0.5,1.5] (a<=1)', 'out = once[kk,2](a>0)',
        'out = once[k1,2](a>0)', 'out = once[0,k1](a>0)', 'out = once[k1 s,k2 ms](a>0)', 'out = once[k2,k1](a>0)',
        'out = once[kf,4](a>0)', 'out = once[0x1,0b11](a>0)', 'out = once[1_0,2__0](a>0)', 'out = once[1e0,2E0](a>0)',
        'out = once[1e-1,2](a>0)', 'out = once[.5s,2.s](a>0)',
        'out = (a>0) until[1,2] (b<0)', 'out = (a>0) unless[1,2] (b<0)', 'out = (a>0) unless (b<0)',
        'out = (a>0) W[1ms,2s] (b<0)', 'out = (a>0) since[0,3] (b<0)', 'out = (a>0) S (b<0)', 'out = (a>0) U (b<0)',
        'out = F(a>0)', 'out = F[0,1](a>0)', 'out = eventually(a>0) and eventually(a>0)',
        'out = eventually[0,1](a>0) and eventually[0,1](a>0)', 'out = G(a>0)', 'out = H(a>0)', 'out = H[1,2](a>0)',
        'out = O(a>0)', 'out = O[1,2](a>0)', 'out = X(a>0)', 'out = sX(a>0)', 'out = Y(a>0)', 'out = sY(a>0)',
        'out = a + b - c * a / b >= -1', 'out = a - -b >= 1', 'out = a + -b >= 1', 'out = a -- b >= 1',
        'out = a +- b >= 1', 'out = abs(a) + sqrt(b) + exp(c) + pow(a,b) + log(a,b) + ln(c) >= 0',
        'out = a < 1', 'out = a <= 1', 'out = a > 1', 'out = a >= 1', 'out = a == 1', 'out = a !== 1', 'out = a != 1',
        'out = a = 1', 'out = 1 >= 1', 'out = k1 >= k2', 'out = k1', 'out = a', 'out = 3', 'a', 'out = out',
        'p = a>1; out = p and p', 'p = a>1; q = p or (b<1); out = q -> p', 'p = a>1; p = b>1; out = p',
        'out = a>1; out = b>1', 'a>1; b>1', 'a = b>1', 'a = b>1; out = a', 'x.y = a>1', 'x.y = a>1; out = x.y',
        'out = u > 1', 'out = u.v > 1', 'out = a.v > 1', 'out = a. > 1', 'out = a.. > 1', 'out.v = a > 1',
        'out. = a > 1', 'w.v.z = a > 1', 'out = m.x > 1', 'out = m.n > 1', 'out = m.inner.v > 1', 'out = m.s > 1',
        'out = m.q > 1', 'out = m.inner.label > 1', 'out = m > 1', 'out = m.z > 1', 'm.x = a > 1', 'm.s = a > 1',
        'm.q = a > 1', 'm = a > 1', 'm.inner.k = a > 1', 'm.inner = a>1', 'out = z > 1', 'z = a > 1', 'out = $x > a/b',
        'float d\n out = d > a', 'input float d\n output float e\n e = d > a', 'int d\n complex e\n out = d > a',
        'complex e\n out = e > a', 'long d\n out = d > 1', 'Pt d\n out = d.x > 1', 'Qt d\n out = d.x > 1',
        'from twin_types import Inner\n Inner d\n out = d.v > d.k', 'from no_such_module import X\n out = a>1',
        'from twin_types import NeedsArg\n NeedsArg d\n out = a>1', 'from twin_types import Missing\n Missing d\n out = a>1',
        'const float k9 = 3\n out = a > k9', 'const int k9 = 0x10\n out = always[0,k9](a > k9)',
        'const float k1 = 3\n out = a > k1', 'const float a = 3\n out = a > 1', 'float k1\n out = k1 > 1',
        'const float k8 = 1.5\n const float k8 = 2\n out = a>k8', 'float d = 3\n out = d > 1',
        'specification spc\n out = a>1', 'specification\n out = a>1', '@ topic(a, t1)\n out = a>1',
        '@ topic(zz, t1)\n out = a>1', 'float a\n float a\n out = a>1', 'input int a\n out = a>1',
        'out = rise(a>1) or fall(a>1)', 'out = not(a>1) xor !(b<1)', 'out = (a>1) iff (b<1)', 'out = (a>1) <-> (b<1)',
        'out = ((a>1))', 'out = -a > -1', 'out = -(a+b) > -(1)', 'out = 1__0 > a', 'out = 0x1_F > a', 'out = 0b1_0 > a',
        'out = 1e400 > a', 'out = 00 > a', 'out = 1.5e+2 > a', u'out = a > 1  ', 'out = a > 1 ;;', 'out = a > 1 ; ;',
        'out = a > 1 ; // c ;', 'out = a > 1 ; b', 'out = always[0,1 ps](a>1)', 'out = always[0 s, 1 s](a>1)',
        'out = always [0,1] (a>1)', 'out = always[ 0 , 1 ](a>1)', 'out = always[0;1](a>1)', 'out = always[a,1](a>1)',
        'out = always[0,m.x](a>1)', 'out = always[-1,1](a>1)',
    ]
    for unit in [None, 'ms']:
        for i, text in enumerate(texts):
            emit('T', i, 'unit=' + canon(unit), repr(text))
            for kind in ('stl', 'ltl'):
                if kind == 'ltl' and unit is not None:
                    continue
                ast = StlAst() if kind == 'stl' else LtlAst()
                run('  ' + kind + ' declare a', lambda: ast.declare_var('a', 'float'))
                run('  ' + kind + ' declare b', lambda: ast.declare_var('b', 'int'))
                run('  ' + kind + ' declare c', lambda: ast.declare_var('c', 'float'))
                run('  ' + kind + ' import', lambda: ast.import_module('twin_types', 'Pt'))
                run('  ' + kind + ' declare m', lambda: ast.declare_var('m', 'Pt'))
                run('  ' + kind + ' io a', lambda: ast.set_var_io_type('a', 'input'))
                run('  ' + kind + ' const k1', lambda: ast.declare_const('k1', 'int', '1'))
                run('  ' + kind + ' const k2', lambda: ast.declare_const('k2', 'float', '2000'))
                run('  ' + kind + ' const kf', lambda: ast.declare_const('kf', 'float', 0.5))
                if unit is not None:
                    ast.unit = unit
                ast.spec = text
                run('  ' + kind + ' parse', ast.parse)
                dump_ast(ast, kind.upper())
                if i % 7 == 0:
                    run('  ' + kind + ' parse again', ast.parse)
                    dump_ast(ast, kind.upper() + '-again')


def targeted_api_cases():
    emit('TARGETED API')
    # parse without specification text / with modular sub specs
    ast = StlAst()
    run('parse None', ast.parse)
    ast.add_sub_spec('p = a > 1;')
    ast.add_sub_spec('q = p and (b < 2)')
    run('parse None with sub', ast.parse)
    ast.spec = 'out = q or p'
    run('parse with sub (second lacks ;)', ast.parse)
    dump_ast(ast)
    ast = StlAst()
    ast.add_sub_spec('p = a > 1;')
    ast.add_sub_spec('q = p and (b < 2);')
    ast.spec = 'out = always[0,1](q or p)'
    run('parse with sub', ast.parse)
    dump_ast(ast)
    run('parse with sub again', ast.parse)
    dump_ast(ast)
    ast.spec = 5
    run('parse int text', ast.parse)
    ast.spec = b'out = a > 1'
    run('parse bytes text', ast.parse)

    # a declaration that failed half-way leaves a type but no object behind
    for text in ['w = a > 1', 'out = w > 1', 'w.f = a > 1', 'out = w.f > 1', 'w = a > 1; out = w and w']:
        for wtype in ['Unknown', 'NeedsArg', 'complex', 'int']:
            ast = StlAst()
            run('half-declared import', lambda: ast.import_module('twin_types', 'NeedsArg'))
            run('half-declared w ' + wtype, lambda: ast.declare_var('w', wtype))
            ast.spec = text
            run('half-declared parse ' + repr(text), ast.parse)
            dump_ast(ast)
            run('half-declared parse again', ast.parse)
            dump_ast(ast)

    # default units the table of units does not know
    for unit in ['min', '', None, 'S', 'ms', 5]:
        for text in ['out = always[1,2](a>1)', 'out = always[1s,2](a>1)', 'out = always[1,2ms](a>1)',
                     'out = always[1s,2ms](a>1)', 'out = always[2ms,1s](a>1)', 'out = always[3,2](a>1)', 'out = always(a>1)']:
            ast = StlAst()
            ast.unit = unit
            ast.spec = text
            run('unit %s %r' % (canon(unit), text), ast.parse)
            emit('  specs', canon([x.name for x in ast.specs]))

    # last_token
    ast = StlAst()
    for text in ['', ' ', ';', 'a;', 'a; ', 'a // c', 'a /* c */', 'a;// c', 'a b  c', 'a//b', 'x = 1;\n', '\n\n', '#',
                 'a # b', '"', 'a ;;', '/* open', 'out = a>1 /* ; */ ;', '0x1F', '1__0;', u'a  ', 5, None]:
        def f():
            tok = ast.last_token(text)
            return None if tok is None else [tok.text, tok.type, tok.start, tok.stop, tok.line, tok.column]
        run('last_token ' + canon(text), f)

    # lexer / parser / listener type checks
    class NotALexer(object):
        def __init__(self, stream):
            pass

    class NotAParser(object):
        def __init__(self, stream):
            pass

    class NotAListener(object):
        pass

    from rtamt.antlr.parser.stl.LtlLexer import LtlLexer
    from rtamt.antlr.parser.stl.StlParser import StlParser
    from rtamt.antlr.parser.stl.error.parser_error_listener import STLParserErrorListener
    from rtamt.syntax.ast.parser.abstract_ast_parser import ast_factory
    from rtamt.syntax.ast.parser.stl.parser_visitor import StlAstParserVisitor
    Ast = ast_factory(StlAstParserVisitor)
    for lx, ps, ls in [(NotALexer, StlParser, STLParserErrorListener), (LtlLexer, NotAParser, STLParserErrorListener),
                       (LtlLexer, StlParser, NotAListener), (LtlLexer, StlParser, None), (LtlLexer, StlParser, STLParserErrorListener),
                       (NotALexer, NotAParser, None)]:
        for text in ['out = a > 1', 'out = a > ', 'out = a > 1;', '', 'out = a # 1']:
            ast = Ast(lx, ps, ls)
            ast.spec = text
            label = 'types %s %s %s %r' % (lx.__name__, ps.__name__, getattr(ls, '__name__', None), text)
            run(label + ' last_token', lambda: getattr(ast.last_token(text), 'text', None))
            run(label + ' parse', ast.parse)
            emit('  specs', canon([s.name for s in ast.specs]), canon(ast.vars))

    # str_to_op_type
    ast = StlAst()
    for s in ['<', '<=', '>=', '>', '==', '!==', '!=', '', '=', '=<', ' <', '<>', 'LESS', u'<', u'≤']:
        run('str_to_op_type ' + canon(s), lambda: repr(ast.str_to_op_type(s)))

    # literal conversions
    for s in ['0', '1', '1.5', '.5', '3.', '1e3', '1E-3', '0x1F', '0X1f', '0b101', '1_0', '1__0', '0x1__F', '00', '007', '1e400',
              '-1', '+1', ' 1 ', 'abc', '', '0x', '1_', '_1', 'nan', 'inf', '-inf', 'Infinity', '1.5.5', 0.1, 1, 2.5, True, None,
              '0.1', '1000000000000000000000', '0b2']:
        run('literal_to_float ' + canon(s), lambda: ast.literal_to_float(s))
        run('literal_to_fraction ' + canon(s), lambda: ast.literal_to_fraction(s))

    # create_var_from_name / declare_var / declare_const / io / topic
    ast = StlAst()
    run('import Pt', lambda: ast.import_module('twin_types', 'Pt'))
    run('import Inner', lambda: ast.import_module('twin_types', 'Inner'))
    run('import NeedsArg', lambda: ast.import_module('twin_types', 'NeedsArg'))
    run('import RaisesKey', lambda: ast.import_module('twin_types', 'RaisesKey'))
    run('import RaisesAttr', lambda: ast.import_module('twin_types', 'RaisesAttr'))
    run('import RaisesValue', lambda: ast.import_module('twin_types', 'RaisesValue'))
    run('import NotCallable', lambda: ast.import_module('twin_types', 'NotCallable'))
    run('import Missing', lambda: ast.import_module('twin_types', 'Missing'))
    run('import float', lambda: ast.import_module('twin_types', 'float'))
    run('import bad module', lambda: ast.import_module('no.such.module', 'X'))
    run('import empty module', lambda: ast.import_module('', 'X'))
    types = ['float', 'int', 'complex', 'long', 'bool', 'str', 'Float', ' float', 'float ', '', 'Pt', 'Inner', 'NeedsArg',
             'RaisesKey', 'RaisesAttr', 'RaisesValue', 'NotCallable', 'Missing', 'Unknown', u'float', u'flöat', u'\ud800',
             b'float', 5, None, 1.5, ('float',), ['float']]
    for i, t in enumerate(types):
        name = 'v%d' % i
        run('declare_var %s %s' % (name, canon(t)), lambda: ast.declare_var(name, t))
        run('  create_var_from_name', lambda: ast.create_var_from_name(name))
        emit('  state', canon(ast.vars), canon(ast.free_vars), canon(ast.var_type_dict), canon(ast.var_object_dict),
             canon(ast.var_io_dict), canon(ast.var_topic_dict))
    run('create_var_from_name undeclared', lambda: ast.create_var_from_name('nope'))
    run('create_var_from_name None', lambda: ast.create_var_from_name(None))
    run('declare_var again', lambda: ast.declare_var('v0', 'int'))
    run('declare_var again same', lambda: ast.declare_var('v0', 'int'))
    emit('  state', canon(ast.var_type_dict['v0']), canon(ast.var_object_dict['v0']))
    run('declare_const k', lambda: ast.declare_const('k', 'float', '1'))
    run('declare_const k again', lambda: ast.declare_const('k', 'int', '2'))
    run('declare_const v0', lambda: ast.declare_const('v0', 'int', '2'))
    run('declare_var k', lambda: ast.declare_var('k', 'float'))
    emit('  state', canon(ast.vars), canon(ast.const_type_dict), canon(ast.const_val_dict), canon(ast.var_type_dict.get('k')))
    for v, io in [('v0', 'input'), ('v0', 'input'), ('v0', 'output'), ('v1', 'output'), ('v1', 'input'), ('v2', 'undefined'),
                  ('v2', 'input'), ('v2', 'whatever'), ('v1', None), ('v1', 'Input'), ('v1', u'input'), ('zz', 'input'),
                  ('k', 'input'), ('v0', ''), ('v0', 5), ('v1', 'output'), ('v1', 'output')]:
        run('set_var_io_type %s %s' % (v, canon(io)), lambda: ast.set_var_io_type(v, io))
        emit('  state in=' + canon(ast.in_vars), 'out=' + canon(ast.out_vars), 'io=' + canon(ast.var_io_dict))
    for v, t in [('v0', 't0'), ('zz', 't1'), ('k', 't2'), ('v0', ''), ('v0', None)]:
        run('set_var_topic %s %s' % (v, canon(t)), lambda: ast.set_var_topic(v, t))
        emit('  topics=' + canon(ast.var_topic_dict))
    run('get_value missing', lambda: ast.get_value('x'))

    # node constructors
    emit('NODES')
    for var in ['a', 'a.b', '', 'x']:
        for field in [None, '', 'f', 'f.g']:
            for io in ['input', 'output', 'undefined', None, '', 'Input']:
                def mk():
                    n = Variable(var, field, io)
                    return [n.name, n.var, n.field, n.io_type, n.in_vars, n.out_vars, n.children, n.node, n.interpreter,
                            repr(n), n.in_vars is n.out_vars]
                run('Variable %s %s %s' % (canon(var), canon(field), canon(io)), mk)
    run('Variable default', lambda: (lambda n: [n.name, n.field, n.io_type, n.in_vars, n.out_vars])(Variable('q')))
    run('Variable default field', lambda: (lambda n: [n.name, n.field, n.io_type, n.in_vars, n.out_vars])(Variable('q', 'w')))
    run('Variable int', lambda: (lambda n: [n.name, n.field, n.io_type, n.in_vars, n.out_vars])(Variable(5)))
    run('Variable int field', lambda: (lambda n: [n.name, n.field])(Variable(5, 'f')))
    run('Variable str intfield', lambda: (lambda n: [n.name, n.field])(Variable('a', 5)))
    for val in [0, 1, -1, 0.0, -0.0, 1.5, 1e300, float('inf'), 'x', None, Fraction(1, 2)]:
        run('Constant ' + canon(val), lambda: (lambda n: [n.name, n.val, n.in_vars, n.out_vars, n.children])(Constant(val)))
    va = Variable('a', '', 'input')
    vb = Variable('b', 'f', 'output')
    vc = Variable('c', None, 'undefined')
    emit('tree')
    for mk in [lambda: Neg(va), lambda: Abs(vb), lambda: Always(va), lambda: Addition(va, vb), lambda: Conjunction(va, vb),
               lambda: Until(va, vc), lambda: Predicate(va, vb, StlComparisonOperator.LEQ),
               lambda: Predicate(Addition(va, vb), Constant(2.0), StlComparisonOperator.NEQ),
               lambda: TimedAlways(va, Interval(0, 2, '', 'ms')), lambda: TimedEventually(Neg(va), Interval(Fraction(1, 2), 3)),
               lambda: TimedOnce(vb, Interval(1, 1, 's', 's')), lambda: TimedHistorically(vb, Interval(0, 0)),
               lambda: TimedSince(va, vb, Interval(1, 2, 'us', '')), lambda: TimedUntil(va, vb, Interval(0, Fraction(5), '', '')),
               lambda: TimedPrecedes(va, vc, Interval(2, 3, 'ns', 'ns')),
               lambda: TimedUntil(TimedAlways(va, Interval(0, 1)), Conjunction(vb, Neg(vc)), Interval(1, 2))]:
        n, err = run('mk', mk)
        if n is not None:
            dump_node(n)


def main():
    rng = random.Random(20240911)
    targeted_api_cases()
    targeted_text_cases()
    for i in range(260):
        cfg = random_small_cfg(rng)
        discrete_round(rng, i, cfg)
    for i in range(120):
        cfg = random_small_cfg(rng, past_only=(i % 3 == 0), future_only=(i % 3 == 1))
        dense_round(rng, i, cfg)
    for i in range(120):
        cfg = random_cfg(rng, timed=False)
        ltl_round(rng, i, cfg)
    for i in range(80):
        cfg = random_small_cfg(rng, past_only=True)
        discrete_round(rng, 1000 + i, cfg)
    emit('DONE')


if __name__ == '__main__':
    main()
