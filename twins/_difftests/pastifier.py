# Differential test for the pastifier area (rtamt/pastifier/** and the pastify() drivers).
#
# usage:  cd <tree> && PYTHONPATH=<tree> /venv/bin/python twins/diff_test.py > out.txt
#
# Deterministic (seeded).  Every result and every exception type is printed in a canonical text
# form; behaviour is preserved iff the output is byte-identical on the clean and the patched tree.
import logging
import random
import re
import sys
from decimal import Decimal
from fractions import Fraction

logging.disable(logging.CRITICAL)

import rtamt
from rtamt.semantics.interval.interval import Interval
from rtamt.syntax.ast.parser.stl.specification_parser import StlAst
from rtamt.syntax.ast.parser.ltl.specification_parser import LtlAst
from rtamt.pastifier.stl.pastifier import StlPastifier
from rtamt.pastifier.ltl.pastifier import LtlPastifier
from rtamt.pastifier.stl.horizon import StlHorizon, bounds_in_default_unit, period_in_default_unit
from rtamt.pastifier.ltl.horizon import LtlHorizon
from rtamt.syntax.node.ltl.variable import Variable
from rtamt.syntax.node.ltl.constant import Constant
from rtamt.syntax.node.ltl.previous import Previous
from rtamt.syntax.node.ltl.next import Next
from rtamt.syntax.node.ltl.strong_next import StrongNext
from rtamt.syntax.node.ltl.conjunction import Conjunction
from rtamt.syntax.node.ltl.predicate import Predicate
from rtamt.syntax.node.arithmetic.addition import Addition
from rtamt.syntax.node.stl.timed_once import TimedOnce
from rtamt.syntax.node.stl.timed_always import TimedAlways
from rtamt.syntax.node.stl.timed_eventually import TimedEventually
from rtamt.syntax.node.stl.timed_until import TimedUntil
from rtamt.syntax.node.stl.timed_since import TimedSince
from rtamt.syntax.node.stl.timed_historically import TimedHistorically
from rtamt.syntax.node.stl.timed_precedes import TimedPrecedes

OUT = sys.stdout
VARS = ['a', 'b', 'c']
UNITS = ['', 's', 'ms', 'us', 'ns']


def emit(*parts):
    OUT.write(' '.join(str(p) for p in parts) + '\n')


def canon(x):
    # canonical text of a value, type included
    if isinstance(x, bool):
        return 'bool:' + repr(x)
    if isinstance(x, int):
        return 'int:' + repr(x)
    if isinstance(x, float):
        return 'float:' + repr(x)
    if isinstance(x, Fraction):
        return 'Fraction:%d/%d' % (x.numerator, x.denominator)
    if isinstance(x, Decimal):
        return 'Decimal:' + str(x)
    if isinstance(x, str):
        return 'str:' + repr(x)
    if x is None:
        return 'None'
    if isinstance(x, (list, tuple)):
        return type(x).__name__ + '[' + ', '.join(canon(e) for e in x) + ']'
    if isinstance(x, dict):
        return 'dict{' + ', '.join(canon(k) + ': ' + canon(v) for k, v in x.items()) + '}'
    if hasattr(x, 'children') and hasattr(x, 'name'):
        return 'node<' + x.__class__.__name__ + ':' + x.name + '>'
    return type(x).__name__ + ':' + repr(x)


def attempt(label, fn):
    try:
        out = fn()
    except BaseException as e:   # every exception type is part of the behaviour
        if isinstance(e, (KeyboardInterrupt, SystemExit)):
            raise
        msg = re.sub(r'0x[0-9a-fA-F]+', '0x?', str(e)).replace('\n', ' ')
        emit(label, 'EXC', type(e).__name__, msg[:300])
        return None, e
    return out, None


def dump(node, ids=None, depth=0, lines=None):
    # structural dump of a tree/DAG of nodes: class, name, bounds (value and type), units,
    # leaf attributes, and a sharing index (order of first encounter)
    if ids is None:
        ids = {}
    if lines is None:
        lines = []
    first = id(node) not in ids
    if first:
        ids[id(node)] = len(ids)
    attrs = []
    for a in ('begin', 'end', 'begin_unit', 'end_unit', 'operator', 'val', 'var', 'field', 'io_type'):
        if hasattr(node, a):
            try:
                attrs.append(a + '=' + canon(getattr(node, a)))
            except Exception as e:
                attrs.append(a + '=EXC ' + type(e).__name__)
    lines.append('  ' * depth + '#%d %s name=%r in=%r out=%r %s%s' % (
        ids[id(node)], node.__class__.__name__, node.name, list(node.in_vars), list(node.out_vars),
        ' '.join(attrs), '' if first else ' (shared)'))
    if first:
        for ch in node.children:
            dump(ch, ids, depth + 1, lines)
    return lines


def dump_ast(label, ast):
    ids = {}
    emit(label, 'nspecs', len(ast.specs))
    for i, s in enumerate(ast.specs):
        for ln in dump(s, ids):
            emit(label, 'spec%d' % i, ln)
    for k, v in ast.phi_name_to_node_dict.items():
        emit(label, 'phi', repr(k), '->', '#%s' % ids.get(id(v), '?'), v.__class__.__name__, repr(v.name))
    emit(label, 'out_var', repr(ast.out_var), repr(ast.out_var_field), 'free', sorted(ast.free_vars))


# ----------------------------------------------------------------------------------------------
# random formulas
# ----------------------------------------------------------------------------------------------
def lit(rng):
    return rng.choice(['0', '1', '2', '3', '0.5', '1.5', '-1', '2.0', '10', '0.0'])


def bound_pair(rng, style):
    # (begin, end) as strings; style selects the family of numbers
    if style == 'int':
        b = rng.choice([0, 0, 0, 1, 2, 3])
        e = b + rng.choice([0, 0, 1, 2, 3, 5])
        return str(b), str(e)
    if style == 'half':
        b = rng.choice([0, 1, 2, 3]) * Fraction(1, 2)
        e = b + rng.choice([0, 1, 2, 3, 4]) * Fraction(1, 2)
        return str(float(b)), str(float(e))
    if style == 'big':
        b = rng.choice([0, 100, 500, 1000])
        e = b + rng.choice([0, 100, 500, 1000, 1500, 2000])
        return str(b), str(e)
    b = rng.choice([0, 1, 2]) * Fraction(1, 10)
    e = b + rng.choice([0, 1, 2, 5]) * Fraction(1, 10)
    return str(float(b)), str(float(e))


def interval(rng, cfg):
    b, e = bound_pair(rng, cfg['bstyle'])
    mode = rng.random()
    if mode < cfg['p_unit']:
        u = rng.choice(cfg['units'])
        which = rng.choice(['both', 'begin', 'end'])
        bu = u if which in ('both', 'begin') else ''
        eu = u if which in ('both', 'end') else ''
    else:
        bu = eu = ''
    sep = rng.choice([',', ':'])
    return '[%s%s%s%s%s]' % (b, bu, sep, e, eu)


def arith(rng, cfg, depth):
    if depth <= 0 or rng.random() < 0.3:
        if rng.random() < 0.7:
            return rng.choice(cfg['vars'])
        return lit(rng)
    k = rng.choice(['add', 'sub', 'mul', 'div', 'abs', 'sqrt', 'exp', 'pow', 'log', 'ln', 'neg',
                    'prev', 'next', 'once', 'ev', 'paren'])
    if k == 'prev' and cfg.get('dense'):
        k = 'next'
    if k in ('add', 'sub', 'mul', 'div'):
        op = {'add': '+', 'sub': '-', 'mul': '*', 'div': '/'}[k]
        return '(%s %s %s)' % (arith(rng, cfg, depth - 1), op, arith(rng, cfg, depth - 1))
    if k in ('abs', 'sqrt', 'exp', 'ln'):
        return '%s(%s)' % (k, arith(rng, cfg, depth - 1))
    if k in ('pow', 'log'):
        return '%s(%s, %s)' % (k, arith(rng, cfg, depth - 1), arith(rng, cfg, depth - 1))
    if k == 'neg':
        return '(- %s)' % arith(rng, cfg, depth - 1)
    if k == 'prev':
        return '(prev %s)' % arith(rng, cfg, depth - 1)
    if k == 'next':
        return '(%s %s)' % (rng.choice(['next', 'X', 's_next']), arith(rng, cfg, depth - 1))
    if k == 'once' and cfg['timed']:
        return '(once%s %s)' % (interval(rng, cfg), arith(rng, cfg, depth - 1))
    if k == 'ev' and cfg['timed']:
        return '(eventually%s %s)' % (interval(rng, cfg), arith(rng, cfg, depth - 1))
    return '(%s)' % arith(rng, cfg, depth - 1)


def boolean(rng, cfg, depth):
    if depth <= 0 or rng.random() < 0.15:
        if cfg['subs'] and rng.random() < 0.35:
            return rng.choice(cfg['subs'])
        op = rng.choice(['<=', '>=', '<', '>', '==', '!=='])
        return '(%s %s %s)' % (arith(rng, cfg, min(depth, 2)), op, arith(rng, cfg, min(depth, 1)))
    kinds = ['not', 'and', 'or', 'implies', 'iff', 'xor', 'rise', 'fall', 'prev', 's_prev', 'next', 's_next',
             'once', 'hist', 'since']
    if cfg['timed']:
        kinds += ['t_always', 't_ev', 't_until', 't_unless', 't_once', 't_hist', 't_since'] * 2
    if cfg.get('dense'):
        kinds = [x for x in kinds if x not in ('rise', 'fall', 'prev', 's_prev', 't_until', 't_unless')]
    if rng.random() < cfg['p_unbounded']:
        kinds = ['always', 'ev', 'until', 'unless']
    k = rng.choice(kinds)
    sub = lambda: boolean(rng, cfg, depth - 1)
    if k == 'not':
        return '(%s %s)' % (rng.choice(['not', '!']), sub())
    if k in ('and', 'or', 'implies', 'iff', 'xor'):
        op = {'and': ['and', '&'], 'or': ['or', '|'], 'implies': ['implies', '->'], 'iff': ['iff', '<->'],
              'xor': ['xor']}[k]
        return '(%s %s %s)' % (sub(), rng.choice(op), sub())
    if k in ('rise', 'fall'):
        return '%s(%s)' % (k, sub())
    if k in ('prev', 's_prev', 'next', 's_next'):
        return '(%s %s)' % (k, sub())
    if k == 'once':
        return '(once %s)' % sub()
    if k == 'hist':
        return '(historically %s)' % sub()
    if k == 'since':
        return '(%s since %s)' % (sub(), sub())
    if k == 'always':
        return '(always %s)' % sub()
    if k == 'ev':
        return '(eventually %s)' % sub()
    if k == 'until':
        return '(%s until %s)' % (sub(), sub())
    if k == 'unless':
        return '(%s unless %s)' % (sub(), sub())
    iv = interval(rng, cfg)
    if k == 't_always':
        return '(%s%s %s)' % (rng.choice(['always', 'G']), iv, sub())
    if k == 't_ev':
        return '(%s%s %s)' % (rng.choice(['eventually', 'F']), iv, sub())
    if k == 't_until':
        return '(%s until%s %s)' % (sub(), iv, sub())
    if k == 't_unless':
        return '(%s unless%s %s)' % (sub(), iv, sub())
    if k == 't_once':
        return '(once%s %s)' % (iv, sub())
    if k == 't_hist':
        return '(historically%s %s)' % (iv, sub())
    return '(%s since%s %s)' % (sub(), iv, sub())


def make_spec_text(rng, cfg):
    # one to three assertions; later ones may refer to earlier ones by name (shared sub-formulas)
    n = rng.choice([1, 1, 1, 2, 3])
    cfg = dict(cfg)
    cfg['subs'] = []
    lines = []
    names = []
    for i in range(n):
        last = i == n - 1
        name = 'out' if last else 'p%d' % i
        depth = rng.choice([0, 1, 2, 3, 3, 4])
        body = boolean(rng, cfg, depth) if rng.random() < 0.9 else arith(rng, cfg, depth)
        if last and rng.random() < 0.1:
            lines.append(body)       # implicit name
        else:
            lines.append('%s = %s' % (name, body))
        names.append(name)
        cfg['subs'] = names[:-1] if last else list(names)
        if not last:
            cfg['subs'] = list(names)
    return ';\n'.join(lines), names


PERIODS = [(1, 's'), (1, 's'), (2, 's'), (500, 'ms'), (100, 'ms'), (0.1, 's'), (0.5, 's'), (1, 'ms'),
           (250, 'us'), (3, 's'), (1000000, 'ns')]


def random_cfg(rng):
    bstyle = rng.choice(['int', 'int', 'int', 'half', 'big', 'tenth'])
    return {
        'vars': VARS,
        'timed': True,
        'bstyle': bstyle,
        'p_unit': rng.choice([0.0, 0.3, 0.7, 1.0]),
        'units': rng.choice([['s'], ['ms'], ['s', 'ms'], ['s', 'ms', 'us', 'ns']]),
        'p_unbounded': rng.choice([0.0, 0.0, 0.0, 0.03]),
        'subs': [],
    }


def sample_value(rng):
    return rng.choice([0, 1, -1, 2, 3, 5, 0.0, 1.0, -1.0, 0.5, 1.5, -2.5, 2.0, 100, -100.0, 1e-3])


# ----------------------------------------------------------------------------------------------
# section A: StlPastifier / StlHorizon on parsed asts
# ----------------------------------------------------------------------------------------------
def section_ast(rng, count):
    for n in range(count):
        label = 'A%03d' % n
        cfg = random_cfg(rng)
        text, names = make_spec_text(rng, cfg)
        unit = rng.choice(['s', 's', 'ms', 'us', 'ns'])
        period, punit = rng.choice(PERIODS)
        emit(label, 'TEXT', repr(text), 'unit', unit, 'period', canon(period), punit)

        def build():
            ast = StlAst()
            for v in VARS:
                ast.declare_var(v, 'float')
            for nm in names:
                ast.declare_var(nm, 'float')
            ast.unit = unit
            ast.sampling_period = period
            ast.sampling_period_unit = punit
            ast.spec = text
            ast.parse()
            return ast

        ast, exc = attempt(label + ' parse', build)
        if exc is not None:
            continue
        # horizons, directly
        h = StlHorizon(ast)
        for i, s in enumerate(list(ast.specs)):
            val, exc = attempt(label + ' horizon%d' % i, lambda: h.visit(s, None))
            if exc is None:
                emit(label, 'horizon%d' % i, canon(val))
        emit(label, 'horizons', '; '.join('%s=%s' % (k.name, canon(v)) for k, v in h.horizons.items()))
        before = list(ast.specs)
        before_phi = dict(ast.phi_name_to_node_dict)
        p = StlPastifier()
        res, exc = attempt(label + ' pastify', lambda: p.pastify(ast))
        if exc is not None:
            emit(label, 'after-exc specs-same', ast.specs == before,
                 'phi-same', [(k, v is before_phi.get(k)) for k, v in ast.phi_name_to_node_dict.items()])
            emit(label, 'sub-horizons', len(p.subformula_horizons), 'node-horizons', len(p.node_horizons))
            continue
        emit(label, 'same-ast', res is ast)
        dump_ast(label, ast)
        emit(label, 'sub-horizons',
             '; '.join('%s=%s' % (k.name, canon(v)) for k, v in p.subformula_horizons.items()),
             'node-horizons', len(p.node_horizons))
        # pastify the result again (past-only input), with the same and with a fresh pastifier
        if rng.random() < 0.5:
            q = p if rng.random() < 0.5 else StlPastifier()
            res, exc = attempt(label + ' repastify', lambda: q.pastify(ast))
            if exc is None:
                dump_ast(label + ' re', ast)


# ----------------------------------------------------------------------------------------------
# section B: LtlPastifier / LtlHorizon directly (ltl asts, and stl asts without timed operators)
# ----------------------------------------------------------------------------------------------
def section_ltl(rng, count):
    for n in range(count):
        label = 'B%03d' % n
        cfg = random_cfg(rng)
        cfg['timed'] = False
        text, names = make_spec_text(rng, cfg)
        use_stl_ast = rng.random() < 0.3
        emit(label, 'TEXT', repr(text), 'stl-ast', use_stl_ast)

        def build():
            ast = StlAst() if use_stl_ast else LtlAst()
            for v in VARS:
                ast.declare_var(v, 'float')
            for nm in names:
                ast.declare_var(nm, 'float')
            ast.spec = text
            ast.parse()
            return ast

        ast, exc = attempt(label + ' parse', build)
        if exc is not None:
            continue
        h = LtlHorizon()
        for i, s in enumerate(list(ast.specs)):
            val, exc = attempt(label + ' horizon%d' % i, lambda: h.visit(s, None))
            if exc is None:
                emit(label, 'horizon%d' % i, canon(val))
        emit(label, 'horizons', '; '.join('%s=%s' % (k.name, canon(v)) for k, v in h.horizons.items()))
        p = LtlPastifier()
        res, exc = attempt(label + ' pastify', lambda: p.pastify(ast))
        if exc is not None:
            emit(label, 'sub-horizons', len(p.subformula_horizons))
            continue
        emit(label, 'same-ast', res is ast)
        dump_ast(label, ast)
        if rng.random() < 0.4:
            res, exc = attempt(label + ' repastify', lambda: p.pastify(ast))
            if exc is None:
                dump_ast(label + ' re', ast)


# ----------------------------------------------------------------------------------------------
# section C: the normalisers on hand-made intervals, and visitors called directly
# ----------------------------------------------------------------------------------------------
class FakeAst(object):
    def __init__(self, unit, period=1, punit='s'):
        self.U = {'s': 1000000000, 'ms': 1000000, 'us': 1000, 'ns': 1}
        self.unit = unit
        self.sampling_period = period
        self.sampling_period_unit = punit
        self.phi_name_to_node_dict = {}
        self.specs = []


def section_normalisers(rng):
    begins = [0, 1, 2, 5, Fraction(1, 2), Fraction(3, 10), Fraction(0), 0.5, 0.1, 2.0, Decimal('0.5'), True]
    units = ['', None, 's', 'ms', 'us', 'ns', 'xx']
    n = 0
    for unit in ['s', 'ms', 'us', 'ns', 'xx', '']:
        for bu in units:
            for eu in units:
                b = rng.choice(begins)
                e = rng.choice(begins)
                label = 'C%04d' % n
                n += 1
                iv = Interval(b, e, bu, eu)
                out, exc = attempt(label + ' bounds', lambda: bounds_in_default_unit(FakeAst(unit), iv))
                emit(label, 'bounds', canon(unit), canon(b), canon(bu), canon(e), canon(eu), '->',
                     canon(out) if exc is None else 'EXC')
    # with a real ast too
    for unit in ['s', 'ms', 'us', 'ns']:
        ast = StlAst()
        ast.unit = unit
        for bu in ['', 's', 'ms', 'us', 'ns']:
            for eu in ['', 's', 'ms', 'us', 'ns']:
                for (b, e) in [(0, 0), (1, 3), (Fraction(1, 2), Fraction(7, 2)), (Fraction(1, 3), 1000)]:
                    out, exc = attempt('C bounds', lambda: bounds_in_default_unit(ast, Interval(b, e, bu, eu)))
                    emit('C real', unit, canon(b), bu, canon(e), eu, '->', canon(out) if exc is None else 'EXC')
    periods = [1, 2, 500, 0.1, 0.5, 0.25, 1e-3, 3, Fraction(1, 3), Decimal('0.1'), 0, -1, True, 'x', None,
               float('inf'), float('nan')]
    for unit in ['s', 'ms', 'us', 'ns', 'xx']:
        for punit in ['s', 'ms', 'us', 'ns', 'yy']:
            for per in periods:
                out, exc = attempt('C period', lambda: period_in_default_unit(FakeAst(unit, per, punit)))
                emit('C period', unit, punit, canon(per), '->', canon(out) if exc is None else 'EXC')


def mk_leaf(rng):
    if rng.random() < 0.7:
        return Variable(rng.choice(VARS), '', 'output')
    return Constant(rng.choice([0, 1.0, 2.5, -1]))


def mk_tree(rng, depth, bounds):
    # hand-made trees: bounds of any numeric type, units of any combination, nodes that the parser
    # never produces at these places (TimedPrecedes, Interval(0, x) with int 0 ...)
    if depth <= 0 or rng.random() < 0.2:
        return mk_leaf(rng)
    k = rng.choice(['once', 'always', 'ev', 'until', 'since', 'hist', 'prec', 'prev', 'next', 'snext', 'and',
                    'pred', 'add'])
    b = rng.choice(bounds)
    e = b + rng.choice(bounds)
    u = rng.choice(['', 's', 'ms'])
    iv = Interval(b, e, rng.choice(['', u]), rng.choice(['', u]))
    c1 = mk_tree(rng, depth - 1, bounds)
    if k == 'once':
        return TimedOnce(c1, iv)
    if k == 'always':
        return TimedAlways(c1, iv)
    if k == 'ev':
        return TimedEventually(c1, iv)
    if k == 'hist':
        return TimedHistorically(c1, iv)
    if k == 'prev':
        return Previous(c1)
    if k == 'next':
        return Next(c1)
    if k == 'snext':
        return StrongNext(c1)
    c2 = mk_tree(rng, depth - 1, bounds) if rng.random() < 0.8 else c1
    if k == 'until':
        return TimedUntil(c1, c2, iv)
    if k == 'since':
        return TimedSince(c1, c2, iv)
    if k == 'prec':
        return TimedPrecedes(c1, c2, iv)
    if k == 'and':
        return Conjunction(c1, c2)
    if k == 'add':
        return Addition(c1, c2)
    return Predicate(c1, c2, rng.choice(list(StlAst().comp_op_mod.StlComparisonOperator)))


def section_handmade(rng, count):
    for n in range(count):
        label = 'D%03d' % n
        fam = rng.choice(['int', 'frac', 'mixed'])
        bounds = {'int': [0, 0, 1, 2, 3], 'frac': [Fraction(0), Fraction(1, 2), Fraction(1), Fraction(5, 2)],
                  'mixed': [0, 1, Fraction(1, 2), Fraction(2), 3]}[fam]
        unit = rng.choice(['s', 'ms'])
        period, punit = rng.choice(PERIODS)
        ast = StlAst()
        ast.unit = unit
        ast.sampling_period = period
        ast.sampling_period_unit = punit
        trees = [mk_tree(rng, rng.choice([1, 2, 3, 4]), bounds) for _ in range(rng.choice([0, 1, 1, 2]))]
        if trees and rng.random() < 0.2:
            trees.append(trees[0])          # the same specification listed twice
        ast.specs = list(trees)
        for i, t in enumerate(trees):
            ast.phi_name_to_node_dict['s%d' % i] = t
            ast.phi_name_to_node_dict[t.name] = t
            for ch in t.children:
                ast.phi_name_to_node_dict[ch.name] = ch
        emit(label, 'unit', unit, 'period', canon(period), punit, 'trees', [t.name for t in trees])
        h = StlHorizon(ast)
        for i, t in enumerate(trees):
            val, exc = attempt(label + ' horizon%d' % i, lambda: h.visit(t, None))
            if exc is None:
                emit(label, 'horizon%d' % i, canon(val))
        emit(label, 'horizons', '; '.join('%s=%s' % (k.name, canon(v)) for k, v in h.horizons.items()))
        p = StlPastifier()
        res, exc = attempt(label + ' pastify', lambda: p.pastify(ast))
        if exc is None:
            dump_ast(label, ast)
        # single visitor calls with an explicit remaining horizon (also one below the node's own)
        if trees:
            p2 = StlPastifier()
            p2.ast = ast
            ast2_specs = list(trees)
            h2 = StlHorizon(ast)
            for t in ast2_specs:
                attempt(label + ' h2', lambda: h2.visit(t, None))
            p2.subformula_horizons = h2.horizons
            for extra in [0, Fraction(1, 2), 3, Fraction(-1), -2]:
                t = rng.choice(ast2_specs)
                own = h2.horizons.get(t)
                if own is None:
                    continue
                out, exc = attempt(label + ' visit+%s' % canon(extra), lambda: p2.visit(t, own + extra))
                if exc is None:
                    for ln in dump(out):
                        emit(label, 'visit+%s' % canon(extra), ln)


def section_ltl_direct(rng, count):
    # LtlPastifier visitors with explicit horizons, including non-integers and negatives
    for n in range(count):
        label = 'E%03d' % n
        ast = LtlAst()
        for v in VARS:
            ast.declare_var(v, 'float')
        cfg = random_cfg(rng)
        cfg['timed'] = False
        cfg['p_unbounded'] = 0.0
        text = boolean(rng, cfg, rng.choice([0, 1, 2, 3]))
        ast.spec = 'out = ' + text
        _, exc = attempt(label + ' parse', ast.parse)
        if exc is not None:
            continue
        emit(label, 'TEXT', repr(text))
        top = ast.specs[0]
        h = LtlHorizon()
        own, exc = attempt(label + ' horizon', lambda: h.visit(top, None))
        if exc is not None:
            continue
        p = LtlPastifier()
        p.ast = ast
        p.subformula_horizons = h.horizons
        for extra in [0, 1, 2, 5, -1, Fraction(1, 2), 1.0, True, None, 'x']:
            def call():
                return p.visit(top, own + extra)
            out, exc = attempt(label + ' visit+%s' % canon(extra), call)
            if exc is None:
                emit(label, 'visit+%s' % canon(extra), out.__class__.__name__, repr(out.name))
        emit(label, 'phi', [(k, v.name) for k, v in ast.phi_name_to_node_dict.items()])


# ----------------------------------------------------------------------------------------------
# section F: the specification drivers; pastify, then monitor online (discrete and dense time)
# ----------------------------------------------------------------------------------------------
SEMS = [rtamt.Semantics.STANDARD, rtamt.Semantics.STANDARD, rtamt.Semantics.OUTPUT_ROBUSTNESS,
        rtamt.Semantics.INPUT_ROBUSTNESS, rtamt.Semantics.INPUT_VACUITY, rtamt.Semantics.OUTPUT_VACUITY]


def section_discrete(rng, count):
    for n in range(count):
        label = 'F%03d' % n
        cfg = random_cfg(rng)
        if rng.random() < 0.7:
            # bounds that are whole multiples of the period
            period, punit, unit, styles = rng.choice([
                (1, 's', 's', ['int']), (1, 's', 's', ['int']), (500, 'ms', 's', ['int', 'half']),
                (100, 'ms', 'ms', ['big']), (0.5, 's', 's', ['int', 'half']), (1, 'ms', 'ms', ['int']),
                (2, 's', 's', ['int']), (0.1, 's', 's', ['int', 'half', 'tenth'])])
            cfg['bstyle'] = rng.choice(styles)
            cfg['p_unit'] = 0.0
        else:
            # anything goes (windows kept below a few thousand samples): bounds that are no multiple
            # of the period, mixed units
            unit = rng.choice(['s', 'ms'])
            if unit == 's':
                period, punit = rng.choice([(1, 's'), (2, 's'), (3, 's'), (500, 'ms'), (100, 'ms'), (0.1, 's'),
                                            (0.5, 's')])
                cfg['bstyle'] = rng.choice(['int', 'half', 'tenth'])
                cfg['units'] = ['s']
            else:
                period, punit = rng.choice([(100, 'ms'), (500, 'ms'), (1, 'ms'), (250, 'us'), (1000000, 'ns')])
                cfg['bstyle'] = 'big' if (period, punit) in ((100, 'ms'), (500, 'ms')) else rng.choice(['int', 'half'])
                cfg['units'] = ['ms']
        text, names = make_spec_text(rng, cfg)
        sem = rng.choice(SEMS)
        emit(label, 'TEXT', repr(text), 'unit', unit, 'period', canon(period), punit, 'sem', sem)

        def build():
            spec = rtamt.StlDiscreteTimeSpecification(semantics=sem)
            for v in VARS:
                spec.declare_var(v, 'float')
            for nm in names:
                spec.declare_var(nm, 'float')
            spec.set_var_io_type('a', 'input')
            spec.set_var_io_type('b', rng.choice(['input', 'output']))
            spec.unit = unit
            spec.set_sampling_period(period, punit, 0.1)
            spec.spec = text
            spec.parse()
            return spec

        spec, exc = attempt(label + ' parse', build)
        if exc is not None:
            continue
        ast_before = spec.ast
        _, exc = attempt(label + ' pastify', spec.pastify)
        emit(label, 'ast-same', spec.ast is ast_before, 'names', [s.name for s in spec.ast.specs])
        if exc is not None:
            continue
        if rng.random() < 0.15:
            _, exc = attempt(label + ' pastify2', spec.pastify)
            emit(label, 'names2', [s.name for s in spec.ast.specs])
        length = rng.choice([1, 1, 2, 3, 5, 8, 12])
        equal = rng.random() < 0.2
        reset_at = rng.choice([None, None, 0, length // 2, length - 1])
        t = 0
        for i in range(length):
            if equal:
                data = [(v, 1) for v in VARS]
            else:
                data = [(v, sample_value(rng)) for v in VARS]
            out, exc = attempt(label + ' update%d' % i, lambda: spec.update(t, data))
            if exc is None:
                emit(label, 'update%d' % i, canon(out))
                for nm in names:
                    val, e2 = attempt(label + ' get_value ' + nm, lambda: spec.get_value(nm))
                    if e2 is None:
                        emit(label, 'get_value', nm, canon(val))
            t += 1
            if reset_at == i:
                attempt(label + ' reset', spec.reset)
                emit(label, 'reset')
                t = 0
        emit(label, 'violations', canon(spec.sampling_violation_counter))


def dense_signal(rng, start, k):
    t = start
    out = []
    for _ in range(k):
        out.append([t, sample_value(rng)])
        t = t + rng.choice([0.5, 1, 1.5, 2, 0.25, 3])
    return out, t


def section_dense(rng, count):
    for n in range(count):
        label = 'G%03d' % n
        cfg = random_cfg(rng)
        cfg['bstyle'] = rng.choice(['int', 'half', 'tenth'])
        # previous/rise/fall have no dense-time monitor: keep a few to see the exception
        cfg['dense'] = rng.random() < 0.8
        text, names = make_spec_text(rng, cfg)
        unit = rng.choice(['s', 's', 'ms'])
        sem = rng.choice(SEMS)
        emit(label, 'TEXT', repr(text), 'unit', unit, 'sem', sem)

        def build():
            spec = rtamt.StlDenseTimeSpecification(semantics=sem)
            for v in VARS:
                spec.declare_var(v, 'float')
            for nm in names:
                spec.declare_var(nm, 'float')
            spec.set_var_io_type('a', 'input')
            spec.unit = unit
            spec.spec = text
            spec.parse()
            return spec

        spec, exc = attempt(label + ' parse', build)
        if exc is not None:
            continue
        _, exc = attempt(label + ' pastify', spec.pastify)
        emit(label, 'names', [s.name for s in spec.ast.specs])
        if exc is not None:
            continue
        starts = {v: 0 for v in VARS}
        batches = rng.choice([1, 2, 3])
        reset_at = rng.choice([None, None, 0, 1])
        for bi in range(batches):
            args = []
            for v in VARS:
                k = rng.choice([0, 1, 2, 3, 5])
                sig, starts[v] = dense_signal(rng, starts[v], k)
                args.append([v, sig])
            out, exc = attempt(label + ' update%d' % bi, lambda: spec.update(*args))
            if exc is None:
                emit(label, 'update%d' % bi, canon(out))
            if reset_at == bi:
                attempt(label + ' reset', spec.reset)
                emit(label, 'reset')
                starts = {v: 0 for v in VARS}


def section_fixed():
    # hand-picked boundary cases through the public API
    cases = [
        ('out = always[0,0](a >= 1)', 's', 1, 's'),
        ('out = eventually[0,0](a >= 1)', 's', 1, 's'),
        ('out = (a >= 1) until[0,0] (b >= 1)', 's', 1, 's'),
        ('out = always[0,2](a >= 1)', 's', 1, 's'),
        ('out = always[2,2](a >= 1)', 's', 1, 's'),
        ('out = always[0,100](a >= 1)', 's', 1, 's'),
        ('out = eventually[1,3] always[0,2](a >= 1)', 's', 1, 's'),
        ('out = (always[0,2](a >= 1)) and (b >= 2)', 's', 1, 's'),
        ('out = (once[1,2](a >= 1)) and (eventually[0,3](b >= 2))', 's', 1, 's'),
        ('out = (historically[1,2](a >= 1)) or (eventually[0,3](b >= 2))', 's', 1, 's'),
        ('out = ((a >= 1) since[1,2] (b>=0)) or (eventually[0,3](b >= 2))', 's', 1, 's'),
        ('out = next next (a >= 1)', 's', 1, 's'),
        ('out = (next (a >= 1)) and (b >= 0)', 's', 500, 'ms'),
        ('out = (next (a >= 1)) and (b >= 0)', 'ms', 0.1, 's'),
        ('out = (s_next (a >= 1)) and prev (b >= 0)', 's', 1, 's'),
        ('out = always[0,1000ms](a >= 1)', 's', 500, 'ms'),
        ('out = always[0ms,1s](a >= 1) and b >= 0', 'ms', 500, 'ms'),
        ('out = always[500ms,1](a >= 1) and b >= 0', 's', 500, 'ms'),
        ('out = always[0,1s](a >= 1) and b >= 0', 'ms', 500, 'ms'),
        ('out = (a >= 1) unless[1,2] (b >= 1)', 's', 1, 's'),
        ('p = always[0,2](a >= 1);\nout = p and eventually[0,1] p', 's', 1, 's'),
        ('p = a + 1;\nq = eventually[0,1](p >= 2);\nout = q or (p >= 0)', 's', 1, 's'),
        ('out = always(a >= 1)', 's', 1, 's'),
        ('out = eventually(a >= 1)', 's', 1, 's'),
        ('out = (a>=1) until (b >= 1)', 's', 1, 's'),
        ('out = (b >= 0) and always(a >= 1)', 's', 1, 's'),
        ('p = eventually[0,1](a>=0);\nout = always(a >= 1)', 's', 1, 's'),
        ('out = a', 's', 1, 's'),
        ('out = 2', 's', 1, 's'),
        ('out = abs(next a) + sqrt(eventually[0,1] b) - exp(c) * pow(a, 2) / log(b, 10) + ln(c) >= -(a)', 's', 1, 's'),
        ('out = rise(next(a >= 1)) or fall(eventually[0,2](b >= 1))', 's', 1, 's'),
        ('out = (next(a >= 1)) xor ((b >= 1) iff (c >= 0)) -> not (a >= 2)', 's', 1, 's'),
        ('out = once (next (a >= 1)) and historically (b >= 1) and ((a>=0) since next (b>=0))', 's', 1, 's'),
    ]
    trace = [[3, 1, 0], [0, 2, 1], [1, 1, 1], [2.5, -1, 0.5], [1, 0, 3], [0, 0, 0], [-1, 4, 2], [1.0, 1, 1]]
    for ci, (text, unit, period, punit) in enumerate(cases):
        for kind in ('discrete', 'dense'):
            label = 'H%02d%s' % (ci, kind[:2])
            emit(label, 'TEXT', repr(text), unit, canon(period), punit)

            def build():
                if kind == 'discrete':
                    spec = rtamt.StlDiscreteTimeSpecification()
                    spec.set_sampling_period(period, punit, 0.1)
                else:
                    spec = rtamt.StlDenseTimeSpecification()
                for v in VARS + ['p', 'q', 'out']:
                    spec.declare_var(v, 'float')
                spec.unit = unit
                spec.spec = text
                spec.parse()
                return spec

            spec, exc = attempt(label + ' parse', build)
            if exc is not None:
                continue
            phi_before = list(spec.ast.phi_name_to_node_dict.items())
            _, exc = attempt(label + ' pastify', spec.pastify)
            if exc is not None:
                emit(label, 'phi-untouched', [(k, v is spec.ast.phi_name_to_node_dict.get(k)) for k, v in phi_before])
                continue
            dump_ast(label, spec.ast)
            for run in range(2):
                if kind == 'discrete':
                    for i, row in enumerate(trace[:(1 if ci % 5 == 4 else len(trace))]):
                        out, exc = attempt(label + ' update', lambda: spec.update(i, list(zip(VARS, row))))
                        if exc is None:
                            emit(label, 'run%d' % run, 'update%d' % i, canon(out))
                            for nm in ('p', 'q', 'out'):
                                val, e2 = attempt(label + ' get_value ' + nm, lambda: spec.get_value(nm))
                                if e2 is None:
                                    emit(label, 'get_value', nm, canon(val))
                else:
                    sigs = [[v, [[float(i), row[j]] for i, row in enumerate(trace)]] for j, v in enumerate(VARS)]
                    out, exc = attempt(label + ' update', lambda: spec.update(*sigs))
                    if exc is None:
                        emit(label, 'run%d' % run, 'update', canon(out))
                    out, exc = attempt(label + ' update-empty', lambda: spec.update(*[[v, []] for v in VARS]))
                    if exc is None:
                        emit(label, 'run%d' % run, 'update-empty', canon(out))
                attempt(label + ' reset', spec.reset)
    # drivers: specification without a pastifier, online-only specifications, offline explain
    spec = rtamt.StlDiscreteTimeOfflineSpecification()
    spec.declare_var('a', 'float')
    spec.spec = 'out = always[0,2](a >= 1)'
    spec.parse()
    attempt('H offline-pastify', lambda: spec.pastify())
    for ctor in (rtamt.StlDiscreteTimeOnlineSpecification, rtamt.StlDenseTimeOnlineSpecification):
        spec = ctor()
        spec.declare_var('a', 'float')
        spec.declare_var('b', 'float')
        spec.spec = 'out = (always[0,2](a >= 1)) and once[0,1](b <= 2)'
        spec.parse()
        attempt('H online-only pastify', spec.pastify)
        dump_ast('H online-only ' + ctor.__name__, spec.ast)
    for text in ['out = always[0,2](a >= 1)', 'out = (eventually[1,3](a >= 1)) or once[0,1ms](a <= 2)',
                 'out = (a >= 1) until[1,2] (a <= 2)']:
        for unit, period, punit in [('s', 1, 's'), ('ms', 500, 'ms'), ('s', 0.5, 's')]:
            spec = rtamt.StlDiscreteTimeOfflineSpecification()
            spec.declare_var('a', 'float')
            spec.unit = unit
            spec.set_sampling_period(period, punit, 0.1)
            spec.spec = text
            _, exc = attempt('H explain parse', spec.parse)
            if exc is not None:
                continue
            step = period * {'s': 1.0, 'ms': 1e-3}[punit]
            data = {'time': [i * step for i in range(6)], 'a': [2, 0, 1, 3, 1, 0]}
            out, exc = attempt('H explain evaluate', lambda: spec.evaluate(data))
            if exc is None:
                emit('H explain evaluate', repr(text), unit, canon(out))
            out, exc = attempt('H explain', spec.explain)
            if exc is None:
                expl = getattr(spec.explainer, 'explanations', None)
                if isinstance(expl, dict):
                    emit('H explain', repr(text), unit,
                         [(str(k), str(v)) for k, v in expl.items()])
                else:
                    emit('H explain', repr(text), unit, canon(out))


def main():
    section_fixed()
    section_normalisers(random.Random(101))
    section_ast(random.Random(202), 400)
    section_ltl(random.Random(303), 200)
    section_handmade(random.Random(404), 200)
    section_ltl_direct(random.Random(505), 120)
    section_discrete(random.Random(606), 300)
    section_dense(random.Random(707), 200)
    emit('DONE')


if __name__ == '__main__':
    main()
