"""Helper types for twins/diff_test.py (struct-typed specification variables)."""


class Inner(object):
    def __init__(self):
        self.v = float()
        self.k = int()
        self.label = ''


class Pt(object):
    def __init__(self):
        self.x = float()
        self.n = int()
        self.s = 'text'
        self.z = complex()
        self.inner = Inner()


class NeedsArg(object):
    def __init__(self, arg):
        self.arg = arg


class RaisesKey(object):
    def __init__(self):
        raise KeyError('boom')


class RaisesAttr(object):
    def __init__(self):
        raise AttributeError('no such thing')


class RaisesValue(object):
    def __init__(self):
        raise ValueError('bad value')


NotCallable = 42
