# -*- coding: utf-8 -*-
"""Differential test for the interface-aware (IA-STL) semantics of rtamt.

usage:  PYTHONPATH=<tree> /venv/bin/python twins/diff_test.py > out.txt

Deterministic (seeded).  Prints every result / exception type in a canonical
text form; behaviour is preserved iff the output is byte-identical.
"""
from __future__ import print_function

import logging
import random
import signal
import sys

logging.disable(logging.CRITICAL)

import rtamt
from rtamt import Semantics, Language

from rtamt.semantics.enumerations import comp_op as comp_op_mod
from rtamt.semantics.enumerations import comp_oper as comp_oper_mod

from rtamt.semantics.abstract_discrete_time_offline_interpreter import discrete_time_offline_interpreter_factory
from rtamt.semantics.abstract_dense_time_offline_interpreter import dense_time_offline_interpreter_factory
from rtamt.semantics.abstract_discrete_time_online_interpreter import discrete_time_online_interpreter_factory
from rtamt.semantics.abstract_dense_time_online_interpreter import dense_time_online_interpreter_factory

import rtamt.semantics.iastl.discrete_time.offline.ast_visitor as disc_off_vis
import rtamt.semantics.iastl.dense_time.offline.ast_visitor as dense_off_vis
import rtamt.semantics.iastl.discrete_time.online.ast_visitor as disc_on_vis
import rtamt.semantics.iastl.dense_time.online.ast_visitor as dense_on_vis
import rtamt.semantics.iastl.discrete_time.offline.interpreter as disc_off_int
import rtamt.semantics.iastl.dense_time.offline.interpreter as dense_off_int
import rtamt.semantics.iastl.discrete_time.online.interpreter as disc_on_int
import rtamt.semantics.iastl.dense_time.online.interpreter as dense_on_int
from rtamt.semantics.iastl.discrete_time.online.predicate_operation import PredicateOperation as DiscIAPred
from rtamt.semantics.iastl.dense_time.online.predicate_operation import PredicateOperation as DenseIAPred
from rtamt.semantics.stl.discrete_time.online.ast_visitor import StlDiscreteTimeOnlineAstVisitor
from rtamt.semantics.stl.dense_time.online.ast_visitor import StlDenseTimeOnlineAstVisitor
from rtamt.semantics.stl.discrete_time.offline.ast_visitor import StlDiscreteTimeOfflineAstVisitor
from rtamt.semantics.stl.dense_time.offline.ast_visitor import StlDenseTimeOfflineAstVisitor

import rtamt.spec.iastl.discrete_time.specification as ia_disc_spec
import rtamt.spec.iastl.dense_time.specification as ia_dense_spec
import rtamt.spec.stl.discrete_time.specification as stl_disc_spec
import rtamt.spec.stl.dense_time.specification as stl_dense_spec


# ---------------------------------------------------------------------------
# canonical printing
# ---------------------------------------------------------------------------
def canon(x):
    if isinstance(x, bool):
        return 'b:' + repr(x)
    if isinstance(x, int):
        return 'i:' + repr(x)
    if isinstance(x, float):
        return 'f:' + repr(x)
    if isinstance(x, (list, tuple)):
        o, c = ('[', ']') if isinstance(x, list) else ('(', ')')
        return o + ', '.join(canon(e) for e in x) + c
    if isinstance(x, dict):
        return '{' + ', '.join(sorted(canon(k) + ': ' + canon(v) for k, v in x.items())) + '}'
    if x is None:
        return 'None'
    if isinstance(x, str):
        return 's:' + repr(x)
    return type(x).__name__ + ':' + repr(x)


class Timeout(Exception):
    pass


def _alarm(signum, frame):
    raise Timeout()


signal.signal(signal.SIGALRM, _alarm)


def attempt(label, fn, *args, **kwargs):
    """run fn, print its canonical result or the exception type; return result or None"""
    signal.alarm(20)
    try:
        res = fn(*args, **kwargs)
        signal.alarm(0)
        print(label, '=>', canon(res))
        return res
    except Timeout:
        print(label, '=> TIMEOUT')
    except BaseException as e:  # noqa
        signal.alarm(0)
        if isinstance(e, (KeyboardInterrupt, SystemExit)):
            raise
        print(label, '=> EXC', type(e).__name__)
    return None


# ---------------------------------------------------------------------------
# value pools
# ---------------------------------------------------------------------------
VALS = [0, 0.0, -0.0, 1, -1, 2, -2, 3, 1.0, -1.0, 0.5, -0.5, 2.5, -2.5, 3.0, 100, -100.25, 1e-9, -1e-9, 7]
OPS = ['<', '<=', '==', '!==', '>', '>=']
SEMS = [Semantics.STANDARD, Semantics.OUTPUT_ROBUSTNESS, Semantics.INPUT_ROBUSTNESS,
        Semantics.INPUT_VACUITY, Semantics.OUTPUT_VACUITY]
IA_SEMS = SEMS[1:]
IOS = ['input', 'output', 'undefined', None]


def rnd_val(rng):
    r = rng.random()
    if r < 0.75:
        return rng.choice(VALS)
    if r < 0.9:
        return rng.randint(-5, 5)
    return round(rng.uniform(-5, 5), 2)


# ---------------------------------------------------------------------------
# random formulas
# ---------------------------------------------------------------------------
def rnd_term(rng, vars_):
    r = rng.random()
    if r < 0.55:
        return rng.choice(vars_)
    if r < 0.75:
        return repr(rng.choice([0, 1, 2, 3, 0.5, 2.5, 100]))
    if r < 0.82:
        return '(%s + %s)' % (rng.choice(vars_), rng.choice(vars_))
    if r < 0.89:
        return '(%s - %s)' % (rng.choice(vars_), rng.choice(vars_))
    if r < 0.95:
        return 'abs(%s)' % rng.choice(vars_)
    return '(%s * 2)' % rng.choice(vars_)


def rnd_pred(rng, vars_):
    return '(%s %s %s)' % (rnd_term(rng, vars_), rng.choice(OPS), rnd_term(rng, vars_))


def rnd_bound(rng, dense):
    r = rng.random()
    if r < 0.25:
        return (0, 0)
    if r < 0.4:
        return (0, rng.choice([1, 2, 50]))
    lo = rng.choice([0, 1, 2])
    hi = lo + rng.choice([0, 1, 2, 3, 40])
    return (lo, hi)


def rnd_formula(rng, vars_, depth, kind, dense, cache):
    """kind: 'past', 'bfuture' (bounded future + past, pastifiable), 'future' (anything offline)"""
    if cache and rng.random() < 0.25:
        return rng.choice(cache)  # repeated sub-formula
    if depth <= 0 or rng.random() < 0.3:
        f = rnd_pred(rng, vars_)
        cache.append(f)
        return f
    r = rng.random()
    sub = lambda: rnd_formula(rng, vars_, depth - 1, kind, dense, cache)
    if r < 0.08:
        f = '(not %s)' % sub()
    elif r < 0.36:
        f = '(%s %s %s)' % (sub(), rng.choice(['and', 'or', 'implies', 'iff', 'xor']), sub())
    else:
        b = rnd_bound(rng, dense)
        past_un = ['once', 'historically']
        choices = []
        choices += [('u', 'once[%d,%d]' % b), ('u', 'historically[%d,%d]' % b), ('b', 'since[%d,%d]' % b)]
        choices += [('u', 'once'), ('u', 'historically'), ('b', 'since')]
        if not dense:
            choices += [('u', 'prev')]
        if kind in ('bfuture', 'future'):
            choices += [('u', 'always[%d,%d]' % b), ('u', 'eventually[%d,%d]' % b), ('b', 'until[%d,%d]' % b)]
            if not dense:
                choices += [('u', 'next')]
        if kind == 'future':
            choices += [('u', 'always'), ('u', 'eventually'), ('b', 'until')]
        ar, op = rng.choice(choices)
        if kind == 'bfuture' and rng.random() < 0.5:
            # keep online specs mostly in one direction so that pastify works
            pass
        if ar == 'u':
            f = '(%s %s)' % (op, sub())
        else:
            f = '(%s %s %s)' % (sub(), op, sub())
    cache.append(f)
    return f


def make_spec(ctor, sem, ios, formula, rng=None, unit=None, period=None):
    if sem is None:
        spec = ctor()
    else:
        spec = ctor(semantics=sem)
    for v in ('a', 'b', 'c'):
        spec.declare_var(v, 'float')
    spec.declare_var('out', 'float')
    for v, io in zip(('a', 'b', 'c'), ios):
        if io is not None:
            spec.set_var_io_type(v, io)
    if unit is not None:
        spec.unit = unit
    if period is not None:
        spec.set_sampling_period(*period)
    spec.spec = 'out = ' + formula
    spec.parse()
    return spec


def predicate_results(spec):
    """values recorded for every predicate node (by name), canonical"""
    out = []
    try:
        res = spec.ast.results
    except Exception as e:  # noqa
        return 'EXC ' + type(e).__name__
    for k, v in res.items():
        name = getattr(k, 'name', None)
        if name is None:
            continue
        if type(k).__name__ == 'Predicate':
            out.append(name + ' -> ' + canon(v))
    return ' | '.join(sorted(out))


# ---------------------------------------------------------------------------
# traces
# ---------------------------------------------------------------------------
def disc_trace(rng, n=None, regular=True):
    if n is None:
        n = rng.choice([0, 1, 1, 2, 3, 4, 5, 6, 8, 12])
    t = []
    cur = 0
    for i in range(n):
        t.append(cur)
        cur += 1 if regular or rng.random() < 0.7 else rng.choice([2, 3])
    mode = rng.random()
    d = {'time': t}
    for v in ('a', 'b', 'c'):
        if mode < 0.15:
            x = rng.choice(VALS)
            d[v] = [x] * n  # equal values
        elif mode < 0.25:
            d[v] = [0] * n
        else:
            d[v] = [rnd_val(rng) for _ in range(n)]
    return d


def dense_sig(rng, t0=0, n=None, int_time=False):
    if n is None:
        n = rng.choice([1, 1, 2, 3, 4, 5, 7])
    sig = []
    t = t0
    mode = rng.random()
    const = rng.choice(VALS)
    for i in range(n):
        if mode < 0.15:
            v = const
        elif mode < 0.22:
            v = 0
        else:
            v = rnd_val(rng)
        sig.append([t, v])
        t = t + (rng.choice([1, 2, 3]) if int_time else rng.choice([0.5, 1, 1.5, 2, 0.25, 3]))
    return sig, t


# ---------------------------------------------------------------------------
# section 1: discrete-time offline, specification level
# ---------------------------------------------------------------------------
def section_disc_offline(rng, count):
    print('### discrete offline')
    for k in range(count):
        sem = rng.choice(SEMS)
        ios = [rng.choice(IOS) for _ in range(3)]
        f = rnd_formula(rng, ['a', 'b', 'c'], rng.choice([0, 1, 2, 3]), 'future', False, [])
        label = 'DO%03d %s %s %s' % (k, sem, ios, f)
        signal.alarm(20)
        try:
            spec = make_spec(rtamt.StlDiscreteTimeSpecification, sem, ios, f)
            signal.alarm(0)
        except BaseException as e:  # noqa
            signal.alarm(0)
            print(label, '=> PARSE EXC', type(e).__name__)
            continue
        for j in range(3):
            d = disc_trace(rng, regular=rng.random() < 0.8)
            copy = dict((key, list(val)) for key, val in d.items())
            attempt(label + ' #%d n=%d' % (j, len(d['time'])), spec.evaluate, d)
            print('   preds:', predicate_results(spec))
            print('   svc:', canon(getattr(spec.offline_interpreter, 'sampling_violation_counter', None)),
                  'caller-data-unchanged:', d == copy)
        attempt(label + ' out', spec.get_value, 'out')


# ---------------------------------------------------------------------------
# section 2: discrete-time online, specification level
# ---------------------------------------------------------------------------
def section_disc_online(rng, count):
    print('### discrete online')
    for k in range(count):
        sem = rng.choice(SEMS)
        ios = [rng.choice(IOS) for _ in range(3)]
        kind = rng.choice(['past', 'past', 'bfuture'])
        f = rnd_formula(rng, ['a', 'b', 'c'], rng.choice([0, 1, 2, 3]), kind, False, [])
        label = 'DN%03d %s %s %s' % (k, sem, ios, f)
        try:
            spec = make_spec(rtamt.StlDiscreteTimeSpecification, sem, ios, f)
            spec.pastify()
        except BaseException as e:  # noqa
            print(label, '=> PARSE EXC', type(e).__name__)
            continue
        n = rng.choice([1, 2, 3, 5, 8, 12])
        reset_at = rng.choice([None, 0, n // 2, n - 1])
        t = 0
        for i in range(n):
            if reset_at == i:
                attempt(label + ' reset', spec.reset)
            batch = []
            for v in ('a', 'b', 'c'):
                if rng.random() < 0.9:
                    batch.append((v, rnd_val(rng)))
            if rng.random() < 0.05:
                batch = []
            attempt(label + ' t=%d %s' % (t, canon(batch)), spec.update, t, batch)
            if i % 3 == 0:
                print('   preds:', predicate_results(spec))
            t += 1 if rng.random() < 0.85 else 2
        print('   svc:', canon(spec.online_interpreter.sampling_violation_counter))
        attempt(label + ' reset-end', spec.reset)
        attempt(label + ' after-reset', spec.update, 0, [('a', 1.0), ('b', 1), ('c', -1.0)])
        ops = getattr(spec.online_interpreter, 'online_operator_dict', {}) or {}
        desc = []
        for name, op in ops.items():
            if type(op).__name__ == 'PredicateOperation':
                desc.append('%s:%s:%s:%s:%s:%s' % (name, type(op).__module__, getattr(op, 'semantics', '-'),
                                                   canon(getattr(op, 'in_vars', '-')),
                                                   canon(getattr(op, 'out_vars', '-')), op.comparison_op))
        print('   ops:', ' | '.join(sorted(desc)))


# ---------------------------------------------------------------------------
# section 3: dense-time offline, specification level
# ---------------------------------------------------------------------------
def section_dense_offline(rng, count):
    print('### dense offline')
    for k in range(count):
        sem = rng.choice(SEMS)
        ios = [rng.choice(IOS) for _ in range(3)]
        f = rnd_formula(rng, ['a', 'b', 'c'], rng.choice([0, 1, 2]), 'future', True, [])
        label = 'EO%03d %s %s %s' % (k, sem, ios, f)
        try:
            spec = make_spec(rtamt.StlDenseTimeSpecification, sem, ios, f)
        except BaseException as e:  # noqa
            print(label, '=> PARSE EXC', type(e).__name__)
            continue
        for j in range(3):
            int_time = rng.random() < 0.5
            sa, _ = dense_sig(rng, 0, int_time=int_time)
            sb, _ = dense_sig(rng, 0, int_time=int_time)
            sc, _ = dense_sig(rng, 0, int_time=int_time)
            if rng.random() < 0.05:
                sb = []
            args = [['a', sa], ['b', sb], ['c', sc]]
            copy = canon(args)
            attempt(label + ' #%d %s' % (j, copy), spec.evaluate, *args)
            print('   preds:', predicate_results(spec))
            print('   caller-data-unchanged:', canon(args) == copy)


# ---------------------------------------------------------------------------
# section 4: dense-time online, specification level
# ---------------------------------------------------------------------------
def section_dense_online(rng, count):
    print('### dense online')
    for k in range(count):
        sem = rng.choice(SEMS)
        ios = [rng.choice(IOS) for _ in range(3)]
        kind = rng.choice(['past', 'past', 'bfuture'])
        f = rnd_formula(rng, ['a', 'b', 'c'], rng.choice([0, 1, 2]), kind, True, [])
        label = 'EN%03d %s %s %s' % (k, sem, ios, f)
        try:
            spec = make_spec(rtamt.StlDenseTimeSpecification, sem, ios, f)
            spec.pastify()
        except BaseException as e:  # noqa
            print(label, '=> PARSE EXC', type(e).__name__)
            continue
        nb = rng.choice([1, 2, 3, 4])
        reset_at = rng.choice([None, 0, 1, nb - 1])
        ta = tb = tc = 0
        int_time = rng.random() < 0.5
        for i in range(nb):
            if reset_at == i:
                attempt(label + ' reset', spec.reset)
                ta = tb = tc = 0
            sa, ta = dense_sig(rng, ta, int_time=int_time)
            sb, tb = dense_sig(rng, tb, int_time=int_time)
            sc, tc = dense_sig(rng, tc, int_time=int_time)
            r = rng.random()
            if r < 0.06:
                sb = []
            args = [['a', sa], ['b', sb], ['c', sc]]
            if r > 0.95:
                args = args[:2]
            copy = canon(args)
            attempt(label + ' batch%d %s' % (i, copy), spec.update, *args)
            print('   preds:', predicate_results(spec))
            print('   caller-data-unchanged:', canon(args) == copy)
        attempt(label + ' reset-end', spec.reset)
        attempt(label + ' after-reset', spec.update, ['a', [[0, 1.0], [1, 2]]], ['b', [[0, 1], [1, 2.0]]],
                ['c', [[0, -1], [1, 0]]])
        ops = getattr(spec.online_interpreter, 'online_operator_dict', {}) or {}
        desc = []
        for name, op in ops.items():
            if type(op).__name__ == 'PredicateOperation':
                desc.append('%s:%s:%s:%s:%s:%s' % (name, type(op).__module__, getattr(op, 'semantics', '-'),
                                                   canon(getattr(op, 'in_vars', '-')),
                                                   canon(getattr(op, 'out_vars', '-')), op.comparison_op))
        print('   ops:', ' | '.join(sorted(desc)))


# ---------------------------------------------------------------------------
# section 5: systematic predicate matrix through the specification API
#            (all operators x all semantics x io assignment x boundary traces)
# ---------------------------------------------------------------------------
def section_predicate_matrix():
    print('### predicate matrix')
    disc_traces = [
        {'time': [], 'a': [], 'b': []},
        {'time': [0], 'a': [1], 'b': [1]},
        {'time': [0], 'a': [0.0], 'b': [-0.0]},
        {'time': [0, 1, 2, 3, 4], 'a': [100, -1, -2, 5, -1], 'b': [20, -2, 10, 4, -1]},
        {'time': [0, 1, 2, 3], 'a': [1.5, 1.5, 1.5, 1.5], 'b': [1.5, 1.5, 1.5, 1.5]},
        {'time': [0, 1, 2], 'a': [0, 0, 0], 'b': [0.0, 0.0, 0.0]},
        {'time': [0, 1, 2], 'a': [-3, -2.5, 1e-9], 'b': [-3.0, 2, 0]},
    ]
    dense_traces = [
        ([[0, 1]], [[0, 1]]),
        ([[0, 0.0]], [[0, -0.0]]),
        ([[0, 100], [1, -1], [2, -2], [3, 5], [4, -1]], [[0, 20], [1, -2], [2, 10], [3, 4], [4, -1]]),
        ([[0, 1.5], [1, 1.5], [2, 1.5]], [[0, 1.5], [2, 1.5]]),
        ([[0, 0], [1, 0], [3, 0]], [[0, 0.0], [2.5, 0.0]]),
        ([[0, -3], [0.5, -2.5], [1.5, 1e-9]], [[0, -3.0], [1, 2], [1.5, 0]]),
        ([[0, 1], [1, 2], [2, 1], [3, 2], [4, 2], [5, 2]], [[0, 2], [5, 2]]),
        ([], [[0, 1]]),
    ]
    io_pairs = [('input', 'input'), ('input', 'output'), ('output', 'input'), ('output', 'output'),
                (None, None), ('undefined', 'input'), ('undefined', 'undefined')]
    shapes = ['(a %s b)', '(a %s 2)', '(1 %s b)', '(1 %s 2)', '((a - b) %s 0)']
    for sem in SEMS:
        for op in OPS:
            for io in io_pairs:
                for shape in shapes:
                    f = shape % op
                    base = 'PM %s %s %s' % (sem, io, f)
                    # discrete
                    try:
                        spec = make_spec(rtamt.StlDiscreteTimeSpecification, sem, list(io) + [None], f)
                    except BaseException as e:  # noqa
                        print(base, 'disc PARSE EXC', type(e).__name__)
                        spec = None
                    if spec is not None:
                        for i, d in enumerate(disc_traces):
                            dd = dict((k2, list(v2)) for k2, v2 in d.items())
                            attempt(base + ' doff%d' % i, spec.evaluate, dd)
                        spec = make_spec(rtamt.StlDiscreteTimeSpecification, sem, list(io) + [None], f)
                        d = disc_traces[3]
                        for i in range(len(d['time'])):
                            attempt(base + ' don%d' % i, spec.update, i, [('a', d['a'][i]), ('b', d['b'][i])])
                            if i == 2:
                                spec.reset()
                        d = disc_traces[6]
                        for i in range(len(d['time'])):
                            attempt(base + ' donb%d' % i, spec.update, i, [('a', d['a'][i]), ('b', d['b'][i])])
                    # dense
                    try:
                        spec = make_spec(rtamt.StlDenseTimeSpecification, sem, list(io) + [None], f)
                    except BaseException as e:  # noqa
                        print(base, 'dense PARSE EXC', type(e).__name__)
                        continue
                    for i, (sa, sb) in enumerate(dense_traces):
                        attempt(base + ' eoff%d' % i, spec.evaluate, ['a', [list(s) for s in sa]],
                                ['b', [list(s) for s in sb]])
                    spec = make_spec(rtamt.StlDenseTimeSpecification, sem, list(io) + [None], f)
                    for i, (sa, sb) in enumerate(dense_traces[:7]):
                        attempt(base + ' eon%d' % i, spec.update, ['a', [list(s) for s in sa]],
                                ['b', [list(s) for s in sb]])
                        spec.reset()
                    # consecutive batches without reset
                    spec = make_spec(rtamt.StlDenseTimeSpecification, sem, list(io) + [None], f)
                    attempt(base + ' eonc0', spec.update, ['a', [[0, 1], [1, 3]]], ['b', [[0, 2], [1.5, 2]]])
                    attempt(base + ' eonc1', spec.update, ['a', [[2, 2], [3, 0]]], ['b', [[2, 2.0], [4, -1]]])
                    attempt(base + ' eonc2', spec.update, ['a', []], ['b', []])
                    attempt(base + ' eonc3', spec.update, ['a', [[5, 2]]], ['b', [[5, 2]]])


# ---------------------------------------------------------------------------
# section 6: the operation / visitor classes called directly
# ---------------------------------------------------------------------------
class FakeOp(object):
    def __init__(self, value):
        self.value = value

    def __str__(self):
        return 'fake%r' % (self.value,)


class FakeNode(object):
    pass


def all_operator_objects():
    ops = []
    for m in (comp_op_mod, comp_oper_mod):
        for member in m.StlComparisonOperator:
            ops.append((m.__name__.split('.')[-1] + '.' + member.name, member))
    ops.append(('fake7', FakeOp(7)))
    ops.append(('fake-1', FakeOp(-1)))
    ops.append(('fake2.0', FakeOp(2.0)))
    ops.append(('fakeTrue', FakeOp(True)))
    ops.append(('fakeNone', FakeOp(None)))
    ops.append(('fakeStr', FakeOp('>=')))
    return ops


def section_direct_operations(rng):
    print('### direct operations')
    sems = SEMS + ['output-robustness', None, 'bogus']
    var_lists = [([], []), (['a'], []), ([], ['b']), (['a'], ['b']), (['a', 'a'], ['b', 'c']), ((), ()), (None, None)]
    pairs = [(0, 0), (1, 1), (1, 2), (2, 1), (0.0, -0.0), (-0.0, 0.0), (-1.5, -1.5), (3, 2.5), (-2, 7), (1e-9, 0),
             (True, 1), (float('inf'), 1), (float('-inf'), float('-inf')), (float('inf'), float('inf')),
             (float('nan'), 1.0), (1, float('nan'))]
    for opname, op in all_operator_objects():
        for sem in sems:
            for iv, ov in var_lists:
                lab = 'DP %s %s in=%s out=%s' % (opname, sem, canon(iv), canon(ov))
                try:
                    p = DiscIAPred(op, sem, iv, ov)
                except BaseException as e:  # noqa
                    print(lab, 'CTOR EXC', type(e).__name__)
                    continue
                print(lab, 'attrs', p.comparison_op is op, p.semantics is sem, p.in_vars is iv, p.out_vars is ov)
                for l, r in pairs:
                    attempt(lab + ' upd(%r,%r)' % (l, r), p.update, l, r)
                attempt(lab + ' upd(str)', p.update, 'x', 1)
                attempt(lab + ' reset', p.reset)
                attempt(lab + ' upd-after-reset', p.update, 3, 4)

    dense_inputs = [
        ([[0, 1]], [[0, 1]]),
        ([[0, 1], [1, 2], [2, 2], [3, -1]], [[0, 1], [1.5, 3], [3, 3]]),
        ([[0, 0.0], [2, 0.0]], [[0, -0.0], [1, 0], [2, 0]]),
        ([[0, 1], [1, 1], [2, 1], [3, 1]], [[0, 1], [3, 1]]),
        ([[0, -2], [1, 5], [2, -2], [3, 5]], [[0, 0], [3, 0]]),
        ([], [[0, 1]]),
        ([[0, 1]], []),
        ([], []),
    ]
    for opname, op in all_operator_objects():
        for sem in sems:
            for iv, ov in var_lists[:5]:
                lab = 'EP %s %s in=%s out=%s' % (opname, sem, canon(iv), canon(ov))
                for i, (sl, sr) in enumerate(dense_inputs):
                    try:
                        p = DenseIAPred(op, sem, iv, ov)
                    except BaseException as e:  # noqa
                        print(lab, 'CTOR EXC', type(e).__name__)
                        break
                    a = [list(s) for s in sl]
                    b = [list(s) for s in sr]
                    attempt(lab + ' upd%d' % i, p.update, a, b)
                    print('   inputs-unchanged:', a == [list(s) for s in sl], b == [list(s) for s in sr])
                    # second batch on the same operation (state carried by the subtraction)
                    attempt(lab + ' upd%d-next' % i, p.update, [[10, 3], [11, 4]], [[10, 3.5], [12, 3.5]])
                    attempt(lab + ' reset%d' % i, p.reset)
                    attempt(lab + ' upd%d-after-reset' % i, p.update, [[20, 1], [21, 0]], [[20, 0], [21, 1]])
                p = DenseIAPred(op, sem, iv, ov)
                attempt(lab + ' update_final', p.update_final, [[0, 1], [1, 2]], [[0, 2], [1, 1]])
                attempt(lab + ' update_final3', lambda: p.update_final(None, [[0, 1], [1, 2]], [[0, 2], [1, 1]]))
                print(lab, 'attrs', p.comparison_op is op, p.semantics is sem, p.in_vars is iv, p.out_vars is ov)


def section_direct_visitors(rng):
    print('### direct visitors')
    # every offline visitor class called through an interpreter built by the factory
    disc_classes = ['IAStlDiscreteTimeOfflineAstVisitor', 'IAStlOutputRobustnessDiscreteTimeOfflineAstVisitor',
                    'IAStlInputRobustnessDiscreteTimeOfflineAstVisitor',
                    'IAStlInputVacuityDiscreteTimeOfflineAstVisitor',
                    'IAStlOutputVacuityDiscreteTimeOfflineAstVisitor']
    dense_classes = ['IAStlDenseTimeOfflineAstVisitor', 'IAStlOutputRobustnessDenseTimeOfflineAstVisitor',
                     'IAStlInputRobustnessDenseTimeOfflineAstVisitor', 'IAStlInputVacuityDenseTimeOfflineAstVisitor',
                     'IAStlOutputVacuityDenseTimeOfflineAstVisitor']
    ios = [('input', 'input'), ('input', 'output'), ('output', 'input'), ('output', 'output'), (None, 'undefined')]
    disc_data = [
        {'time': [], 'a': [], 'b': []},
        {'time': [0], 'a': [2], 'b': [2.0]},
        {'time': [0, 1, 2, 3, 4], 'a': [100, -1, -2, 5, -1], 'b': [20, -2, 10, 4, -1]},
        {'time': [0, 1, 2], 'a': [0.0, -0.0, 0], 'b': [-0.0, 0.0, 0.0]},
        {'time': [0, 1, 2], 'a': [1, 2, 3], 'b': [1, 2]},  # right shorter than left
        {'time': [0, 1], 'a': [1, 2], 'b': [1, 2, 3]},
        {'time': [0, 1], 'a': [float('nan'), 1], 'b': [1, float('nan')]},
        {'time': [0, 1], 'a': [float('inf'), float('-inf')], 'b': [float('inf'), 3]},
    ]
    dense_data = [
        ([[0, 2]], [[0, 2.0]]),
        ([[0, 100], [1, -1], [2, -2], [3, 5], [4, -1]], [[0, 20], [1, -2], [2, 10], [3, 4], [4, -1]]),
        ([[0, 0.0], [1, -0.0], [2, 0]], [[0, -0.0], [1.5, 0.0]]),
        ([[0, 1], [1, 1], [2, 1]], [[0, 1], [2, 1]]),
        ([[0, 1], [1, 2], [2, 1], [3, 2], [4, 2]], [[0, 2], [4, 2]]),
        ([[0, float('nan')], [1, 1], [2, float('nan')]], [[0, 1], [2, 1]]),
        ([[0, float('inf')], [1, 3], [2, float('inf')]], [[0, float('inf')], [2, float('inf')]]),
        ([], [[0, 1]]),
    ]

    def fresh_ast(io, formula):
        spec = make_spec(rtamt.StlDiscreteTimeSpecification, Semantics.STANDARD, list(io) + [None], formula)
        return spec.ast

    for cname in disc_classes:
        cls = getattr(disc_off_vis, cname)
        print('DV', cname, 'sub-of-stl', issubclass(cls, StlDiscreteTimeOfflineAstVisitor),
              'sub-of-base', issubclass(cls, disc_off_vis.IAStlDiscreteTimeOfflineAstVisitor))
        for io in ios:
            for op in OPS:
                for shape in ['(a %s b)', '(a %s 3)']:
                    f = shape % op
                    for i, d in enumerate(disc_data):
                        lab = 'DV %s %s %s d%d' % (cname, io, f, i)
                        try:
                            interp = discrete_time_offline_interpreter_factory(cls)()
                            interp.set_ast(fresh_ast(io, f))
                        except BaseException as e:  # noqa
                            print(lab, 'SETUP EXC', type(e).__name__)
                            continue
                        dd = dict((k2, list(v2)) for k2, v2 in d.items())
                        attempt(lab, interp.evaluate, dd)
                        print('   preds:', ' | '.join(sorted(
                            k.name + ' -> ' + canon(v) for k, v in interp.ast.results.items()
                            if type(k).__name__ == 'Predicate')))

    for cname in dense_classes:
        cls = getattr(dense_off_vis, cname)
        print('EV', cname, 'sub-of-stl', issubclass(cls, StlDenseTimeOfflineAstVisitor),
              'sub-of-base', issubclass(cls, dense_off_vis.IAStlDenseTimeOfflineAstVisitor))
        for io in ios:
            for op in OPS:
                for shape in ['(a %s b)', '(a %s 3)']:
                    f = shape % op
                    for i, (sa, sb) in enumerate(dense_data):
                        lab = 'EV %s %s %s d%d' % (cname, io, f, i)
                        try:
                            interp = dense_time_offline_interpreter_factory(cls)()
                            spec = make_spec(rtamt.StlDenseTimeSpecification, Semantics.STANDARD,
                                             list(io) + [None], f)
                            interp.set_ast(spec.ast)
                        except BaseException as e:  # noqa
                            print(lab, 'SETUP EXC', type(e).__name__)
                            continue
                        attempt(lab, interp.evaluate, [['a', [list(s) for s in sa]], ['b', [list(s) for s in sb]]])
                        print('   preds:', ' | '.join(sorted(
                            k.name + ' -> ' + canon(v) for k, v in interp.ast.results.items()
                            if type(k).__name__ == 'Predicate')))

    # visitPredicate with hand-made nodes: unknown operators, empty inputs, operators of both enumerations
    class Leaf(object):
        def __init__(self, name, val):
            self.name = name
            self.val = val

    for cname in disc_classes:
        cls = getattr(disc_off_vis, cname)

        class Probe(cls):
            def visit(self, node, *args, **kwargs):
                return node.val

        for opname, op in all_operator_objects():
            for left, right in [([], []), ([1], [1]), ([1, 2, 3], [3, 2, 1]), ([0.0], [-0.0]), ([1, 2], [1]),
                                ([-1.5, 2], [2, -1.5]), (['x'], [1])]:
                for iv, ov in [([], []), (['a'], []), ([], ['b']), (['a'], ['b'])]:
                    node = FakeNode()
                    node.children = [Leaf('l', list(left)), Leaf('r', list(right))]
                    node.operator = op
                    node.in_vars = iv
                    node.out_vars = ov
                    node.name = 'p'
                    attempt('DVP %s %s %r %r in=%s out=%s' % (cname, opname, left, right, canon(iv), canon(ov)),
                            Probe().visitPredicate, node)

    for cname in dense_classes:
        cls = getattr(dense_off_vis, cname)

        class ProbeD(cls):
            def visit(self, node, *args, **kwargs):
                return node.val

        for opname, op in all_operator_objects():
            for left, right in [([], []), ([[0, 1]], [[0, 1]]), ([[0, 1], [1, 2], [2, 3]], [[0, 3], [1, 2], [2, 1]]),
                                ([[0, 0.0]], [[0, -0.0]]), ([[0, 1], [1, 1], [2, 1]], [[0, 1], [2, 1]]),
                                ([[0, -1.5], [1, 2]], [[0, 2], [0.5, -1.5]])]:
                for iv, ov in [([], []), (['a'], []), ([], ['b']), (['a'], ['b'])]:
                    node = FakeNode()
                    node.children = [Leaf('l', [list(s) for s in left]), Leaf('r', [list(s) for s in right])]
                    node.operator = op
                    node.in_vars = iv
                    node.out_vars = ov
                    node.name = 'p'
                    attempt('EVP %s %s %r %r in=%s out=%s' % (cname, opname, left, right, canon(iv), canon(ov)),
                            ProbeD().visitPredicate, node)


# ---------------------------------------------------------------------------
# section 7: factories and how specifications select interpreters by Semantics
# ---------------------------------------------------------------------------
def describe_interp(interp):
    if interp is None:
        return 'None'
    names = [c.__name__ for c in type(interp).__mro__]
    ia = [n for n in names if n.startswith('IAStl') and not n.startswith('_')]
    stl = [n for n in names if n.startswith('Stl')]
    return '%s ia=%s stl=%s' % (type(interp).__name__, ia[:1], stl[:1])


def describe_spec(spec):
    return '%s name=%r off=(%s) on=(%s) past=%s expl=%s' % (
        type(spec).__name__, spec.name, describe_interp(getattr(spec, 'offline_interpreter', None)),
        describe_interp(getattr(spec, 'online_interpreter', None)),
        type(getattr(spec, 'pastifier', None)).__name__, type(getattr(spec, 'explainer', None)).__name__)


def section_selection():
    print('### selection')
    sem_args = SEMS + ['standard', 'output-robustness', None, 0, Language.PYTHON]
    lang_args = [Language.PYTHON, Language.CPP, 'python', None, Semantics.STANDARD]
    for ctor_name, ctor in [('StlDiscreteTimeSpecification', rtamt.StlDiscreteTimeSpecification),
                            ('StlDenseTimeSpecification', rtamt.StlDenseTimeSpecification),
                            ('IASTLDiscreteTimeSpecification', ia_disc_spec.IASTLDiscreteTimeSpecification)]:
        for s in sem_args:
            for l in lang_args:
                lab = 'SEL %s sem=%s lang=%s' % (ctor_name, canon(s) if not hasattr(s, 'name') else str(s),
                                                 canon(l) if not hasattr(l, 'name') else str(l))
                try:
                    spec = ctor(semantics=s, language=l)
                    print(lab, '=>', describe_spec(spec))
                except BaseException as e:  # noqa
                    print(lab, '=> EXC', type(e).__name__)
        for s in SEMS:
            try:
                print('SEL %s positional %s =>' % (ctor_name, s), describe_spec(ctor(s)))
            except BaseException as e:  # noqa
                print('SEL %s positional %s => EXC' % (ctor_name, s), type(e).__name__)
        try:
            print('SEL %s default =>' % ctor_name, describe_spec(ctor()))
        except BaseException as e:  # noqa
            print('SEL %s default => EXC' % ctor_name, type(e).__name__)
        # two specifications never share interpreters / asts
        try:
            s1 = ctor(Semantics.OUTPUT_ROBUSTNESS)
            s2 = ctor(Semantics.OUTPUT_ROBUSTNESS)
            print('SEL %s distinct' % ctor_name, s1.ast is not s2.ast,
                  s1.offline_interpreter is not s2.offline_interpreter,
                  s1.online_interpreter is not s2.online_interpreter, s1.pastifier is not s2.pastifier)
        except BaseException as e:  # noqa
            print('SEL %s distinct EXC' % ctor_name, type(e).__name__)

    for mod in (ia_disc_spec, ia_dense_spec, stl_disc_spec, stl_dense_spec):
        for name in sorted(dir(mod)):
            if name.endswith('Specification') and (name.startswith('IAStl') or name.startswith('Stl')) \
                    and 'Abstract' not in name:
                fn = getattr(mod, name)
                if name in ('StlDiscreteTimeSpecification', 'StlDenseTimeSpecification'):
                    continue
                try:
                    print('SEL named %s.%s =>' % (mod.__name__.split('.')[-3], name), describe_spec(fn()))
                except BaseException as e:  # noqa
                    print('SEL named %s =>' % name, 'EXC', type(e).__name__)

    for mod in (disc_off_int, dense_off_int, disc_on_int, dense_on_int):
        for name in sorted(dir(mod)):
            if name.startswith('IAStl') and name.endswith('Interpreter'):
                fn = getattr(mod, name)
                try:
                    i1 = fn()
                    i2 = fn()
                    print('FAC', name, '=>', describe_interp(i1), 'distinct-instances', i1 is not i2,
                          'has-ops', hasattr(i1, 'online_operator_dict'))
                except BaseException as e:  # noqa
                    print('FAC', name, '=> EXC', type(e).__name__)
                try:
                    fn(Semantics.OUTPUT_ROBUSTNESS)
                    print('FAC', name, 'with-arg ok')
                except BaseException as e:  # noqa
                    print('FAC', name, 'with-arg EXC', type(e).__name__)

    # online visitor classes: hierarchy facts that callers can rely on, and the operation they build
    for mod, base in ((disc_on_vis, StlDiscreteTimeOnlineAstVisitor), (dense_on_vis, StlDenseTimeOnlineAstVisitor)):
        for name in sorted(dir(mod)):
            if name.startswith('IAStl') and name.endswith('AstVisitor'):
                cls = getattr(mod, name)
                print('VIS', name, 'sub-of-stl', issubclass(cls, base), 'own-visitPredicate',
                      callable(getattr(cls, 'visitPredicate', None)))
    for fac, mod in ((discrete_time_online_interpreter_factory, disc_on_vis),
                     (dense_time_online_interpreter_factory, dense_on_vis)):
        for name in sorted(dir(mod)):
            if not (name.startswith('IAStl') and name.endswith('AstVisitor')):
                continue
            cls = getattr(mod, name)
            for io in [('input', 'output'), ('output', 'input'), (None, None)]:
                lab = 'VISOP %s %s' % (name, io)
                try:
                    ctor = rtamt.StlDiscreteTimeSpecification if mod is disc_on_vis else rtamt.StlDenseTimeSpecification
                    spec = make_spec(ctor, Semantics.STANDARD, list(io) + [None],
                                     '((a >= 1) and (b < 2)) or (a == b) or ((a >= 1) and (3 !== b))')
                    interp = fac(cls)()
                    interp.set_ast(spec.ast)
                    desc = []
                    for opn, op in interp.online_operator_dict.items():
                        if type(op).__name__ == 'PredicateOperation':
                            desc.append('%s:%s:%s:%s:%s:%s' % (opn, type(op).__module__, op.semantics,
                                                               canon(op.in_vars), canon(op.out_vars),
                                                               op.comparison_op))
                    print(lab, '=>', len(interp.online_operator_dict), ' | '.join(sorted(desc)))
                    if mod is disc_on_vis:
                        attempt(lab + ' upd0', interp.update, 0, [('a', 1), ('b', 2.5)])
                        attempt(lab + ' upd1', interp.update, 1, [('a', 3.0), ('b', 3)])
                        attempt(lab + ' reset', interp.reset)
                        attempt(lab + ' upd2', interp.update, 0, [('a', 0), ('b', 0)])
                    else:
                        attempt(lab + ' upd0', interp.update, [['a', [[0, 1], [1, 3.0]]], ['b', [[0, 2.5], [1, 3]]]])
                        attempt(lab + ' upd1', interp.update, [['a', [[2, 0], [3, 3.0]]], ['b', [[2, 0], [3, 1]]]])
                        attempt(lab + ' reset', interp.reset)
                        attempt(lab + ' upd2', interp.update, [['a', [[0, 0], [1, 1]]], ['b', [[0, 0], [1, 5]]]])
                except BaseException as e:  # noqa
                    print(lab, '=> EXC', type(e).__name__)


def main():
    section_selection()
    section_predicate_matrix()
    section_direct_operations(random.Random(11))
    section_direct_visitors(random.Random(12))
    section_disc_offline(random.Random(1), 250)
    section_disc_online(random.Random(2), 200)
    section_dense_offline(random.Random(3), 200)
    section_dense_online(random.Random(4), 160)
    print('### done')


if __name__ == '__main__':
    main()
