import sys, random, copy
sys.path.insert(0, '/repo'); sys.path.insert(0, '/verif/probes')
import rtamt
from ref_discrete import gen, txt, ev
random.seed(int(sys.argv[1]) if len(sys.argv)>1 else 1)
N = int(sys.argv[2]) if len(sys.argv)>2 else 300
def mkd(t):
    s = rtamt.StlDiscreteTimeOfflineSpecification()
    for v in ('a','b','out'): s.declare_var(v,'float')
    s.spec = 'out = ' + t; s.parse(); return s
def gen20(d):
    # fragment without timed since/until, rise/fall? keep what explainer supports; regenerate on RTAMTException
    return gen(d, ['a','b'])
bad = exc = sat_reported = viol = 0
kinds = {}
for trial in range(N):
    n = random.randint(1, 6)
    a = [float(random.randint(-3,3)) for _ in range(n)]; b = [float(random.randint(-3,3)) for _ in range(n)]
    f = gen20(random.randint(1,3))
    try:
        s = mkd(txt(f))
        r = s.evaluate({'time': list(range(n)), 'a': list(a), 'b': list(b)})
        s.explain()
        ex = s.explainer.explanations
    except rtamt.RTAMTException as e:
        continue
    except Exception as e:
        exc += 1
        k = (type(e).__name__, str(e)[:50])
        if k not in kinds:
            kinds[k] = txt(f); print('EXC', txt(f), k, a, b)
        continue
    rep = {}
    for v in ('a','b'):
        rep[v] = set()
        ivs = ex.get(v, []) if hasattr(ex, 'get') else []
        for iv in ivs:
            lo, hi = iv[0], iv[1]
            for i in range(int(lo), int(hi)+1): rep[v].add(i)
    if r[0][1] >= 0:
        if rep['a'] or rep['b']:
            sat_reported += 1
            if sat_reported <= 2: print('SAT-REPORTED', txt(f), a, b, r[0][1], rep)
        continue
    viol += 1
    # try re-assignments of unreported samples
    ok = True
    for k in range(40):
        a2 = [a[i] if i in rep['a'] else float(random.choice([-100, 100, random.randint(-5,5)])) for i in range(n)]
        b2 = [b[i] if i in rep['b'] else float(random.choice([-100, 100, random.randint(-5,5)])) for i in range(n)]
        w = ev(f, {'a': a2, 'b': b2}, n)[0]
        if w >= 0:
            ok = False
            bad += 1
            if bad <= 5: print('INSUFFICIENT', txt(f), 'a', a, 'b', b, 'reported', {k: sorted(v) for k, v in rep.items()}, 'counter-trace', a2, b2, 'rob', w)
            break
print('trials', N, 'violated', viol, 'insufficient', bad, 'sat-but-reported', sat_reported, 'exc', exc)
