import itertools, sys, logging
logging.disable(logging.CRITICAL)
import rtamt
VARS=['x','y']; VALUES=(-1.0,1.0)
def new_spec(text, subs=(), unit=None, period=None):
    spec = rtamt.StlDiscreteTimeOfflineSpecification()
    for v in VARS: spec.declare_var(v,'float')
    if unit: spec.unit=unit
    if period: spec.set_sampling_period(*period)
    for s in subs: spec.add_sub_spec(s)
    spec.spec=text; spec.parse(); return spec
def ds_of(trace):
    n=len(trace['x']); d={'time':list(range(n))}
    for v in VARS: d[v]=list(trace[v])
    return d
def check(text, trace, **kw):
    spec=new_spec(text,**kw); out=spec.evaluate(ds_of(trace)); spec.explain()
    rob=out[0][1]
    pos=set()
    for v in VARS:
        for b,e in spec.explainer.explanations.get(v,[]): pos.update((v,i) for i in range(b,e+1))
    if rob>=0:
        print('SAT', text, 'reported', sorted(pos)); return
    n=len(trace['x'])
    free=[(v,i) for v in VARS for i in range(n) if (v,i) not in pos]
    for combo in itertools.product(VALUES, repeat=len(free)):
        other={v:list(trace[v]) for v in VARS}
        for (v,i),val in zip(free,combo): other[v][i]=val
        r=new_spec(text,**kw).evaluate(ds_of(other))[0][1]
        if r>=0:
            print('NOT SUFFICIENT', text, kw, trace, 'reported', sorted(pos), 'counter', other, r); return
    print('ok', text, sorted(pos))
# iff/xor over temporal operands
check('out = (always (x>=0)) iff (always (y>=0))', {'x':[1,1,-1,1],'y':[1,1,1,1]})
check('out = (always (x>=0)) xor (eventually (y>=0))', {'x':[1,1,1,1],'y':[-1,-1,1,-1]})
check('out = (once (x>=0)) iff (y>=0)', {'x':[1,1,1,1],'y':[-1,1,1,1]})
# sub specs
check('out = always p', {'x':[1,1,-1,1],'y':[1,1,1,1]}, subs=['p = (x>=0);'])
check('out = always (p and (y>=0))', {'x':[1,1,-1,1],'y':[1,1,1,1]}, subs=['p = once[0,1](x>=0);'])
# units
check('out = always[0,2s] (x>=0)', {'x':[1,1,-1,1],'y':[1,1,1,1]})
check('out = always[0,2000ms] (x>=0)', {'x':[1,1,-1,1],'y':[1,1,1,1]})
check('out = always[0,1] (x>=0)', {'x':[1,1,-1,1],'y':[1,1,1,1]}, period=(500,'ms'))
check('out = eventually[0,1] (x>=0)', {'x':[-1,-1,-1,1],'y':[1,1,1,1]}, period=(500,'ms'))
