import sys, random
sys.path.insert(0, '/repo'); sys.path.insert(0, '/verif/probes')
import rtamt
from ref_discrete import gen, txt
random.seed(int(sys.argv[1]) if len(sys.argv)>1 else 1)
N = int(sys.argv[2]) if len(sys.argv)>2 else 300
def mkd(t, subs=()):
    s = rtamt.StlDiscreteTimeSpecification()
    for v in ('a','b','out'): s.declare_var(v,'float')
    for nm, st in subs:
        s.declare_var(nm, 'float'); s.add_sub_spec('%s = %s;' % (nm, st))
    s.spec = 'out = ' + t; s.parse(); s.pastify(); return s
def mkc(t):
    s = rtamt.StlDenseTimeSpecification()
    for v in ('a','b','out'): s.declare_var(v,'float')
    s.spec = 'out = ' + t; s.parse(); s.pastify(); return s
bad10 = bad10d = bad09 = exc = 0
for trial in range(N):
    n = random.randint(1, 7)
    A = [[float(random.randint(-3,3)) for _ in range(n)] for _ in range(3)]
    B = [[float(random.randint(-3,3)) for _ in range(n)] for _ in range(3)]
    f = gen(random.randint(1,3), ['a','b'], unbounded_future=False)
    try:
        s = mkd(txt(f)); fresh = mkd(txt(f))
        want = [fresh.update(i, [('a', A[1][i]), ('b', B[1][i])]) for i in range(n)]
        if random.random() < 0.5:
            [s.update(i, [('a', A[0][i]), ('b', B[0][i])]) for i in range(random.randint(0, n))]
        s.reset()
        got = [s.update(i, [('a', A[1][i]), ('b', B[1][i])]) for i in range(n)]
        if got != want:
            bad10 += 1
            if bad10 <= 3: print('DIFF10', txt(f), got, want)
        if s.sampling_violation_counter != fresh.sampling_violation_counter: print('COUNTER', txt(f))
    except Exception as e:
        exc += 1
        if exc <= 3: print('EXC10', txt(f), type(e).__name__, str(e)[:80])
    # dense reset
    g = gen(random.randint(1,3), ['a','b'], future=False, shifts=False)
    try:
        s = mkc(txt(g)); fresh = mkc(txt(g))
        ch = lambda X, Y: (['a', [[float(i), X[i]] for i in range(n)]], ['b', [[float(i), Y[i]] for i in range(n)]])
        want = fresh.update(*ch(A[1], B[1]))
        if random.random() < 0.7: s.update(*ch(A[0], B[0]))
        s.reset()
        got = s.update(*ch(A[1], B[1]))
        if got != want:
            bad10d += 1
            if bad10d <= 3: print('DIFF10dense', txt(g), got, want)
    except Exception as e:
        exc += 1
        if exc <= 6: print('EXC10d', txt(g), type(e).__name__, str(e)[:80])
    # C09 modular vs inlined (discrete online + offline)
    p = gen(random.randint(1,2), ['a','b'], future=False)
    outer = random.choice(['(p) and (%s)', '(p) or (p)', 'once[0,2](p) and prev(p)', '((p) since (%s))', 'rise(p) or fall(p)'])
    other = txt(gen(1, ['a','b'], future=False))
    ot = outer.replace('%s', other)
    try:
        inl = ot.replace('p', '(' + txt(p) + ')') if False else ot.replace('(p)', '(' + txt(p) + ')')
        m = mkd(ot.replace('(p)', '(pp)'), subs=[('pp', txt(p))]); il = mkd(inl)
        r1 = [m.update(i, [('a', A[2][i]), ('b', B[2][i])]) for i in range(n)]
        r2 = [il.update(i, [('a', A[2][i]), ('b', B[2][i])]) for i in range(n)]
        if r1 != r2:
            bad09 += 1
            if bad09 <= 3: print('DIFF09', ot, '| p =', txt(p), r1, r2)
    except Exception as e:
        exc += 1
        if exc <= 9: print('EXC09', ot, txt(p), type(e).__name__, str(e)[:100])
print('trials', N, 'bad C10', bad10, 'bad C10 dense', bad10d, 'bad C09', bad09, 'exc', exc)
