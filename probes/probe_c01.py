import sys, random
sys.path.insert(0, '/repo'); sys.path.insert(0, '/verif/probes')
import rtamt
from ref_discrete import *
random.seed(int(sys.argv[1]) if len(sys.argv)>1 else 1)
bad = exc = 0
N = int(sys.argv[2]) if len(sys.argv)>2 else 400
for trial in range(N):
    f = gen(random.randint(1,3), ['a','b'])
    n = random.randint(1, 9)
    w = {'a': [float(random.randint(-3,3)) for _ in range(n)], 'b': [float(random.randint(-3,3)) for _ in range(n)]}
    spec = rtamt.StlDiscreteTimeSpecification()
    spec.declare_var('a','float'); spec.declare_var('b','float'); spec.declare_var('out','float')
    spec.spec = 'out = ' + txt(f)
    try:
        spec.parse()
        res = spec.evaluate({'time': list(range(n)), 'a': list(w['a']), 'b': list(w['b'])})
    except Exception as e:
        exc += 1
        if exc <= 3: print('EXC', spec.spec, n, type(e).__name__, str(e)[:80])
        continue
    got = [v for _, v in res]
    want = ev(f, w, n)
    if got != want:
        bad += 1
        if bad <= 4: print('DIFF', spec.spec, w, '\n  got ', got, '\n  want', want)
print('trials', N, 'bad', bad, 'exc', exc)
