import sys, random, copy
sys.path.insert(0, '/repo'); sys.path.insert(0, '/verif/probes')
import rtamt, logging
logging.disable(logging.CRITICAL)
from ref_discrete import gen, txt, ev
random.seed(int(sys.argv[1]) if len(sys.argv)>1 else 1)
N = int(sys.argv[2]) if len(sys.argv)>2 else 300
bad = {}
def note(k, *info):
    bad[k] = bad.get(k, 0) + 1
    if bad[k] <= 3: print('DIFF', k, *info)
for trial in range(N):
    n = random.randint(1, 7)
    a = [float(random.randint(-3,3)) for _ in range(n)]; b = [float(random.randint(-3,3)) for _ in range(n)]
    p = gen(random.randint(1,2), ['a','b'], unbounded_future=False)
    q = gen(random.randint(1,2), ['a','b'], unbounded_future=False)
    top = ('and', ('var','pp'), ('or', ('var','qq'), ('var','pp')))
    # offline
    try:
        s = rtamt.StlDiscreteTimeSpecification()
        for v in ('a','b','out','pp','qq'): s.declare_var(v,'float')
        s.add_sub_spec('pp = %s;' % txt(p)); s.add_sub_spec('qq = %s;' % txt(q))
        s.spec = 'out = (pp) and ((qq) or (pp))'
        s.parse()
        s.evaluate({'time': list(range(n)), 'a': list(a), 'b': list(b)})
        for nm, f in (('pp', p), ('qq', q)):
            got = s.get_value(nm)
            want = ev(f, {'a': a, 'b': b}, n)
            if list(got) != want: note('offline get_value', nm, txt(f), a, b, got, want)
        if len(s.get_value('out')) != n: note('offline length', n, s.get_value('out'))
    except Exception as e:
        note('EXC offline %s' % type(e).__name__, txt(p), str(e)[:80])
    # online (past-only)
    p2 = gen(random.randint(1,2), ['a','b'], future=False); q2 = gen(random.randint(1,2), ['a','b'], future=False)
    try:
        s = rtamt.StlDiscreteTimeSpecification()
        for v in ('a','b','out','pp','qq'): s.declare_var(v,'float')
        s.add_sub_spec('pp = %s;' % txt(p2)); s.add_sub_spec('qq = %s;' % txt(q2))
        s.spec = 'out = (pp) and ((qq) or (pp))'
        s.parse()
        for i in range(n):
            s.update(i, [('a', a[i]), ('b', b[i])])
            for nm, f in (('pp', p2), ('qq', q2)):
                got = s.get_value(nm); want = ev(f, {'a': a[:i+1], 'b': b[:i+1]}, i+1)[i]
                if got != want: note('online get_value', nm, txt(f), 'i', i, got, want); break
    except Exception as e:
        note('EXC online %s' % type(e).__name__, txt(p2), str(e)[:80])
    # C13: counter
    period = random.choice([10, 100]); tol = random.choice([0.0, 0.1, 0.3])
    gaps = [float(round(period * random.choice([1, 1, 1, 1 + tol, 1 - tol, 1 + tol + 0.1, 1 - tol - 0.1, 2, 0.5]))) for _ in range(n - 1)]
    ts = [0.0]
    for g in gaps: ts.append(ts[-1] + g)
    want = sum(1 for g in gaps if g < period - period*tol - 1e-12 or g > period + period*tol + 1e-12)
    exact = sum(1 for g in gaps if g < period*(1-tol) or g > period*(1+tol))
    try:
        s = rtamt.StlDiscreteTimeSpecification(); s.declare_var('a','float'); s.declare_var('out','float')
        s.set_sampling_period(period, 's', tol); s.spec = 'out = a'; s.parse()
        s.evaluate({'time': list(ts), 'a': list(a)})
        c_off = s.sampling_violation_counter if hasattr(s, 'sampling_violation_counter') else None
        s2 = rtamt.StlDiscreteTimeSpecification(); s2.declare_var('a','float'); s2.declare_var('out','float')
        s2.set_sampling_period(period, 's', tol); s2.spec = 'out = a'; s2.parse()
        for i in range(n): s2.update(ts[i], [('a', a[i])])
        c_on = s2.sampling_violation_counter
        off = s.offline_interpreter.sampling_violation_counter
        if c_on != exact: note('C13 online counter', period, tol, gaps, c_on, exact)
        if off != exact: note('C13 offline counter', period, tol, gaps, off, exact)
    except Exception as e:
        note('EXC C13 %s' % type(e).__name__, str(e)[:80])
print('trials', N, bad)
