import sys, random
sys.path.insert(0, '/repo'); sys.path.insert(0, '/verif/probes')
import rtamt, logging
logging.disable(logging.CRITICAL)
from ref_discrete import gen, txt
from ref_dense import *
random.seed(int(sys.argv[1]) if len(sys.argv)>1 else 1)
N = int(sys.argv[2]) if len(sys.argv)>2 else 300
def hor(g):
    op = g[0]
    if op in ('var','const'): return 0
    kids = [x for x in g[1:] if isinstance(x, tuple) and len(x) > 0 and isinstance(x[0], str)]
    h = max([hor(k) for k in kids] or [0])
    if op in ('eventually','always') and g[2] is not None: return h + g[2][1]
    if op == 'until' and g[3] is not None: return h + g[3][1]
    return h
bad = 0; byop = {}
for trial in range(N):
    f = gen(random.randint(1,2), ['a','b'], shifts=False, unbounded_future=False)
    Tend = random.randint(4, 9)
    def sig(t0):
        ts = sorted(set([t0] + random.sample(range(t0+1, Tend), random.randint(0, min(3, Tend-t0-1)))) | {Tend})
        return [[float(t), float(random.randint(-3,3))] for t in ts]
    sa, sb = sig(random.choice([0,1,2])), sig(random.choice([0,1,2]))
    s0 = int(max(sa[0][0], sb[0][0]))
    def restrict(sg):
        v = None
        for t, x in sg:
            if t <= s0: v = x
        out = [[0.0, v]] + [[t - s0, x] for t, x in sg if t > s0]
        return out
    ra, rb = restrict(sa), restrict(sb)
    ncell = 2*(Tend + 12)
    w = {'a': cells_of_signal(ra, ncell), 'b': cells_of_signal(rb, ncell)}
    spec = rtamt.StlDenseTimeSpecification()
    for v in ('a','b','out'): spec.declare_var(v,'float')
    spec.spec = 'out = ' + txt(f)
    try:
        spec.parse()
        res = spec.evaluate(['a', [list(s) for s in sa]], ['b', [list(s) for s in sb]])
    except Exception as e:
        print('EXC', spec.spec, type(e).__name__, str(e)[:80]); continue
    want = evd(f, w, ncell)
    got = cells_of_signal([[t - s0, v] for t, v in res], ncell)
    h = hor(f)
    lim = 2*(Tend - s0 - h)
    diffs = [c for c in range(0, max(lim, 0)) if got[c] != want[c]]
    if diffs:
        bad += 1; byop[f[0]] = byop.get(f[0], 0) + 1
        if bad <= 5: print('DIFF', spec.spec, 'a=', sa, 'b=', sb, 'domain starts at', s0, 'first diff at t=', s0 + diffs[0]/2.0, '\n   got ', res, '\n   want (shifted cells)', want[:lim])
print('trials', N, 'bad', bad, byop)
