"""reference discrete-time STL robustness (README Theory; prev/next weak = +inf... per property overrides) and random formula generator"""
import math, random
INF = float('inf')
def ev(f, w, n):
    """f: tuple AST; w: dict var -> list; returns list of length n"""
    op = f[0]
    if op == 'var': return list(w[f[1]])
    if op == 'const': return [f[1]] * n
    if op in ('+','-','*'):
        l, r = ev(f[1], w, n), ev(f[2], w, n)
        return [ {'+': a+b, '-': a-b, '*': a*b}[op] for a, b in zip(l, r)]
    if op == 'abs': return [abs(x) for x in ev(f[1], w, n)]
    if op == 'neg_arith': return [-x for x in ev(f[1], w, n)]
    if op in ('>=','<=','>','<','==','!=='):
        l, r = ev(f[1], w, n), ev(f[2], w, n)
        d = [a-b for a,b in zip(l,r)]
        return {'>=': d, '>': d, '<=': [-x for x in d], '<': [-x for x in d], '==': [-abs(x) for x in d], '!==': [abs(x) for x in d]}[op]
    if op == 'not': return [-x for x in ev(f[1], w, n)]
    if op == 'and': return [min(a,b) for a,b in zip(ev(f[1],w,n), ev(f[2],w,n))]
    if op == 'or': return [max(a,b) for a,b in zip(ev(f[1],w,n), ev(f[2],w,n))]
    if op == 'implies': return [max(-a,b) for a,b in zip(ev(f[1],w,n), ev(f[2],w,n))]
    if op == 'iff': return [-abs(a-b) for a,b in zip(ev(f[1],w,n), ev(f[2],w,n))]
    if op == 'xor': return [abs(a-b) for a,b in zip(ev(f[1],w,n), ev(f[2],w,n))]
    if op == 'rise':
        x = ev(f[1], w, n); return [min(x[t], -(x[t-1] if t > 0 else -INF)) for t in range(n)] if False else [min(x[t], -x[t-1]) if t>0 else min(x[t], INF) for t in range(n)]
    if op == 'fall':
        x = ev(f[1], w, n); return [min(-x[t], x[t-1]) if t>0 else min(-x[t], INF) for t in range(n)]
    if op == 'prev':
        x = ev(f[1], w, n); return [x[t-1] if t>0 else INF for t in range(n)]
    if op == 's_prev':
        x = ev(f[1], w, n); return [x[t-1] if t>0 else -INF for t in range(n)]
    if op == 'next':
        x = ev(f[1], w, n); return [x[t+1] if t+1<n else INF for t in range(n)]
    if op == 's_next':
        x = ev(f[1], w, n); return [x[t+1] if t+1<n else -INF for t in range(n)]
    if op in ('once','historically','eventually','always'):
        x = ev(f[1], w, n); iv = f[2]
        agg = max if op in ('once','eventually') else min
        neutral = -INF if agg is max else INF
        out = []
        for t in range(n):
            if iv is None:
                rng = range(0, t+1) if op in ('once','historically') else range(t, n)
            else:
                a, b = iv
                rng = range(t-b, t-a+1) if op in ('once','historically') else range(t+a, t+b+1)
            vals = [x[k] for k in rng if 0 <= k < n]
            out.append(agg(vals) if vals else neutral)
        return out
    if op in ('since','until'):
        l, r = ev(f[1], w, n), ev(f[2], w, n); iv = f[3]
        out = []
        for t in range(n):
            best = -INF
            if op == 'since':
                ks = range(0, t+1) if iv is None else range(t-iv[1], t-iv[0]+1)
                for k in ks:
                    if 0 <= k < n:
                        m = min([r[k]] + [l[j] for j in range(k+1, t+1)])
                        best = max(best, m)
            else:
                ks = range(t, n) if iv is None else range(t+iv[0], t+iv[1]+1)
                for k in ks:
                    if 0 <= k < n:
                        m = min([r[k]] + [l[j] for j in range(t, k)])
                        best = max(best, m)
            out.append(best)
        return out
    raise ValueError(op)

def txt(f):
    op = f[0]
    if op == 'var': return f[1]
    if op == 'const': return repr(float(f[1]))
    if op in ('+','-','*','>=','<=','>','<','==','!=='): return '(%s %s %s)' % (txt(f[1]), op, txt(f[2]))
    if op == 'abs': return 'abs(%s)' % txt(f[1])
    if op == 'neg_arith': return '(-(%s))' % txt(f[1])
    if op == 'not': return 'not(%s)' % txt(f[1])
    if op in ('and','or','implies','iff','xor'): return '((%s) %s (%s))' % (txt(f[1]), op, txt(f[2]))
    if op in ('rise','fall','prev','s_prev','next','s_next'): return '%s(%s)' % (op, txt(f[1]))
    if op in ('once','historically','eventually','always'):
        return '%s%s(%s)' % (op, '' if f[2] is None else '[%d,%d]' % f[2], txt(f[1]))
    if op in ('since','until'):
        return '((%s) %s%s (%s))' % (txt(f[1]), op, '' if f[3] is None else '[%d,%d]' % f[3], txt(f[2]))

def gen_arith(d, vars_):
    if d == 0 or random.random() < 0.4:
        return ('var', random.choice(vars_)) if random.random() < 0.8 else ('const', random.randint(-2, 2))
    op = random.choice(['+','-','abs','neg_arith','*'])
    if op in ('abs','neg_arith'): return (op, gen_arith(d-1, vars_))
    return (op, gen_arith(d-1, vars_), gen_arith(d-1, vars_))

def gen(d, vars_, future=True, past=True, unbounded_future=True, shifts=True):
    if d == 0 or random.random() < 0.15:
        return (random.choice(['>=','<=','>','<']), gen_arith(1, vars_), gen_arith(1, vars_))
    ops = ['not','and','or','implies']
    if shifts: ops += ['rise','fall','prev','s_prev']
    if past: ops += ['once','historically','since','onceb','historicallyb','sinceb']
    if future:
        ops += ['eventuallyb','alwaysb','untilb']
        if shifts: ops += ['next','s_next']
        if unbounded_future: ops += ['eventually','always','until']
    op = random.choice(ops)
    g = lambda: gen(d-1, vars_, future, past, unbounded_future, shifts)
    def iv():
        a = random.choice([0,0,1,2]); return (a, a + random.choice([0,1,2,3]))
    if op in ('not','rise','fall','prev','s_prev','next','s_next'): return (op, g())
    if op in ('and','or','implies'): return (op, g(), g())
    if op in ('once','historically','eventually','always'): return (op, g(), None)
    if op in ('onceb','historicallyb','eventuallyb','alwaysb'): return (op[:-1], g(), iv())
    if op in ('since','until'): return (op, g(), g(), None)
    return (op[:-1], g(), g(), iv())
