import sys, random, json
sys.path.insert(0, '/repo'); sys.path.insert(0, '/verif/probes')
import rtamt
from ref_discrete import *
def mk(t):
    s = rtamt.StlDiscreteTimeSpecification(); s.declare_var('a','float'); s.declare_var('b','float'); s.declare_var('out','float'); s.spec = 'out = ' + t; s.parse(); return s
P = ('var','a'); Q = ('var','b')
pa = ('>=', P, ('const', 0)); pb = ('>=', Q, ('const', 0))
fut = ('next', pa)
cases = {
 'visitOnce': ('once', fut, None),
 'visitHistorically': ('historically', ('eventually', pa, (0,1)), None),
 'visitSince': ('since', pb, fut, None),
 'visitPrevious': ('prev', fut),
 'visitStrongPrevious': ('s_prev', fut),
 'visitRise': ('rise', fut),
 'visitFall': ('fall', fut),
 'visitTimedOnce': ('once', fut, (0,1)),
 'visitTimedHistorically': ('historically', ('eventually', pa, (0,1)), (0,1)),
 'visitTimedSince': ('since', pb, fut, (0,1)),
}
def hor(g):
    op = g[0]
    if op in ('var','const'): return 0
    kids = [x for x in g[1:] if isinstance(x, tuple) and len(x) > 0 and isinstance(x[0], str)]
    h = max([hor(k) for k in kids] or [0])
    if op in ('eventually','always') and g[2] is not None: return h + g[2][1]
    if op == 'until' and g[3] is not None: return h + g[3][1]
    if op in ('next','s_next'): return h + 1
    return h
random.seed(3)
out = {}
for name, f in cases.items():
    h = hor(f)
    found = None
    for trial in range(400):
        n = random.randint(2, 5)
        w = {'a': [float(random.choice([-1, 5, -3, 2])) for _ in range(n)], 'b': [float(random.choice([-1, 5, 2])) for _ in range(n)]}
        s = mk(txt(f)); s.pastify()
        got = [s.update(i, [('a', w['a'][i]), ('b', w['b'][i])]) for i in range(n)]
        for i in range(h, n):
            want_i = ev(f, {k: v[:i+1] for k, v in w.items()}, i+1)[i-h]
            if got[i] != want_i:
                cand = (n, i, w, got[i], want_i)
                if found is None or cand[0] < found[0]: found = cand
                break
    print(name, txt(f), 'h=%d' % h, found)
    if found:
        n, i, w, g, wnt = found
        out[name] = "'out = %s', a = %s, b = %s: update %d returns %s, the offline robustness at sample %d of the trace seen so far is %s" % (txt(f), w['a'], w['b'], i, g, i-h, wnt)
json.dump(out, open('/tmp/pr/c03_witnesses.json','w'), indent=1)
