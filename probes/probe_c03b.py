import sys, random
sys.path.insert(0, '/repo'); sys.path.insert(0, '/verif/probes')
import rtamt
from ref_discrete import *
random.seed(int(sys.argv[1]) if len(sys.argv)>1 else 1)
N = int(sys.argv[2]) if len(sys.argv)>2 else 400
def mk(t):
    spec = rtamt.StlDiscreteTimeSpecification()
    spec.declare_var('a','float'); spec.declare_var('b','float'); spec.declare_var('out','float')
    spec.spec = 'out = ' + t; spec.parse(); return spec
bad2 = bad3 = exc = 0
for trial in range(N):
    n = random.randint(1, 10)
    w = {'a': [float(random.randint(-3,3)) for _ in range(n)], 'b': [float(random.randint(-3,3)) for _ in range(n)]}
    # C02: past-only formula online vs reference at each prefix
    f = gen(random.randint(1,3), ['a','b'], future=False)
    try:
        s = mk(txt(f))
        got = [s.update(i, [('a', w['a'][i]), ('b', w['b'][i])]) for i in range(n)]
    except Exception as e:
        exc += 1
        if exc <= 3: print('EXC2', txt(f), type(e).__name__, str(e)[:80])
        got = None
    if got is not None:
        want = ev(f, w, n)
        if got != want:
            bad2 += 1
            if bad2 <= 3: print('DIFF2', txt(f), w, '\n  got ', got, '\n  want', want)
    # C03: bounded-future formula pastified
    f = gen(random.randint(1,3), ['a','b'], unbounded_future=False)
    try:
        s = mk(txt(f)); s.pastify()
        got = [s.update(i, [('a', w['a'][i]), ('b', w['b'][i])]) for i in range(n)]
    except Exception as e:
        exc += 1
        if exc <= 6: print('EXC3', txt(f), type(e).__name__, str(e)[:80])
        continue
    def hor(g):
        op = g[0]
        if op in ('var','const'): return 0
        kids = [x for x in g[1:] if isinstance(x, tuple) and x and isinstance(x[0], str) and x[0] not in ()]
        kids = [x for x in g[1:] if isinstance(x, tuple) and len(x) > 0 and isinstance(x[0], str)]
        h = max([hor(k) for k in kids] or [0])
        if op in ('eventually','always') and g[2] is not None: return h + g[2][1]
        if op == 'until' and g[3] is not None: return h + g[3][1]
        if op in ('next','s_next'): return h + 1
        return h
    h = hor(f)
    PAST = ('once','historically','since','prev','s_prev','rise','fall')
    def pof(g):
        if g[0] in ('var','const'): return False
        kids = [x for x in g[1:] if isinstance(x, tuple) and len(x) > 0 and isinstance(x[0], str)]
        if g[0] in PAST and any(hor(k) > 0 for k in kids): return True
        return any(pof(k) for k in kids)
    if pof(f): continue
    for i in range(h, n):
        want_i = ev(f, {k: v[:i+1] for k, v in w.items()}, i+1)[i-h]
        if got[i] != want_i:
            bad3 += 1
            if bad3 <= 4: print('DIFF3', txt(f), 'h=',h, w, 'i=', i, 'got', got[i], 'want', want_i)
            break
print('trials', N, 'bad C02', bad2, 'bad C03', bad3, 'exc', exc)
