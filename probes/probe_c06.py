import sys, random, copy
sys.path.insert(0, '/repo'); sys.path.insert(0, '/verif/probes')
import rtamt
from rtamt import Semantics
from ref_discrete import gen, txt, ev, INF
random.seed(int(sys.argv[1]) if len(sys.argv)>1 else 1)
N = int(sys.argv[2]) if len(sys.argv)>2 else 300
CMP = ('>=','<=','>','<','==','!==')
def vars_of(f):
    if f[0] == 'var': return {f[1]}
    out = set()
    for x in f[1:]:
        if isinstance(x, tuple) and x and isinstance(x[0], str): out |= vars_of(x)
    return out
def holds(op, d):
    return {'>=': d >= 0, '<=': d <= 0, '>': d > 0, '<': d < 0, '==': d == 0, '!==': d != 0}[op]
def ia_ev(f, w, n, sem, io):
    """reference: predicates insensitive to the relevant side contribute +-inf (robustness) or 0 (vacuity)"""
    op = f[0]
    if op in CMP:
        vs = vars_of(f)
        side = 'output' if sem in (Semantics.OUTPUT_ROBUSTNESS, Semantics.OUTPUT_VACUITY) else 'input'
        sensitive = any(io[v] == side for v in vs)
        base = ev(f, w, n)
        if sem == Semantics.STANDARD or sensitive: return base
        l, r = ev(f[1], w, n), ev(f[2], w, n)
        if sem in (Semantics.OUTPUT_ROBUSTNESS, Semantics.INPUT_ROBUSTNESS):
            return [INF if holds(op, a-b) else -INF for a, b in zip(l, r)]
        return [0.0] * n
    # generic: recurse using ev's structure by substituting children results -> emulate via closure
    return None
def ia_full(f, w, n, sem, io, cache=None):
    op = f[0]
    if op in CMP: return ia_ev(f, w, n, sem, io)
    # evaluate children, then apply operator using ev on fresh variables
    kids = [x for x in f[1:] if isinstance(x, tuple) and x and isinstance(x[0], str)]
    w2 = dict(w); g = [op]; k = 0
    for x in f[1:]:
        if isinstance(x, tuple) and x and isinstance(x[0], str):
            nm = '__k%d' % k; k += 1
            w2[nm] = ia_full(x, w, n, sem, io)
            g.append(('var', nm))
        else:
            g.append(x)
    return ev(tuple(g), w2, n)
bad = {}
def note(k, *info):
    bad[k] = bad.get(k, 0) + 1
    if bad[k] <= 2: print('DIFF', k, *info)
def gen_bool(d):
    return gen(d, ['a','b'], unbounded_future=False, shifts=False)
for trial in range(N):
    n = random.randint(1, 7)
    a = [float(random.randint(-2,2)) for _ in range(n)]; b = [float(random.randint(-2,2)) for _ in range(n)]
    f = gen_bool(random.randint(1,3))
    io = {'a': random.choice(['input','output']), 'b': random.choice(['input','output'])}
    sem = random.choice([Semantics.STANDARD, Semantics.OUTPUT_ROBUSTNESS, Semantics.INPUT_ROBUSTNESS, Semantics.OUTPUT_VACUITY, Semantics.INPUT_VACUITY])
    want = ia_full(f, {'a': a, 'b': b}, n, sem, io)
    def mk(cls):
        s = cls(semantics=sem)
        for v in ('a','b','out'): s.declare_var(v,'float')
        s.set_var_io_type('a', io['a']); s.set_var_io_type('b', io['b'])
        s.spec = 'out = ' + txt(f); s.parse(); return s
    try:
        got = [v for _, v in mk(rtamt.StlDiscreteTimeSpecification).evaluate({'time': list(range(n)), 'a': list(a), 'b': list(b)})]
        if got != want: note('disc-off %s' % sem, txt(f), io, a, b, got, want)
    except Exception as e:
        note('EXC disc-off %s' % type(e).__name__, txt(f), str(e)[:70])
    # dense offline at integer points
    try:
        res = mk(rtamt.StlDenseTimeSpecification).evaluate(['a', [[float(i), a[i]] for i in range(n)]], ['b', [[float(i), b[i]] for i in range(n)]])
        def val_at(t):
            v = None
            for tt, vv in res:
                if tt <= t: v = vv
            return v
        def hor(g):
            if g[0] in ('var','const'): return 0
            kids = [x for x in g[1:] if isinstance(x, tuple) and len(x) > 0 and isinstance(x[0], str)]
            h = max([hor(k) for k in kids] or [0])
            if g[0] in ('eventually','always') and g[2] is not None: return h + g[2][1]
            if g[0] == 'until' and g[3] is not None: return h + g[3][1]
            return h
        def has(g, ops):
            return g[0] in ops or any(has(x, ops) for x in g[1:] if isinstance(x, tuple) and len(x) > 0 and isinstance(x[0], str))
        if not has(f, ('since','until')):
            for t in range(0, n - hor(f) - 1):
                if val_at(float(t)) != want[t]:
                    note('dense-off %s' % sem, txt(f), io, a, b, 't', t, res, want); break
    except Exception as e:
        note('EXC dense-off %s' % type(e).__name__, txt(f), str(e)[:70])
    # discrete online (past only)
    g = gen(random.randint(1,3), ['a','b'], future=False, shifts=False)
    want2 = ia_full(g, {'a': a, 'b': b}, n, sem, io)
    try:
        s = rtamt.StlDiscreteTimeSpecification(semantics=sem)
        for v in ('a','b','out'): s.declare_var(v,'float')
        s.set_var_io_type('a', io['a']); s.set_var_io_type('b', io['b'])
        s.spec = 'out = ' + txt(g); s.parse()
        got2 = [s.update(i, [('a', a[i]), ('b', b[i])]) for i in range(n)]
        if got2 != want2: note('disc-on %s' % sem, txt(g), io, a, b, got2, want2)
    except Exception as e:
        note('EXC disc-on %s' % type(e).__name__, txt(g), str(e)[:70])
    # dense online (past only), random chunking
    try:
        s = rtamt.StlDenseTimeSpecification(semantics=sem)
        for v in ('a','b','out'): s.declare_var(v,'float')
        s.set_var_io_type('a', io['a']); s.set_var_io_type('b', io['b'])
        s.spec = 'out = ' + txt(g); s.parse(); s.pastify()
        out = []; i = 0
        while i < n:
            k = random.randint(1, 3)
            out += s.update(['a', [[float(j), a[j]] for j in range(i, min(n, i+k))]], ['b', [[float(j), b[j]] for j in range(i, min(n, i+k))]])
            i += k
        def val2(t):
            v = None
            for tt, vv in out:
                if tt <= t: v = vv
            return v
        if not has(g, ('since',)):
            for t in range(0, n - 1):
                if val2(float(t)) != want2[t]:
                    note('dense-on %s' % sem, txt(g), io, a, b, 't', t, out, want2); break
    except Exception as e:
        note('EXC dense-on %s' % type(e).__name__, txt(g), str(e)[:70])
print('trials', N, bad)
