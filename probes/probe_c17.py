import sys, random
sys.path.insert(0, '/repo'); sys.path.insert(0, '/verif/probes')
import rtamt
from ref_discrete import gen, txt
random.seed(int(sys.argv[1]) if len(sys.argv)>1 else 1)
N = int(sys.argv[2]) if len(sys.argv)>2 else 300
def mk(cls, t, extra=()):
    s = cls()
    for v in ('a','b','out') + tuple(extra): s.declare_var(v,'float')
    s.spec = 'out = ' + t; s.parse(); return s
crash = {}
def note(kind, t, e, info=''):
    k = (kind, type(e).__name__, str(e)[:60])
    if k not in crash:
        crash[k] = (t, info)
for trial in range(N):
    n = random.choice([1, 1, 2, 3, 5])
    a = [float(random.randint(-3,3)) for _ in range(n)]; b = [float(random.randint(-3,3)) for _ in range(n)]
    f = gen(random.randint(1,3), ['a','b'])
    t = txt(f)
    # discrete offline, surplus variable, shuffled order
    try:
        s = mk(rtamt.StlDiscreteTimeSpecification, t, extra=('c',))
        ds = {'c': [0.0]*n, 'b': b, 'time': list(range(n)), 'a': a}
        s.evaluate(ds)
    except rtamt.RTAMTException as e:
        note('disc-off-RTAMT', t, e)
    except Exception as e:
        note('disc-off', t, e, (a, b))
    # discrete online (pastified if bounded future; unbounded future must raise RTAMTException)
    try:
        s = mk(rtamt.StlDiscreteTimeSpecification, t, extra=('c',))
        try:
            s.pastify()
        except rtamt.RTAMTException:
            pass
        for i in range(n):
            s.update(i, [('c', 0.0), ('b', b[i]), ('a', a[i])])
    except rtamt.RTAMTException as e:
        pass
    except Exception as e:
        note('disc-on', t, e, (a, b))
    # dense offline
    g = gen(random.randint(1,3), ['a','b'], shifts=random.random() < 0.2)
    t2 = txt(g)
    try:
        s = mk(rtamt.StlDenseTimeSpecification, t2, extra=('c',))
        s.evaluate(['c', [[0.0, 0.0]]], ['b', [[float(i), b[i]] for i in range(n)]], ['a', [[float(i), a[i]] for i in range(n)]])
    except rtamt.RTAMTException as e:
        pass
    except Exception as e:
        note('dense-off', t2, e, (a, b))
    # dense online with odd chunking
    try:
        s = mk(rtamt.StlDenseTimeSpecification, t2, extra=('c',))
        try: s.pastify()
        except rtamt.RTAMTException: pass
        i = 0
        while i < n:
            k = random.randint(0, 2)
            ca = [[float(j), a[j]] for j in range(i, min(n, i+k))]
            kb = random.randint(0, 2)
            s.update(['a', ca], ['b', [[float(j), b[j]] for j in range(i, min(n, i+k))]])
            i += k
    except rtamt.RTAMTException as e:
        if 'not implemented' not in str(e) and 'not supported' not in str(e).lower() and 'ffline' not in str(e):
            note('dense-on-RTAMT', t2, e, (a, b))
    except Exception as e:
        note('dense-on', t2, e, (a, b))
for k, v in sorted(crash.items()):
    print(k, '\n     ', v[0][:160], v[1])
print('trials', N, 'distinct', len(crash))
