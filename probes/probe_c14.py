import sys, random
sys.path.insert(0, '/repo'); sys.path.insert(0, '/verif/probes')
import rtamt, logging
logging.disable(logging.CRITICAL)
from ref_discrete import gen, txt
random.seed(int(sys.argv[1]) if len(sys.argv)>1 else 1)
N = int(sys.argv[2]) if len(sys.argv)>2 else 2000
TOK = ['a','b','out','=','(',')','[',']',',',':',';','and','or','not','implies','iff','xor','always','eventually','once','historically','since','until','unless','prev','next','rise','fall','abs','sqrt','exp','pow','>=','<=','<','>','==','!==','+','-','*','/','1','0','2.5','1e3','0x1F','0b11','1_0','ms','s','us','ns','G','F','O','H','S','U','->','<->','&','|','!','&&','||','float','int','input','output','const','import','from','@','topic','x.y','y.','1.','.5','$','#','?','"','\n','//c\n','/*c*/','T','c']
crash = {}
def attempt(text, declare=True, cls=rtamt.StlDiscreteTimeSpecification):
    s = cls()
    if declare:
        for v in ('a','b','out'): s.declare_var(v,'float')
    s.spec = text
    try:
        s.parse()
        try:
            s.pastify()
        except rtamt.RTAMTException:
            pass
        # building the monitor must also fail cleanly
        try:
            if cls is rtamt.StlDiscreteTimeSpecification:
                s.update(0, [('a', 1.0), ('b', 2.0)])
            else:
                s.update(['a', [[0.0, 1.0]]], ['b', [[0.0, 2.0]]])
        except rtamt.RTAMTException:
            pass
        return 'ok'
    except rtamt.RTAMTException:
        return 'rtamt'
    except RecursionError:
        return 'rec'
    except Exception as e:
        k = (type(e).__name__, str(e)[:50])
        if k not in crash:
            crash[k] = text
        return 'crash'
stats = {'ok':0,'rtamt':0,'crash':0,'rec':0}
for trial in range(N):
    mode = random.random()
    if mode < 0.5:
        toks = ('out = ' + txt(gen(random.randint(1,3), ['a','b']))).replace('(', ' ( ').replace(')', ' ) ').replace('[', ' [ ').replace(']', ' ] ').replace(',', ' , ').split()
        for _ in range(random.randint(1,3)):
            op = random.random()
            i = random.randrange(len(toks)) if toks else 0
            if op < 0.35 and toks: del toks[i]
            elif op < 0.7: toks.insert(i, random.choice(TOK))
            elif toks: toks[i] = random.choice(TOK)
        text = ' '.join(toks)
    else:
        text = ' '.join(random.choice(TOK) for _ in range(random.randint(1, 12)))
    r = attempt(text, declare=random.random() < 0.7, cls=random.choice([rtamt.StlDiscreteTimeSpecification, rtamt.StlDenseTimeSpecification]))
    stats[r] += 1
print(stats)
for k, v in sorted(crash.items()): print(k, '|', repr(v)[:200])
