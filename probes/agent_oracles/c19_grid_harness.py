import sys, random
sys.path.insert(0, '/tmp/seed5_C19')
import rtamt
assert rtamt.__file__.startswith('/tmp/seed5_C19'), rtamt.__file__

def dense_at(sig, t):
    v = None
    for s in sig:
        if s[0] <= t:
            v = s[1]
        else:
            break
    return v

def run(formula, vars_, data, n, period=1, unit='s', setup=None):
    # data: dict var -> list of n values
    d = rtamt.StlDiscreteTimeSpecification()
    c = rtamt.StlDenseTimeSpecification()
    for sp in (d, c):
        for v in vars_:
            sp.declare_var(v, 'float')
        if setup: setup(sp)
        sp.spec = formula
    d.set_sampling_period(period, unit, 0.1)
    d.parse(); c.parse()
    ds = {'time': [i*period for i in range(n)]}
    for v in vars_:
        ds[v] = list(data[v])
    rd = d.evaluate(ds)
    args = [[v, [[i*period, data[v][i]] for i in range(n)]] for v in vars_]
    rc = c.evaluate(*args)
    return rd, rc

def horizon(f):
    return f[1]

# formula generator returning (text, horizon)
def gen(depth, vars_, rnd):
    if depth == 0 or rnd.random() < 0.15:
        v = rnd.choice(vars_)
        k = rnd.choice([0, 1, 2, -1, 0.5])
        op = rnd.choice(['<=', '>=', '<', '>', '==', '!=='])
        ar = rnd.choice(['%s', '(%s + 1)', '(%s * 2)', 'abs(%s)', '(%s - ' + rnd.choice(vars_) + ')', '(-%s)' ])
        return ('(' + (ar % v) + ' ' + op + ' ' + str(k) + ')', 0)
    k = rnd.choice(['not', 'and', 'or', '->', 'iff', 'xor', 'once', 'hist', 'onceb', 'histb', 'evb', 'alwb'])
    a, ha = gen(depth-1, vars_, rnd)
    if k == 'not': return ('(not ' + a + ')', ha)
    if k in ('and', 'or', '->', 'iff', 'xor'):
        b, hb = gen(depth-1, vars_, rnd)
        return ('(' + a + ' ' + k + ' ' + b + ')', max(ha, hb))
    if k == 'once': return ('(once ' + a + ')', ha)
    if k == 'hist': return ('(historically ' + a + ')', ha)
    lo = rnd.randint(0, 3); hi = lo + rnd.randint(0, 3)
    if k == 'onceb': return ('(once[%d,%d] %s)' % (lo, hi, a), ha)
    if k == 'histb': return ('(historically[%d,%d] %s)' % (lo, hi, a), ha)
    if k == 'evb': return ('(eventually[%d,%d] %s)' % (lo, hi, a), ha + hi)
    if k == 'alwb': return ('(always[%d,%d] %s)' % (lo, hi, a), ha + hi)

def check(formula, hz, vars_, data, n, **kw):
    rd, rc = run('out = ' + formula, vars_ + ['out'], dict(data, out=[0]*n), n, **kw) if False else run('out = ' + formula, vars_, data, n, **kw)
    bad = []
    for t in range(n):
        if t + hz < n:   # conservative: t + hz < n (trace length n samples -> last time n-1)
            dv = rd[t][1]
            cv = dense_at(rc, t * kw.get('period', 1))
            if dv != cv and not (dv != dv and cv != cv):
                bad.append((t, dv, cv))
    return bad, rd, rc

if __name__ == '__main__':
    seed = int(sys.argv[1]) if len(sys.argv) > 1 else 0
    N = int(sys.argv[2]) if len(sys.argv) > 2 else 300
    rnd = random.Random(seed)
    vars_ = ['x', 'y']; import logging; logging.disable(logging.WARNING)
    nbad = 0
    for it in range(N):
        f, hz = gen(rnd.randint(1, 4), vars_, rnd)
        n = rnd.randint(hz + 2, hz + 14)
        data = {v: [rnd.choice([-2, -1, 0, 0.5, 1, 2, 3]) for _ in range(n)] for v in vars_}
        try:
            bad, rd, rc = check(f, hz, vars_, data, n)
        except Exception as e:
            print('EXC', f, repr(e)); nbad += 1; continue
        if bad:
            nbad += 1
            print('MISMATCH', f, data, bad[:3])
    print('done', N, 'bad', nbad)
