# Brute-force reference for dense-time STL robustness over piecewise-constant signals.
# Works on the rtamt AST (class names only), default unit everywhere (bounds used as numbers).
import math

INF = float('inf')


def step(sig, t):
    """value of right-continuous step function given as [[t,v],...] at time t (last value held)"""
    v = None
    for s in sig:
        if s[0] <= t:
            v = s[1]
        else:
            break
    return v


class Ref(object):
    def __init__(self, data, t0):
        self.data = data
        self.t0 = t0

    # break-points (superset of the instants where the value of node may change)
    def bps(self, n):
        c = n.__class__.__name__
        ch = n.children
        if c == 'Variable':
            return set(s[0] for s in self.data[n.var])
        if c == 'Constant':
            return set()
        if c in ('TimedEventually', 'TimedAlways'):
            a, b = float(n.begin), float(n.end)
            out = set()
            for p in self.bps(ch[0]):
                out.add(p - a); out.add(p - b)
            return out
        if c in ('TimedOnce', 'TimedHistorically'):
            a, b = float(n.begin), float(n.end)
            out = set([self.t0 + a])
            for p in self.bps(ch[0]):
                out.add(p + a); out.add(p + b)
            return out
        if c == 'TimedUntil':
            a, b = float(n.begin), float(n.end)
            out = set()
            for p in self.bps(ch[0]) | self.bps(ch[1]):
                out.add(p); out.add(p - a); out.add(p - b)
            return out
        if c == 'TimedSince':
            a, b = float(n.begin), float(n.end)
            out = set([self.t0 + a])
            for p in self.bps(ch[0]) | self.bps(ch[1]):
                out.add(p); out.add(p + a); out.add(p + b)
            return out
        out = set()
        for k in ch:
            out |= self.bps(k)
        return out

    def pts(self, nodes, lo, hi):
        """lo plus every break-point of the nodes in (lo, hi]"""
        out = set([lo])
        for n in nodes:
            for p in self.bps(n):
                if lo < p <= hi:
                    out.add(p)
        return sorted(out)

    def val(self, n, t):
        c = n.__class__.__name__
        ch = n.children
        V = self.val
        if c == 'Variable':
            return step(self.data[n.var], t)
        if c == 'Constant':
            return n.val
        if c == 'Predicate':
            l, r = V(ch[0], t), V(ch[1], t)
            o = str(n.operator)
            if o in ('<', '<='):
                return r - l
            if o in ('>', '>='):
                return l - r
            if o == '==':
                return -abs(l - r)
            return abs(l - r)
        if c in ('Neg', 'Negate'):
            return -V(ch[0], t)
        if c == 'Abs':
            return abs(V(ch[0], t))
        if c == 'Addition':
            return V(ch[0], t) + V(ch[1], t)
        if c == 'Subtraction':
            return V(ch[0], t) - V(ch[1], t)
        if c == 'Multiplication':
            return V(ch[0], t) * V(ch[1], t)
        if c == 'Conjunction':
            return min(V(ch[0], t), V(ch[1], t))
        if c == 'Disjunction':
            return max(V(ch[0], t), V(ch[1], t))
        if c == 'Implies':
            return max(-V(ch[0], t), V(ch[1], t))
        if c == 'Iff':
            return -abs(V(ch[0], t) - V(ch[1], t))
        if c == 'Xor':
            return abs(V(ch[0], t) - V(ch[1], t))
        if c == 'Eventually':
            return max(V(ch[0], s) for s in self.pts(ch, t, INF))
        if c == 'Always':
            return min(V(ch[0], s) for s in self.pts(ch, t, INF))
        if c == 'Once':
            return max(V(ch[0], s) for s in self.pts(ch, self.t0, t))
        if c == 'Historically':
            return min(V(ch[0], s) for s in self.pts(ch, self.t0, t))
        if c in ('TimedEventually', 'TimedAlways'):
            a, b = float(n.begin), float(n.end)
            vs = [V(ch[0], s) for s in self.pts(ch, t + a, t + b)]
            return max(vs) if c == 'TimedEventually' else min(vs)
        if c in ('TimedOnce', 'TimedHistorically'):
            a, b = float(n.begin), float(n.end)
            lo, hi = max(t - b, self.t0), t - a
            if hi < lo:
                return -INF if c == 'TimedOnce' else INF
            vs = [V(ch[0], s) for s in self.pts(ch, lo, hi)]
            return max(vs) if c == 'TimedOnce' else min(vs)
        if c in ('Until', 'TimedUntil'):
            a, b = (0.0, INF) if c == 'Until' else (float(n.begin), float(n.end))
            best = -INF
            for t1 in self.pts(ch, t + a, t + b):
                f = min(V(ch[0], s) for s in self.pts(ch, t, t1))
                best = max(best, min(V(ch[1], t1), f))
            return best
        if c in ('Since', 'TimedSince'):
            a, b = (0.0, INF) if c == 'Since' else (float(n.begin), float(n.end))
            lo, hi = max(t - b, self.t0), t - a
            if hi < lo:
                return -INF
            best = -INF
            for t1 in self.pts(ch, lo, hi):
                # f must hold on [t1, t]; f,g are constant on [t1, next break-point)
                f = min(V(ch[0], s) for s in self.pts(ch, t1, t))
                best = max(best, min(V(ch[1], t1), f))
            return best
        raise Exception('oracle: unsupported node ' + c)


def check(spec, data, out, t_end=None, verbose=False):
    """compare the list `out` (read as right-continuous step function) with the reference at
    every candidate instant and mid-point of the common input domain; returns list of mismatches"""
    root = spec.ast.specs[-1]
    t0 = max(sig[0][0] for sig in data.values())
    if t_end is None:
        t_end = min(sig[-1][0] for sig in data.values())
    ref = Ref(data, t0)
    cand = set(p for p in ref.bps(root) if t0 <= p <= t_end)
    cand |= set(s[0] for s in out if t0 <= s[0] <= t_end)
    cand |= set([t0, t_end])
    cand = sorted(cand)
    probes = list(cand)
    for p, q in zip(cand, cand[1:]):
        probes.append((p + q) / 2.0)
    bad = []
    # structural: non-decreasing time-stamps, starts at t0
    ts = [s[0] for s in out]
    if ts != sorted(ts):
        bad.append(('time-stamps not sorted', ts))
    if not out or out[0][0] != t0:
        bad.append(('does not start at the domain start', out[:1]))
    for t in sorted(probes):
        want = ref.val(root, t)
        got = step(out, t)
        if got != want and not (isinstance(got, float) and isinstance(want, float) and math.isnan(got) and math.isnan(want)):
            bad.append((t, got, want))
    return bad
