import sys, random, logging
sys.path.insert(0, '/tmp/seed4_C04'); sys.path.insert(0, '/tmp/seed4_C04/seeds/scratch')
logging.disable(logging.CRITICAL)
import rtamt
assert rtamt.__file__.startswith('/tmp/seed4_C04'), rtamt.__file__
from fractions import Fraction as F
from oracle import *

VARS = ['a', 'b', 'c']
def gen(depth, rnd):
    """returns (text, fn(env)->Step)"""
    if depth == 0 or rnd.random() < 0.15:
        v = rnd.choice(VARS)
        k = rnd.choice([-2, -1, 0, 1, 2, 3])
        op = rnd.choice(['<=', '>='])
        if op == '<=':
            return '(%s <= %d)' % (v, k), (lambda env, v=v, k=k: unop(env[v], lambda x: k - x))
        return '(%s >= %d)' % (v, k), (lambda env, v=v, k=k: unop(env[v], lambda x: x - k))
    kind = rnd.choice(OPS)
    if kind in ('not',):
        t, f = gen(depth - 1, rnd)
        return '(not %s)' % t, lambda env, f=f: unop(f(env), lambda x: -x)
    if kind in ('and', 'or', 'implies'):
        t1, f1 = gen(depth - 1, rnd); t2, f2 = gen(depth - 1, rnd)
        fn = {'and': min, 'or': max, 'implies': lambda x, y: max(-x, y)}[kind]
        return '(%s %s %s)' % (t1, kind, t2), lambda env, f1=f1, f2=f2, fn=fn: binop(f1(env), f2(env), fn)
    if kind in ('always', 'eventually', 'once', 'historically'):
        t, f = gen(depth - 1, rnd)
        if rnd.random() < 0.3:
            a, b = F(0), INF
            txt = '(%s %s)' % (kind, t)
        else:
            a = F(rnd.choice([0, 0, 1, 2, 3]), 2); b = a + F(rnd.choice([0, 1, 2, 3, 5, 9, 30]), 2)
            txt = '(%s[%s:%s] %s)' % (kind, float(a), float(b), t)
        op = {'always': alw, 'eventually': ev, 'once': once, 'historically': hist}[kind]
        return txt, lambda env, f=f, op=op, a=a, b=b: op(f(env), a, b)
    if kind == 'unless':
        t1, f1 = gen(depth - 1, rnd); t2, f2 = gen(depth - 1, rnd)
        if rnd.random() < 0.3:
            txt = '(%s unless %s)' % (t1, t2)
            return txt, lambda env, f1=f1, f2=f2: binop(alw(f1(env), F(0), INF), until(f1(env), f2(env)), max)
        a = F(rnd.choice([0, 0, 1, 2, 3]), 2); b = a + F(rnd.choice([0, 1, 2, 3, 5, 9, 30]), 2)
        txt = '(%s unless[%s:%s] %s)' % (t1, float(a), float(b), t2)
        return txt, lambda env, f1=f1, f2=f2, a=a, b=b: binop(alw(f1(env), F(0), b), until(f1(env), f2(env), a, b), max)
    if kind in ('until', 'since'):
        t1, f1 = gen(depth - 1, rnd); t2, f2 = gen(depth - 1, rnd)
        if rnd.random() < 0.3:
            a, b = F(0), INF
            txt = '(%s %s %s)' % (t1, kind, t2)
        else:
            a = F(rnd.choice([0, 0, 1, 2, 3]), 2); b = a + F(rnd.choice([0, 1, 2, 3, 5, 9, 30]), 2)
            txt = '(%s %s[%s:%s] %s)' % (t1, kind, float(a), float(b), t2)
        op = until if kind == 'until' else since
        return txt, lambda env, f1=f1, f2=f2, op=op, a=a, b=b: op(f1(env), f2(env), a, b)

def gen_sig(rnd, start0=True):
    n = rnd.randint(2, 6)
    t = F(0) if start0 else F(rnd.randint(0, 4), 4)
    pts = []
    for i in range(n):
        pts.append([t, rnd.choice([-3, -2, -1, 0, 1, 2, 3, 0.5])])
        t += F(rnd.randint(1, 8), 4)
    # no equal consecutive values? allowed. keep.
    return pts

def run(seed, depth, start0=True, same_end=False):
    rnd = random.Random(seed)
    txt, fn = gen(depth, rnd)
    sigs = {v: gen_sig(rnd, start0) for v in VARS}
    if same_end:
        te = max(s[-1][0] for s in sigs.values())
        for s in sigs.values():
            if s[-1][0] < te: s.append([te, s[-1][1]])
    spec = rtamt.StlDenseTimeSpecification()
    for v in VARS: spec.declare_var(v, 'float')
    spec.spec = 'out = ' + txt
    spec.parse()
    data = [[v, [[float(t), x] for t, x in sigs[v]]] for v in VARS]
    try:
        out = spec.evaluate(*data)
    except Exception as e:
        return txt, sigs, 'EXC %r' % e
    env = {v: Step(sigs[v]) for v in VARS}
    ref = fn(env)
    t_end = min(s[-1][0] for s in sigs.values())
    errs = compare(out, ref, t_end)
    return txt, sigs, (errs, out, ref.pts) if errs else None

if __name__ == '__main__':
    OPS = sys.argv[1].split(',')
    depth = int(sys.argv[2]); n = int(sys.argv[3])
    start0 = (len(sys.argv) <= 4 or sys.argv[4] == '1')
    same_end = len(sys.argv) > 5 and sys.argv[5] == '1'
    bad = 0
    for s in range(n):
        txt, sigs, r = run(s, depth, start0, same_end)
        if r:
            bad += 1
            if bad <= 3:
                print('seed', s, txt); 
                for v in VARS: print('  ', v, [[float(t), x] for t, x in sigs[v]])
                if isinstance(r, str): print('  ', r)
                else:
                    print('   errs', [(k, float(t) if t is not None and not isinstance(t, list) else t, v) for k, t, v in r[0][:4]])
                    print('   out', r[1]); print('   ref', [(float(t), v) for t, v in r[2]])
    print('bad', bad, 'of', n)
