import sys, random, math
sys.path.insert(0, '/tmp/seed5_C03')
import rtamt
assert rtamt.__file__.startswith('/tmp/seed5_C03'), rtamt.__file__
import logging; logging.disable(logging.CRITICAL)
from fractions import Fraction

VARS = ['x', 'y', 'z']

def gen(depth, rng, fut=True):
    if depth == 0:
        v = rng.choice(VARS)
        c = rng.choice([0, 1, 2, -1, 0.5])
        return '(%s %s %s)' % (v, rng.choice(['>=', '<=', '>', '<']), c)
    k = rng.random()
    a = rng.randint(0, 3); b = a + rng.randint(0, 3)
    iv = '[%d,%d]' % (a, b)
    ops1 = ['not', 'once' + iv, 'historically' + iv, 'once', 'historically', 'prev', 'rise', 'fall']
    if fut:
        ops1 += ['eventually' + iv, 'always' + iv, 'next', 'eventually' + iv, 'always' + iv]
    ops2 = ['and', 'or', '->', 'iff', 'xor', 'since', 'since' + iv]
    if fut:
        ops2 += ['until' + iv, 'until' + iv]
    PAST = ('once', 'historically', 'prev', 'rise', 'fall', 'since')
    if k < 0.5:
        op = rng.choice(ops1)
        f2 = fut and not op.startswith(PAST)
        return '(%s %s)' % (op, gen(depth - 1, rng, f2))
    else:
        op = rng.choice(ops2)
        f2 = fut and not op.startswith(PAST)
        return '(%s %s %s)' % (gen(rng.randint(0, depth - 1), rng, f2), op, gen(depth - 1, rng, f2))

def horizon_samples(spec):
    from rtamt.pastifier.stl.horizon import StlHorizon, period_in_default_unit
    h = StlHorizon(spec.ast)
    hz = h.visit(spec.ast.specs[-1], None)
    return int(hz / period_in_default_unit(spec.ast))

def mk(formula, online, unit=None, period=None, subs=()):
    spec = rtamt.StlDiscreteTimeSpecification()
    for v in VARS:
        spec.declare_var(v, 'float')
    if unit: spec.unit = unit
    if period: spec.set_sampling_period(*period)
    for s in subs: spec.add_sub_spec(s)
    spec.spec = formula
    spec.parse()
    return spec

def check(formula, trace, unit=None, period=None, subs=(), verbose=False):
    n = len(trace['x'])
    on = mk(formula, True, unit, period, subs)
    h = horizon_samples(on)
    on.pastify()
    outs = []
    for i in range(n):
        outs.append(on.update(i, [(v, trace[v][i]) for v in VARS]))
    bad = []
    for i in range(h, n):
        off = mk(formula, False, unit, period, subs)
        ds = {'time': list(range(i + 1))}
        for v in VARS: ds[v] = trace[v][:i + 1]
        r = off.evaluate(ds)
        ref = r[i - h][1]
        if not (ref == outs[i] or (isinstance(ref, float) and math.isnan(ref) and math.isnan(outs[i]))):
            bad.append((i, ref, outs[i]))
    if verbose:
        print(formula, 'h=', h, on.ast.specs[-1].name)
    return h, bad

if __name__ == '__main__':
    seed = int(sys.argv[1]) if len(sys.argv) > 1 else 0
    N = int(sys.argv[2]) if len(sys.argv) > 2 else 200
    rng = random.Random(seed)
    nb = 0
    for t in range(N):
        f = 'out = ' + gen(rng.randint(1, 4), rng)
        n = 14
        trace = {v: [rng.choice([0, 1, 2, -1, 0.5, 3, -2]) for _ in range(n)] for v in VARS}
        try:
            h, bad = check(f, trace)
        except Exception as e:
            print('EXC', f, repr(e)); continue
        if bad:
            nb += 1
            print('BAD', f, 'h=', h, bad[:3])
    print('done, bad =', nb)
