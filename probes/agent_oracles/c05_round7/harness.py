import sys, itertools, random
import rtamt
assert rtamt.__file__.startswith('/repo'), rtamt.__file__

def mk(formula, vars_, pastify=False, sem=None):
    if sem is None:
        spec = rtamt.StlDenseTimeSpecification()
    else:
        spec = rtamt.StlDenseTimeSpecification(semantics=sem)
    for v in vars_:
        spec.declare_var(v, 'float')
    spec.declare_var('out','float')
    spec.spec = 'out = ' + formula
    spec.parse()
    if pastify:
        spec.pastify()
    return spec

def step(samples, t):
    v = None
    for s in samples:
        if s[0] <= t:
            v = s[1]
        else:
            break
    return v

def run_chunks(formula, vars_, sigs, cuts, pastify=False):
    # cuts: set of cut indices common to all variables (by sample index)
    spec = mk(formula, vars_, pastify)
    n = len(sigs[vars_[0]])
    bounds = [0] + sorted(cuts) + [n]
    out = []
    for lo, hi in zip(bounds[:-1], bounds[1:]):
        args = [[v, [list(s) for s in sigs[v][lo:hi]]] for v in vars_]
        r = spec.update(*args)
        out.extend([list(x) for x in r])
    return out

def offline(formula, vars_, sigs):
    spec = mk(formula, vars_)
    args = [[v, [list(s) for s in sigs[v]]] for v in vars_]
    return spec.evaluate(*args)

def check(formula, vars_, sigs, pastify=False, verbose=False):
    n = len(sigs[vars_[0]])
    off = offline(formula, vars_, sigs)
    bad = []
    for k in range(2**(n-1)):
        cuts = [i+1 for i in range(n-1) if (k>>i)&1]
        out = run_chunks(formula, vars_, sigs, cuts, pastify)
        ts = [s[0] for s in out]
        ok = all(a<=b for a,b in zip(ts,ts[1:]))
        if out:
            end = ts[-1]
            for t in sorted(set(ts + [ (a+b)/2 for a,b in zip(ts,ts[1:])])):
                if t > end: continue
                # step value online: last sample with time<=t (later entries win)
                vo = None
                for s in out:
                    if s[0] <= t: vo = s[1]
                vf = step(off, t)
                if vf is not None and t < off[-1][0] and vo != vf:
                    ok = False
        if not ok:
            bad.append((cuts, out))
    if verbose or bad:
        print(formula, 'offline', off)
        for b in bad[:5]:
            print('  BAD cuts', b[0], b[1])
    return bad

if __name__ == '__main__':
    random.seed(int(sys.argv[1]) if len(sys.argv)>1 else 0)
    forms = [('x>=1',['x']), ('once(x>=1)',['x']), ('historically(x>=1)',['x']), ('once[0,2](x>=1)',['x']), ('historically[1,3](x>=1)',['x']),
             ('(x>=1) and (y<=2)',['x','y']), ('(x>=1) since (y<=2)',['x','y']), ('(x>=1) since[1,2] (y<=2)',['x','y']),
             ('(x>=1) -> once[0,1](y<=2)',['x','y']), ('abs(x-y)>=1',['x','y']), ('x+y>=x*y',['x','y']), ('once[1,2]((x>=1) or (y>=1))',['x','y']),
             ('not(x>=y)',['x','y']), ('(x>=1) xor (y>=1)',['x','y']), ('(x>=1) iff (y>=1)',['x','y'])]
    tot = 0
    for f, vs in forms:
        for trial in range(6):
            n = random.randint(2,6)
            ts = sorted(random.sample(range(0,12), n)); ts[0]=0
            ts = sorted(set(ts)); n=len(ts)
            sigs = {v: [[float(t), float(random.randint(-3,3))] for t in ts] for v in vs}
            bad = check(f, vs, sigs)
            tot += len(bad)
    print('total bad', tot)

def run_async(formula, vars_, sigs, cutmap, pastify=False):
    # cutmap: var -> list of cut indices; rounds = max number of chunks; var chunks fed in rounds
    spec = mk(formula, vars_, pastify)
    chunks = {}
    for v in vars_:
        n = len(sigs[v]); b = [0]+sorted(cutmap[v])+[n]
        chunks[v] = [sigs[v][lo:hi] for lo,hi in zip(b[:-1],b[1:])]
    rounds = max(len(c) for c in chunks.values())
    out = []
    for r in range(rounds):
        args = [[v, [list(s) for s in (chunks[v][r] if r < len(chunks[v]) else [])]] for v in vars_]
        out.extend([list(x) for x in spec.update(*args)])
    return out

def judge(out, off, shift=0):
    ts = [s[0] for s in out]
    ok = all(a<=b for a,b in zip(ts,ts[1:]))
    if out:
        for t in sorted(set(ts + [ (a+b)/2 for a,b in zip(ts,ts[1:])])):
            vo = None
            for s in out:
                if s[0] <= t: vo = s[1]
            if t - shift < 0: continue
            vf = step(off, t - shift)
            if vf is not None and t - shift < off[-1][0] and vo != vf:
                ok = False
    return ok
