import sys, random
sys.path.insert(0,'/verif/probes/agent_oracles/c05_round7')
from harness import *
random.seed(int(sys.argv[1]) if len(sys.argv)>1 else 0)
forms = eval(sys.argv[2])
tot=0; runs=0
for f,vs in forms:
    for trial in range(60):
        sigs={}
        for v in vs:
            n=random.randint(2,6)
            ts=sorted(set([0]+random.sample(range(1,12),n-1)))
            sigs[v]=[[float(t),float(random.randint(-3,3))] for t in ts]
        for v in vs: sigs[v].append([12.0,float(random.randint(-3,3))])
        off=offline(f,vs,sigs)
        for k in range(8):
            cutmap={v:[i for i in range(1,len(sigs[v])) if random.random()<0.5] for v in vs}
            runs+=1
            try:
                out=run_async(f,vs,sigs,cutmap)
            except Exception as e:
                tot+=1
                if tot<4: print('EXC',f,sigs,cutmap,repr(e))
                continue
            if not judge(out,off):
                tot+=1
                if tot<4: print('BAD',f,sigs,cutmap,'\n  out',out,'\n  off',off)
print('total bad',tot,'of',runs)
