import sys, random
sys.path.insert(0,'/verif/probes/agent_oracles/c05_round7')
from harness import *
random.seed(int(sys.argv[1]) if len(sys.argv)>1 else 0)
forms = eval(sys.argv[2]) if len(sys.argv)>2 else [('(x>=1) since[0,2] (y<=2)',['x','y']),('(x>=1) since[1,2] (y<=2)',['x','y']),('(x>=1) since[2,2] (y<=2)',['x','y'])]
tot=0; runs=0
for f,vs in forms:
    for trial in range(40):
        n=random.randint(2,6)
        ts=sorted(set([0]+random.sample(range(1,12),n-1)))
        sigs={v:[[float(t),float(random.randint(-3,3))] for t in ts] for v in vs}
        off=offline(f,vs,sigs)
        n=len(ts)
        for k in range(2**(n-1)):
            cuts=[i+1 for i in range(n-1) if (k>>i)&1]
            runs+=1
            try:
                out=run_chunks(f,vs,sigs,cuts)
            except Exception as e:
                tot+=1
                if tot<6: print('EXC',f,sigs,cuts,repr(e))
                continue
            if not judge(out,off):
                tot+=1
                if tot<6: print('BAD',f,sigs,cuts,'\n  out',out,'\n  off',off)
print('total bad',tot,'of',runs)
