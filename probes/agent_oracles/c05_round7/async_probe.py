import sys, random
sys.path.insert(0,'/verif/probes/agent_oracles/c05_round7')
from harness import *
random.seed(int(sys.argv[1]) if len(sys.argv)>1 else 0)
forms = [('(x>=1) and (y<=2)',['x','y']), ('(x>=1) since (y<=2)',['x','y']), ('(x>=1) since[1,2] (y<=2)',['x','y']),
         ('(x>=1) -> once[0,1](y<=2)',['x','y']), ('abs(x-y)>=1',['x','y']), ('x+y>=x*y',['x','y']), ('once[1,2]((x>=1) or (y>=1))',['x','y']),
         ('((x>=1) since (y>=1)) or (x<=0)',['x','y']),('historically[0,2]((x>=1) xor (y>=1))',['x','y'])]
tot=0
for f,vs in forms:
    for trial in range(30):
        sigs={}
        for v in vs:
            n=random.randint(2,6)
            ts=sorted(set([0]+random.sample(range(1,12),n-1)))
            sigs[v]=[[float(t),float(random.randint(-3,3))] for t in ts]
        # same end time
        end=12.0
        for v in vs: sigs[v].append([end,float(random.randint(-3,3))])
        off=offline(f,vs,sigs)
        for k in range(6):
            cutmap={v:[i for i in range(1,len(sigs[v])) if random.random()<0.5] for v in vs}
            try:
                out=run_async(f,vs,sigs,cutmap)
            except Exception as e:
                print('EXC',f,sigs,cutmap,repr(e)); tot+=1; continue
            if not judge(out,off):
                tot+=1
                if tot<6: print('BAD',f,sigs,cutmap,'\n  out',out,'\n  off',off)
print('total bad',tot)
