"""Reference dense-time STL semantics on right-continuous step functions (exact, Fractions)."""
from fractions import Fraction as F
import math
INF = float('inf')

class Step:
    # pts: sorted list of (t, v); value v on [t_i, t_{i+1}); last value held to +inf; defined on [pts[0][0], inf)
    def __init__(self, pts):
        self.pts = [(F(t), v) for t, v in pts]
    @property
    def t0(self): return self.pts[0][0]
    def at(self, t):
        assert t >= self.t0
        v = None
        for p, val in self.pts:
            if p <= t: v = val
            else: break
        return v
    def bps(self): return [p for p, _ in self.pts]
    def sup(self, lo, hi, fn=max, empty=-INF):
        # fn over [lo,hi] intersect [t0, inf)
        lo = max(lo, self.t0)
        if lo > hi: return empty
        vals = [self.at(lo)] + [v for p, v in self.pts if lo < p <= hi]
        return fn(vals)

def from_points(cands, t0, f):
    cands = sorted(set(c for c in cands if c >= t0 and c != INF and c == c) | {t0})
    return Step([(c, f(c)) for c in cands])

def binop(x, y, fn):
    t0 = max(x.t0, y.t0)
    return from_points(x.bps() + y.bps(), t0, lambda t: fn(x.at(t), y.at(t)))
def unop(x, fn):
    return Step([(p, fn(v)) for p, v in x.pts])

def ev(x, a, b):   # eventually[a,b]
    c = [p - a for p in x.bps()] + [p - b for p in x.bps()]
    return from_points(c, x.t0, lambda t: x.sup(t + a, t + b, max, -INF))
def alw(x, a, b):
    c = [p - a for p in x.bps()] + [p - b for p in x.bps()]
    return from_points(c, x.t0, lambda t: x.sup(t + a, t + b, min, INF))
def once(x, a, b):
    c = [p + a for p in x.bps()] + [p + b for p in x.bps()]
    return from_points(c, x.t0, lambda t: x.sup(t - b, t - a, max, -INF))
def hist(x, a, b):
    c = [p + a for p in x.bps()] + [p + b for p in x.bps()]
    return from_points(c, x.t0, lambda t: x.sup(t - b, t - a, min, INF))

def until(f, g, a=F(0), b=INF):
    t0 = max(f.t0, g.t0)
    bps = sorted(set(p for p in f.bps() + g.bps() if p > t0) | {t0})
    def val(t):
        lo, hi = t + a, t + b
        # segments [s_k, s_{k+1})
        best = -INF
        segs = [t] + [p for p in bps if p > t]
        run = INF
        for k, s in enumerate(segs):
            e = segs[k + 1] if k + 1 < len(segs) else INF
            run = min(run, f.at(s))
            # does [s,e) intersect [lo,hi]?
            if s <= hi and e > lo:
                best = max(best, min(g.at(s), run))
        return best
    c = list(bps)
    if b != INF:
        c += [p - b for p in bps]
    c += [p - a for p in bps]
    return from_points(c, t0, val)

def since(f, g, a=F(0), b=INF):
    t0 = max(f.t0, g.t0)
    bps = sorted(set(p for p in f.bps() + g.bps() if p > t0) | {t0})
    def val(t):
        lo, hi = t - b, t - a   # t' in [lo,hi] ∩ [t0, t]
        best = -INF
        # segments up to t: [s_k, e_k) with e_k = next bp, last one is [s, t] closed
        ss = [p for p in bps if p <= t]
        run = INF
        for k in range(len(ss) - 1, -1, -1):
            s = ss[k]
            last = (k == len(ss) - 1)
            e = t if last else ss[k + 1]
            run = min(run, f.at(s))
            # t' in [s,e) (or [s,t] for last); need intersect [lo,hi]
            if last:
                ok = s <= hi and e >= lo
            else:
                ok = s <= hi and e > lo
            if ok:
                best = max(best, min(g.at(s), run))
        return best
    c = list(bps) + [p + a for p in bps]
    if b != INF:
        c += [p + b for p in bps]
    return from_points(c, t0, val)

def compare(out, ref, t_end, tol=1e-9):
    """out: library sample list; ref: Step. check on [ref.t0, t_end]. returns list of mismatches."""
    errs = []
    if not out:
        return [('empty output', None, None)]
    ts = [t for t, _ in out]
    if any(ts[i] > ts[i + 1] for i in range(len(ts) - 1)):
        errs.append(('decreasing', ts, None))
    if F(out[0][0]) != ref.t0:
        errs.append(('start', out[0][0], ref.t0))
    o = Step([(F(t), v) for t, v in out if t != INF]) if all(ts[i] < ts[i+1] for i in range(len(ts)-1)) else None
    def oat(t):
        v = None
        for p, val in out:
            if F(p) if p != INF else INF:
                pass
            if (p != INF and F(p) <= t): v = val
        return v
    cands = sorted(set([p for p in ref.bps()] + [F(t) for t in ts if t != INF]))
    cands = [c for c in cands if ref.t0 <= c <= t_end]
    if t_end < ref.t0: return errs
    pts = set(cands) | {t_end}
    for i in range(len(cands) - 1):
        pts.add((cands[i] + cands[i + 1]) / 2)
    for t in sorted(pts):
        if t < F(out[0][0]):
            errs.append(('undefined', t, ref.at(t))); continue
        a, b = oat(t), ref.at(t)
        if a != b and not (isinstance(a, float) and isinstance(b, float) and abs(a - b) <= tol):
            if not (a is not None and b is not None and abs(a - b) <= tol):
                errs.append(('value', t, (a, b)))
    return errs
