import sys, random
sys.path.insert(0, '/repo')
import rtamt
def mk(spec_txt):
    s = rtamt.StlDenseTimeSpecification()
    s.declare_var('a','float'); s.declare_var('b','float'); s.declare_var('out','float')
    s.spec = spec_txt; s.parse(); s.pastify(); return s
def run_sched(spec_txt, sa, sb, sched):
    """sched: list of (na, nb) numbers of samples of a / b delivered in each update"""
    s = mk(spec_txt); out = []; ia = ib = 0
    for na, nb in sched:
        ca, cb = sa[ia:ia+na], sb[ib:ib+nb]; ia += na; ib += nb
        out += s.update(['a', ca], ['b', cb])
    return out
def val_at(res, t):
    v = None
    for (tt, vv) in res:
        if tt <= t: v = vv
    return v
def same(r1, r2, horizon):
    ts = sorted({t for t,_ in r1} | {t for t,_ in r2})
    pts = ts + [(x+y)/2 for x,y in zip(ts, ts[1:])]
    for t in pts:
        if t <= horizon and val_at(r1,t) != val_at(r2,t): return False, t
    return True, None
def mono(res):
    return all(x[0] <= y[0] for x, y in zip(res, res[1:]))
random.seed(int(sys.argv[1]) if len(sys.argv)>1 else 1)
FORMS = ['a and b', 'a -> b', 'a - b >= 0', 'once[%d,%d](a) and b', '(a since[%d,%d] b)', 'a since b', 'once(a) and historically[%d,%d](b)', 'historically[%d,%d](a or b)', '(a -> b) and once[%d,%d](b)', 'once(a + b)']
stats = {}
def split(n):
    parts = []
    while n > 0:
        k = random.randint(0, min(3, n)); parts.append(k); n -= k
    return parts
for trial in range(800):
    ka, kb = random.randint(2,6), random.randint(2,6)
    ta = sorted(set([0] + random.sample(range(1,14), ka-1)))
    tb = sorted(set([0] + random.sample(range(1,14), kb-1)))
    sa = [[float(t), float(random.randint(-3,3))] for t in ta]
    sb = [[float(t), float(random.randint(-3,3))] for t in tb]
    a = random.choice([0,0,1,2]); b = a + random.choice([0,1,2,3])
    f = random.choice(FORMS)
    spec = 'out = ' + (f % (a,b) if '%d' in f else f)
    st = stats.setdefault(f, [0,0,0,0])
    st[0] += 1
    pa, pb = split(len(sa)), split(len(sb))
    L = max(len(pa), len(pb)); pa += [0]*(L-len(pa)); pb += [0]*(L-len(pb))
    try:
        whole = run_sched(spec, sa, sb, [(len(sa), len(sb))])
        ch = run_sched(spec, sa, sb, list(zip(pa, pb)))
    except Exception as e:
        st[2] += 1
        if st[2] <= 1: print('EXC', spec, type(e).__name__, str(e)[:70], 'a=',sa,'b=',sb, list(zip(pa,pb)))
        continue
    if not mono(ch): st[3] += 1
    ok, t = same(whole, ch, min(sa[-1][0], sb[-1][0]) - 1e-9)
    if not ok:
        st[1] += 1
        if st[1] <= 1: print('DIFF', spec, 'a=',sa,'b=',sb, list(zip(pa,pb)), 'at', t, '\n   whole', whole, '\n   chunk', ch)
for f, st in sorted(stats.items()): print('%-45s trials %3d diff %3d exc %3d nonmono %3d' % (f, *st))
