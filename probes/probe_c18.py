import sys, random, copy
sys.path.insert(0, '/repo'); sys.path.insert(0, '/verif/probes')
import rtamt
from ref_discrete import gen, txt, ev
random.seed(int(sys.argv[1]) if len(sys.argv)>1 else 1)
N = int(sys.argv[2]) if len(sys.argv)>2 else 200
def mkd(t):
    s = rtamt.StlDiscreteTimeSpecification()
    for v in ('a','b','out'): s.declare_var(v,'float')
    s.spec = 'out = ' + t; s.parse(); return s
def mkc(t):
    s = rtamt.StlDenseTimeSpecification()
    for v in ('a','b','out'): s.declare_var(v,'float')
    s.spec = 'out = ' + t; s.parse(); return s
def val_at(res, t):
    v = None
    for (tt, vv) in res:
        if tt <= t: v = vv
    return v
bad = {}
def note(k, *info):
    bad[k] = bad.get(k, 0) + 1
    if bad[k] <= 2: print('DIFF', k, *info)
for trial in range(N):
    n = random.randint(1, 8)
    a = [float(random.randint(-3,3)) for _ in range(n)]; b = [float(random.randint(-3,3)) for _ in range(n)]
    p = txt(gen(random.randint(0,2), ['a','b'], unbounded_future=False))
    q = txt(gen(random.randint(0,2), ['a','b'], unbounded_future=False))
    A = random.choice([0,1,2]); B = A + random.choice([0,1,2]); C = random.choice([0,1]); D = C + random.choice([0,1,2])
    laws = [('not(eventually[%d,%d](%s))' % (A,B,p), 'always[%d,%d](not(%s))' % (A,B,p)),
            ('not(once[%d,%d](%s))' % (A,B,p), 'historically[%d,%d](not(%s))' % (A,B,p)),
            ('not(once(%s))' % p, 'historically(not(%s))' % p),
            ('(%s) implies (%s)' % (p,q), '(not(%s)) or (%s)' % (p,q)),
            ('eventually[%d,%d](eventually[%d,%d](%s))' % (A,B,C,D,p), 'eventually[%d,%d](%s)' % (A+C,B+D,p)),
            ('once[%d,%d](once[%d,%d](%s))' % (A,B,C,D,p), 'once[%d,%d](%s)' % (A+C,B+D,p)),
            ('(%s) since (%s)' % (p,q), '(%s) or ((%s) and s_prev((%s) since (%s)))' % (q,p,p,q)),
            ('(%s) until (%s)' % (p,q), '(%s) or ((%s) and s_next((%s) until (%s)))' % (q,p,p,q))]
    ds = {'time': list(range(n)), 'a': a, 'b': b}
    for k, (l, r) in enumerate(laws):
        try:
            r1 = [v for _, v in mkd(l).evaluate(copy.deepcopy(ds))]; r2 = [v for _, v in mkd(r).evaluate(copy.deepcopy(ds))]
            if r1 != r2: note('disc-off law%d' % k, l, '|', r, a, b, r1, r2)
        except Exception as e:
            note('disc-off EXC law%d %s' % (k, type(e).__name__), l, str(e)[:60])
        if 'next' in l+r or 'prev' in l+r or 'rise' in l+r or 'fall' in l+r or k >= 6: continue
        try:
            sa = [[float(i), a[i]] for i in range(n)]; sb = [[float(i), b[i]] for i in range(n)]
            d1 = mkc(l).evaluate(['a', copy.deepcopy(sa)], ['b', copy.deepcopy(sb)]); d2 = mkc(r).evaluate(['a', copy.deepcopy(sa)], ['b', copy.deepcopy(sb)])
            pts = [x/2.0 for x in range(0, 2*n-1)]
            for t in pts:
                if val_at(d1,t) != val_at(d2,t):
                    note('dense-off law%d' % k, l, '|', r, 't', t, a, b, d1, d2); break
        except Exception as e:
            note('dense-off EXC law%d %s' % (k, type(e).__name__), l, str(e)[:60])
    # C11/C12: evaluate twice, data untouched, get_value of sub-formula equals stand-alone
    f = gen(random.randint(1,3), ['a','b'], unbounded_future=False)
    try:
        s = mkd(txt(f)); d0 = copy.deepcopy(ds)
        r1 = s.evaluate(ds); 
        if ds != d0: note('C11 data mutated', txt(f))
        r2 = s.evaluate(ds)
        if r1 != r2: note('C11 not repeatable', txt(f))
    except Exception as e:
        note('C11 EXC %s' % type(e).__name__, txt(f), str(e)[:60])
print('trials', N, bad)
