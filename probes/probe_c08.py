import sys, random
sys.path.insert(0, '/repo'); sys.path.insert(0, '/verif/probes')
import rtamt, logging
logging.disable(logging.CRITICAL)
from ref_discrete import ev, INF
random.seed(int(sys.argv[1]) if len(sys.argv)>1 else 1)
N = int(sys.argv[2]) if len(sys.argv)>2 else 300
U = {'s': 10**9, 'ms': 10**6, 'us': 10**3, 'ns': 1}
def fmt(v_ns, unit):
    x = v_ns / U[unit]
    return ('%d' % x if float(x).is_integer() else repr(x)) + unit
bad = {}
def note(k, *info):
    bad[k] = bad.get(k, 0) + 1
    if bad[k] <= 3: print('DIFF', k, *info)
for trial in range(N):
    pu = random.choice(['s','ms','us'])
    period = random.choice([1, 2, 5, 10, 100, 500])
    period_ns = period * U[pu]
    du = random.choice(['s','ms','us','ns'])   # default unit
    A = random.choice([0,1,2]); B = A + random.choice([0,1,3])
    op = random.choice(['always','eventually','once','historically'])
    n = random.randint(2, 9)
    a = [float(random.randint(-3,3)) for _ in range(n)]
    def bound(k, mode):
        ns = k * period_ns
        if mode == 'none':
            # in default unit: must be representable
            x = ns / U[du]
            return repr(x) if not float(x).is_integer() else '%d' % x
        return fmt(ns, mode)
    choices = ['none','s','ms','us','ns']
    mb, me = random.choice(choices), random.choice(choices)
    # a bound without unit inherits the other bound's unit, else default
    def text(k, mode, other):
        ns = k * period_ns
        if mode != 'none': return fmt(ns, mode)
        u = other if other != 'none' else du
        x = ns / U[u]
        return repr(x) if not float(x).is_integer() else '%d' % x
    tb, te = text(A, mb, me), text(B, me, mb)
    want = ev((op, ('var','a'), (A, B)), {'a': a}, n)
    for cls, kind in ((rtamt.StlDiscreteTimeSpecification, 'discrete'),):
        try:
            s = cls()
            s.declare_var('a','float'); s.declare_var('out','float')
            s.unit = du
            s.set_sampling_period(period, pu, 0.1)
            s.spec = 'out = %s[%s:%s](a)' % (op, tb, te)
            s.parse()
            ts = [i * period_ns / U[du] for i in range(n)]
            got = [v for _, v in s.evaluate({'time': ts, 'a': list(a)})]
            if got != want: note('discrete', s.spec, 'unit', du, 'period', period, pu, a, got, want)
            p = cls(); p.declare_var('a','float'); p.declare_var('out','float'); p.unit = du; p.set_sampling_period(period, pu, 0.1)
            p.spec = s.spec; p.parse(); p.pastify()
            on = [p.update(ts[i], [('a', a[i])]) for i in range(n)]
            h = B if op in ('always','eventually') else 0
            for i in range(h, n):
                w = ev((op, ('var','a'), (A, B)), {'a': a[:i+1]}, i+1)[i-h]
                if on[i] != w: note('discrete-online', s.spec, du, period, pu, a, 'i', i, on[i], w); break
            if p.sampling_violation_counter != 0: note('counter', s.spec, du, period, pu, p.sampling_violation_counter)
        except Exception as e:
            note('EXC %s %s' % (kind, type(e).__name__), 'out = %s[%s:%s](a)' % (op, tb, te), du, period, pu, str(e)[:80])
print('trials', N, bad)
