import sys, random
sys.path.insert(0, '/repo'); sys.path.insert(0, '/verif/probes')
import rtamt
from ref_discrete import gen, txt
random.seed(int(sys.argv[1]) if len(sys.argv)>1 else 1)
N = int(sys.argv[2]) if len(sys.argv)>2 else 300
def hor(g):
    op = g[0]
    if op in ('var','const'): return 0
    kids = [x for x in g[1:] if isinstance(x, tuple) and len(x) > 0 and isinstance(x[0], str)]
    h = max([hor(k) for k in kids] or [0])
    if op in ('eventually','always') and g[2] is not None: return h + g[2][1]
    if op == 'until' and g[3] is not None: return h + g[3][1]
    if op in ('next','s_next'): return h + 1
    return h
def mkd(t):
    s = rtamt.StlDiscreteTimeSpecification()
    for v in ('a','b','out'): s.declare_var(v,'float')
    s.spec = 'out = ' + t; s.parse(); return s
def mkc(t):
    s = rtamt.StlDenseTimeSpecification()
    for v in ('a','b','out'): s.declare_var(v,'float')
    s.spec = 'out = ' + t; s.parse(); return s
def val_at(res, t):
    v = None
    for (tt, vv) in res:
        if tt <= t: v = vv
    return v
bad16 = bad16d = bad19 = exc = 0
for trial in range(N):
    n1 = random.randint(1, 7); n2 = n1 + random.randint(1, 4)
    a = [float(random.randint(-3,3)) for _ in range(n2)]; b = [float(random.randint(-3,3)) for _ in range(n2)]
    # C16 discrete
    f = gen(random.randint(1,3), ['a','b'], unbounded_future=False)
    h = hor(f)
    try:
        r1 = [v for _, v in mkd(txt(f)).evaluate({'time': list(range(n1)), 'a': a[:n1], 'b': b[:n1]})]
        r2 = [v for _, v in mkd(txt(f)).evaluate({'time': list(range(n2)), 'a': a[:n2], 'b': b[:n2]})]
        for t in range(0, n1 - h):
            if r1[t] != r2[t]:
                bad16 += 1
                if bad16 <= 3: print('DIFF16', txt(f), 'h', h, 't', t, a, b, n1, n2, r1, r2)
                break
    except Exception as e:
        exc += 1
        if exc <= 3: print('EXC', txt(f), type(e).__name__, str(e)[:80])
    # C16 dense + C19
    g = gen(random.randint(1,3), ['a','b'], unbounded_future=False, shifts=False)
    # C19 fragment: no since/until
    def has(g, ops):
        return g[0] in ops or any(has(x, ops) for x in g[1:] if isinstance(x, tuple) and len(x) > 0 and isinstance(x[0], str))
    h = hor(g)
    try:
        sa1 = [[float(i), a[i]] for i in range(n1)]; sb1 = [[float(i), b[i]] for i in range(n1)]
        sa2 = [[float(i), a[i]] for i in range(n2)]; sb2 = [[float(i), b[i]] for i in range(n2)]
        d1 = mkc(txt(g)).evaluate(['a', sa1], ['b', sb1]); d2 = mkc(txt(g)).evaluate(['a', sa2], ['b', sb2])
        pts = [x/2.0 for x in range(0, 2*(n1-1-h))]
        for t in pts:
            if val_at(d1, t) != val_at(d2, t):
                bad16d += 1
                if bad16d <= 3: print('DIFF16dense', txt(g), 'h', h, 't', t, a[:n2], b[:n2], n1, n2, '\n  ', d1, '\n  ', d2)
                break
        if not has(g, ('since','until')):
            rd = [v for _, v in mkd(txt(g)).evaluate({'time': list(range(n2)), 'a': a[:n2], 'b': b[:n2]})]
            for t in range(0, n2 - h - 1):
                if val_at(d2, float(t)) != rd[t]:
                    bad19 += 1
                    if bad19 <= 3: print('DIFF19', txt(g), 'h', h, 't', t, a[:n2], b[:n2], '\n  dense', d2, '\n  discrete', rd)
                    break
    except Exception as e:
        exc += 1
        if exc <= 3: print('EXCd', txt(g), type(e).__name__, str(e)[:80])
print('trials', N, 'bad C16 discrete', bad16, 'bad C16 dense', bad16d, 'bad C19', bad19, 'exc', exc)
