"""brute-force dense-time STL over integer break-points: functions are constant on cells: cell 2k = {k}, cell 2k+1 = (k, k+1)"""
INF = float('inf')
def cells_of_signal(samples, ncell):
    """samples [[t, v]...] integer t, right-continuous, held to infinity; undefined (None) before the first sample"""
    out = []
    for c in range(ncell):
        t = c / 2.0
        v = None
        for (tt, vv) in samples:
            if tt <= t: v = vv
        out.append(v)
    return out
def window(x, lo, hi, agg, neutral):
    lo = max(lo, 0)
    vals = [x[min(i, len(x)-1)] for i in range(lo, hi+1)] if hi >= lo else []
    vals = [v for v in vals]
    return agg(vals) if vals else neutral
def evd(f, w, ncell):
    op = f[0]
    if op == 'var': return list(w[f[1]])
    if op == 'const': return [f[1]] * ncell
    if op in ('+','-','*'):
        l, r = evd(f[1], w, ncell), evd(f[2], w, ncell)
        return [{'+': a+b, '-': a-b, '*': a*b}[op] for a, b in zip(l, r)]
    if op == 'abs': return [abs(x) for x in evd(f[1], w, ncell)]
    if op == 'neg_arith': return [-x for x in evd(f[1], w, ncell)]
    if op in ('>=','<=','>','<'):
        l, r = evd(f[1], w, ncell), evd(f[2], w, ncell)
        d = [a-b for a,b in zip(l,r)]
        return d if op in ('>=','>') else [-x for x in d]
    if op == 'not': return [-x for x in evd(f[1], w, ncell)]
    if op == 'and': return [min(a,b) for a,b in zip(evd(f[1],w,ncell), evd(f[2],w,ncell))]
    if op == 'or': return [max(a,b) for a,b in zip(evd(f[1],w,ncell), evd(f[2],w,ncell))]
    if op == 'implies': return [max(-a,b) for a,b in zip(evd(f[1],w,ncell), evd(f[2],w,ncell))]
    if op in ('once','historically','eventually','always'):
        x = evd(f[1], w, ncell); iv = f[2]
        agg, neutral = (max, -INF) if op in ('once','eventually') else (min, INF)
        out = []
        for c in range(ncell):
            par = c % 2; k = c // 2
            if op in ('once','historically'):
                if iv is None: lo, hi = 0, c
                else: lo, hi = 2*(k-iv[1]) + par, 2*(k-iv[0]) + par
            else:
                if iv is None: lo, hi = c, ncell-1
                else: lo, hi = 2*(k+iv[0]) + par, 2*(k+iv[1]) + par
            out.append(window(x, lo, hi, agg, neutral))
        return out
    if op in ('since','until'):
        l, r = evd(f[1], w, ncell), evd(f[2], w, ncell); iv = f[3]
        out = []
        g = lambda arr, i: arr[min(max(i,0), ncell-1)]
        for c in range(ncell):
            par = c % 2; k = c // 2
            best = -INF
            if op == 'since':
                lo, hi = (0, c) if iv is None else (2*(k-iv[1]) + par, 2*(k-iv[0]) + par)
                for cc in range(max(lo,0), hi+1):
                    m = min([g(r,cc)] + [g(l,j) for j in range(cc, c+1)])
                    best = max(best, m)
            else:
                lo, hi = (c, ncell-1) if iv is None else (2*(k+iv[0]) + par, 2*(k+iv[1]) + par)
                for cc in range(lo, min(hi, ncell-1)+1):
                    m = min([g(r,cc)] + [g(l,j) for j in range(c, cc+1)])
                    best = max(best, m)
            out.append(best)
        return out
    raise ValueError(op)
def read_step(res, ncell):
    return cells_of_signal(res, ncell)
