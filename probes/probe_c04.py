import sys, random
sys.path.insert(0, '/repo'); sys.path.insert(0, '/verif/probes')
import rtamt
from ref_discrete import gen, txt
from ref_dense import *
random.seed(int(sys.argv[1]) if len(sys.argv)>1 else 1)
N = int(sys.argv[2]) if len(sys.argv)>2 else 300
def hor(g):
    op = g[0]
    if op in ('var','const'): return 0
    kids = [x for x in g[1:] if isinstance(x, tuple) and len(x) > 0 and isinstance(x[0], str)]
    h = max([hor(k) for k in kids] or [0])
    if op in ('eventually','always') and g[2] is not None: return h + g[2][1]
    if op == 'until' and g[3] is not None: return h + g[3][1]
    return h
bad = exc = 0
byop = {}
for trial in range(N):
    f = gen(random.randint(1,2), ['a','b'], shifts=False, unbounded_future=False)
    Tend = random.randint(2, 8)
    def sig():
        ts = sorted(set([0] + random.sample(range(1, Tend), random.randint(0, min(4, Tend-1)))) | {Tend})
        return [[float(t), float(random.randint(-3,3))] for t in ts]
    sa, sb = sig(), sig()
    ncell = 2*(Tend + 12)
    w = {'a': cells_of_signal(sa, ncell), 'b': cells_of_signal(sb, ncell)}
    spec = rtamt.StlDenseTimeSpecification()
    spec.declare_var('a','float'); spec.declare_var('b','float'); spec.declare_var('out','float')
    spec.spec = 'out = ' + txt(f)
    try:
        spec.parse()
        res = spec.evaluate(['a', [list(s) for s in sa]], ['b', [list(s) for s in sb]])
    except Exception as e:
        exc += 1
        if exc <= 3: print('EXC', spec.spec, type(e).__name__, str(e)[:80], sa, sb)
        continue
    want = evd(f, w, ncell)
    got = read_step(res, ncell)
    h = hor(f)
    lim = 2*(Tend - h)      # settled region: t + h < Tend
    diffs = [c for c in range(0, max(lim, 0)) if got[c] != want[c]]
    nonmono = any(x[0] > y[0] for x, y in zip(res, res[1:]))
    if diffs or nonmono:
        bad += 1
        byop[f[0]] = byop.get(f[0], 0) + 1
        if bad <= 6: print('DIFF', spec.spec, 'a=', sa, 'b=', sb, 'first diff at t=', diffs[0]/2.0 if diffs else None, 'nonmono' if nonmono else '', '\n   got ', res, '\n   want cells', want[:lim])
print('trials', N, 'bad', bad, 'exc', exc, byop)
