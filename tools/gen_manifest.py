#!/venv/bin/python
"""Regenerates MANIFEST.json from the table below (keeps it schema-valid at all times)."""
import json, os, subprocess
HERE = os.path.dirname(os.path.dirname(os.path.abspath(__file__)))

CHECKS = {}   # pid -> dict(text, note, technique, design_ref)
NA = {}       # pid -> reason
exec(open(os.path.join(HERE, 'tools', 'manifest_table.py')).read())

def fix_commits():
    out = subprocess.run(['git', '-C', '/repo', 'log', '--format=%h %s'], capture_output=True, text=True).stdout
    return [l.split()[0] for l in out.splitlines() if l.split(' ', 1)[1].startswith('fix:')][::-1]

m = {
 "version": 1,
 "setup_cmd": "/venv/bin/python -c \"import ast, antlr4; print('sa: python + antlr4 runtime present')\"",
 "hooks": {
  "guard": "RTAMT_VERIF",
  "enable": "none needed: every check is a static analysis of /repo's working tree; no instrumentation is compiled in and RTAMT_VERIF is never read",
  "baseline_off_cmd": "cd /repo && /venv/bin/python -m pytest -ra -q -p no:cacheprovider --timeout=900 --continue-on-collection-errors",
  "source_commits": fix_commits(),
  "add_only": True
 },
 "engines": [{"name": "sa", "path": "sa/", "serves_properties": sorted(CHECKS),
              "kind_free_text": "repository-specific static analyser (python ast): class/MRO resolver with factory instantiation, dispatch-cell classification, per-function CFG/dominance/definite assignment, ownership and effect analysis, operator summaries, AST normalisation for sibling/mirror comparison, grammar/ATN readers"}],
 "checks": [],
 "not_applicable": [{"property_id": p, "reason": r} for p, r in sorted(NA.items())],
 "notes": "All checks decide from /repo's source without running it. hooks.source_commits lists the fix: commits (genuine defects repaired); there are no instrumentation hooks."
}
for pid in sorted(CHECKS):
    c = CHECKS[pid]
    m["checks"].append({
        "property_id": pid,
        "quick_cmd": "./check %s" % pid,
        "thorough_cmd": "./check %s --tier thorough" % pid,
        "evidence_file": "evidence/%s.json" % pid,
        "replay_cmd_template": "./check %s --replay {path}" % pid,
        "engine": "sa",
        "level_claimed": {"category": "other", "text": c['text'], "design_ref": c.get('design_ref', 'DESIGN.md section 5/' + pid)},
        "level_note": c['note'],
        "technique": c['technique'],
    })
json.dump(m, open(os.path.join(HERE, 'MANIFEST.json'), 'w'), indent=1)
print('MANIFEST.json: %d checks, %d not applicable, %d fix commits' % (len(m['checks']), len(m['not_applicable']), len(m['hooks']['source_commits'])))
