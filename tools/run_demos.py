#!/venv/bin/python
"""Triage tool (runs rtamt; not part of any check): every seeded change's demonstration must exit 0 on the *unchanged* /repo --
a demonstration that fails on HEAD means a repair of mine broke something (this is how the regression of the first terminator
repair was noticed)."""
import glob, os, re, shutil, subprocess, sys, tempfile
bad = []
for d in sorted(glob.glob('/verif/seeded/*/')):
    demo = os.path.join(d, 'demo.py')
    if not os.path.exists(demo):
        continue
    T = tempfile.mkdtemp(prefix='demo_')
    try:
        os.symlink('/repo/rtamt', os.path.join(T, 'rtamt'))
        os.makedirs(os.path.join(T, 'seeds', 'A'))
        src = open(demo).read()
        src = re.sub(r'/tmp/seed\d*_C\d+', T, src)
        # realpath of the symlinked package is /repo/rtamt: relax the "imported my copy" assertion
        src = src.replace("os.path.realpath(", "os.path.abspath(")
        open(os.path.join(T, 'seeds', 'A', 'demo.py'), 'w').write(src)
        r = subprocess.run(['/venv/bin/python', os.path.join(T, 'seeds', 'A', 'demo.py')], cwd=T, env=dict(os.environ, PYTHONPATH=T), capture_output=True, text=True, timeout=600)
        name = os.path.basename(d.rstrip('/'))
        if r.returncode != 0:
            tail = (r.stdout + r.stderr).strip().splitlines()[-1:] or ['']
            bad.append((name, r.returncode, tail[0][:200]))
            print('FAIL %-50s exit %d  %s' % (name, r.returncode, tail[0][:160]))
    finally:
        shutil.rmtree(T, ignore_errors=True)
print('%d demonstrations fail on the unchanged tree' % len(bad))
sys.exit(1 if bad else 0)
