#!/venv/bin/python
"""Developer tool: apply behaviour-preserving (or breaking) text edits to a scratch copy of /repo/rtamt and run every check on it.

usage: tools/eq_probe.py <file.py defining VARIANTS = {name: [(relpath, old, new), ...]}> [prop ...]
Prints, per variant, the checks that did not exit 0.  Nothing is written to /repo or /verif.
"""
import concurrent.futures
import os
import shutil
import subprocess
import sys
import tempfile

ALL = ['C%02d' % i for i in range(1, 21)]


def run(name, edits, props):
    T = tempfile.mkdtemp(prefix='eq_')
    try:
        subprocess.run('cd /repo && git archive HEAD rtamt | tar -x -C %s' % T, shell=True, check=True)
        for rel, old, new in edits:
            p = os.path.join(T, rel)
            s = open(p).read()
            if s.count(old) < 1:
                return name, ['edit not applicable: %s' % old[:40]]
            open(p, 'w').write(s.replace(old, new, 1))
        r = subprocess.run(['/venv/bin/python', '-m', 'compileall', '-q', os.path.join(T, 'rtamt')], capture_output=True, text=True)
        if r.returncode != 0:
            return name, ['does not compile']
        res = []
        for c in props:
            ev = tempfile.mkdtemp(prefix='eqev_')
            r = subprocess.run(['/verif/check', c, '--repo', T], capture_output=True, text=True, env=dict(os.environ, SA_OUT=ev))
            shutil.rmtree(ev, ignore_errors=True)
            if r.returncode != 0:
                first = [l for l in r.stdout.splitlines() if l.startswith('  ') and ('FAIL' in l or 'rtamt/' in l)][:1]
                first = first or [l for l in (r.stdout + r.stderr).splitlines() if 'ANALYSIS-ERROR' in l or 'VIOLATION' in l][:1]
                res.append('%s:%d %s' % (c, r.returncode, first[0].strip()[:230] if first else ''))
        return name, res
    finally:
        shutil.rmtree(T, ignore_errors=True)


def main():
    ns = {}
    exec(open(sys.argv[1]).read(), ns)
    props = sys.argv[2:] or ALL
    with concurrent.futures.ThreadPoolExecutor(max_workers=8) as ex:
        futs = [ex.submit(run, n, e, props) for n, e in ns['VARIANTS'].items()]
        for f in futs:
            n, res = f.result()
            print(n, 'SILENT' if not res else '')
            for r in res:
                print('     ', r)


if __name__ == '__main__':
    main()
