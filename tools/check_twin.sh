#!/bin/sh
# usage: check_twin.sh <twin-or-seed name | patch file> <property> -- run one check on a scratch copy with the patch applied, print non-ok lines
T=$(mktemp -d); (cd /repo && git archive HEAD rtamt | tar -x -C $T)
P=$1
[ -f "$P" ] || P=/verif/twins/$1/patch.diff; [ -f "$P" ] || P=/verif/twins12/$1/patch.diff; [ -f "$P" ] || P=/verif/twins13/$1/patch.diff; [ -f "$P" ] || P=/verif/seeded/$1/patch.diff
(cd $T && git init -q . && git apply $P) || echo "patch failed"
SA_OUT=$(mktemp -d) /verif/check $2 --repo $T 2>&1 | grep -v "^  ok\|^  analysed\|^KNOWN-FINDING\|WARNING" | cut -c1-${3:-400} | head -${4:-12}
rm -rf $T
