#!/venv/bin/python
"""Run every check against every seeded change (each applied to a scratch copy of /repo's rtamt/, never to /repo).
Prints, per seed, which property checks report a violation; writes seeded/RESULTS.json."""
import glob, json, os, sys
sys.path.insert(0, '/verif')
from sa.selftest import runner

ALL = ['C01', 'C02', 'C03', 'C04', 'C05', 'C06', 'C07', 'C08', 'C09', 'C10', 'C11', 'C12', 'C13', 'C14', 'C15', 'C16', 'C17', 'C18', 'C19', 'C20']
only = sys.argv[1] if len(sys.argv) > 1 else None
variants = []
for d in sorted(glob.glob('/verif/seeded/*/')):
    name = os.path.basename(d.rstrip('/'))
    if only and only not in name:
        continue
    meta = json.load(open(os.path.join(d, 'meta.json')))
    variants.append({'id': name, 'kind': 'mutant', 'props': ALL, 'patch': os.path.join(d, 'patch.diff'), 'target': meta['property']})
res = runner.run('/repo', variants)
out = {}
for (vid, status, msg, r), v in zip(res, variants):
    if status != 'ran':
        print('%-44s %s %s' % (vid, status, msg))
        out[vid] = {'status': status, 'msg': msg}
        continue
    hit = sorted(p for p, (code, keys, texts) in r.items() if code == 1)
    err = sorted(p for p, (code, keys, texts) in r.items() if code == 2)
    tgt = v['target']
    verdict = 'CAUGHT' if tgt in hit else ('caught-by-other' if hit else 'MISSED')
    first = r[tgt][2][0][:150] if r[tgt][2] else ''
    print('%-44s target %s: %-16s reported by %s%s\n      %s' % (vid, tgt, verdict, ','.join(hit) or '-', (' | exit 2: ' + ','.join(err)) if err else '', first))
    out[vid] = {'target': tgt, 'verdict': verdict, 'reported_by': hit, 'analysis_error': err, 'first_report': first}
if not only:
    json.dump(out, open('/verif/seeded/RESULTS.json', 'w'), indent=1, sort_keys=True)
