#!/venv/bin/python
"""Re-confirm a seeded change whose patch was rebased by hand onto the current /repo HEAD.

usage: rebase_seed.py <scratch worktree at /repo HEAD> <seed name> <rebased diff>
In the worktree (never /repo): apply the rebased diff, run the pinned suite and the seed's demonstration, undo, run the demonstration
again.  On success the old patch is kept as patch.orig.diff, the rebased one becomes patch.diff and meta.json records the rebase."""
import json, os, re, shutil, subprocess, sys, tempfile
wt, name, diff = sys.argv[1:4]
d = os.path.join('/verif/seeded', name)


def sh(cmd):
    return subprocess.run(cmd, shell=True, cwd=wt, capture_output=True, text=True)


def demo():
    T = tempfile.mkdtemp(prefix='demo_')
    try:
        os.symlink(os.path.join(wt, 'rtamt'), os.path.join(T, 'rtamt'))
        os.makedirs(os.path.join(T, 'seeds', 'A'))
        src = open(os.path.join(d, 'demo.py')).read()
        src = re.sub(r'/tmp/seed\d*_C\d+', T, src).replace('os.path.realpath(', 'os.path.abspath(')
        open(os.path.join(T, 'seeds', 'A', 'demo.py'), 'w').write(src)
        return subprocess.run(['/venv/bin/python', os.path.join(T, 'seeds', 'A', 'demo.py')], cwd=T, env=dict(os.environ, PYTHONPATH=T), capture_output=True, text=True, timeout=900).returncode
    finally:
        shutil.rmtree(T, ignore_errors=True)


assert sh('git status --short --untracked-files=no').stdout.strip() == '', 'worktree not clean'
assert sh('git rev-parse HEAD').stdout.strip() == subprocess.run('git -C /repo rev-parse HEAD', shell=True, capture_output=True, text=True).stdout.strip(), 'worktree is not at /repo HEAD'
base = demo()
r = sh('git apply %s' % diff)
assert r.returncode == 0, r.stderr
try:
    s = sh('/venv/bin/python -m pytest -q -p no:cacheprovider --timeout=900 --continue-on-collection-errors 2>&1 | tail -1').stdout
    m = re.search(r'(\d+) failed, (\d+) passed.*?(\d+) error', s)
    suite = tuple(int(x) for x in m.groups()) if m else s
    withc = demo()
finally:
    sh('git checkout -- .')
ok = suite == (75, 509, 1) and base == 0 and withc != 0
print('suite with change:', suite, '| demo without change exit', base, '| with change exit', withc, '=>', 'CONFIRMED' if ok else 'REJECTED')
if not ok:
    sys.exit(1)
if not os.path.exists(os.path.join(d, 'patch.orig.diff')):
    shutil.copy(os.path.join(d, 'patch.diff'), os.path.join(d, 'patch.orig.diff'))
shutil.copy(diff, os.path.join(d, 'patch.diff'))
meta = json.load(open(os.path.join(d, 'meta.json')))
head = subprocess.run('git -C /repo log --format=%h -1', shell=True, capture_output=True, text=True).stdout.strip()
meta.setdefault('rebased', [])
if isinstance(meta['rebased'], (str, dict)):
    meta['rebased'] = [meta['rebased']]
meta['rebased'].append({'onto': head, 'why': 'a repair in /repo touched the same lines; same edit re-applied by hand and re-confirmed in a scratch worktree (suite %r, demo %d -> %d)' % (suite, base, withc)})
json.dump(meta, open(os.path.join(d, 'meta.json'), 'w'), indent=1)
print('rebased', name)
