#!/venv/bin/python
"""usage: show_lowered.py <twin name | patch file | -> <module rel path> [function or Class.method] -- print the lowered source the rules see"""
import ast, os, shutil, subprocess, sys, tempfile
sys.path.insert(0, '/verif')
tw, rel = sys.argv[1], sys.argv[2]
fn = sys.argv[3] if len(sys.argv) > 3 else None
T = tempfile.mkdtemp(prefix='low_')
try:
    subprocess.run('cd /repo && git archive HEAD rtamt | tar -x -C %s' % T, shell=True, check=True)
    if tw != '-':
        p = tw if os.path.exists(tw) else '/verif/twins/%s/patch.diff' % tw
        if not os.path.exists(p):
            p = '/verif/seeded/%s/patch.diff' % tw
        subprocess.run(['git', 'apply', '--directory', T, '--unsafe-paths', p], check=False, cwd='/') if False else subprocess.run('cd %s && git init -q . && git apply %s' % (T, p), shell=True, check=True)
    from sa.index import Index
    ix = Index(T)
    print('# lowering:', ix.lowering)
    m = ix.module_by_rel(rel)
    for st in m.tree.body:
        nodes = [st] if isinstance(st, ast.FunctionDef) else ([s for s in st.body if isinstance(s, ast.FunctionDef)] if isinstance(st, ast.ClassDef) else [])
        for n in nodes:
            q = n.name if isinstance(st, ast.FunctionDef) else '%s.%s' % (st.name, n.name)
            if fn is None or fn in (n.name, q):
                print('# ---', q)
                print(ast.unparse(n))
finally:
    shutil.rmtree(T, ignore_errors=True)
