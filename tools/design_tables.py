#!/venv/bin/python
"""Regenerates the generated blocks of DESIGN.md (between <!-- BEGIN x --> / <!-- END x --> markers):
   seeds   -- which checks report which seeded change (from seeded/RESULTS.json + meta.json)
   selftest -- size of the self-test catalogue (from sa/selftest/expected.json)"""
import json, glob, os, re, collections
V = '/verif'
s = open(V + '/DESIGN.md').read()

def block(name, text):
    global s
    a, b = '<!-- BEGIN %s -->' % name, '<!-- END %s -->' % name
    assert a in s and b in s, name
    s = s[:s.index(a) + len(a)] + '\n' + text + '\n' + s[s.index(b):]

res = json.load(open(V + '/seeded/RESULTS.json'))
rows = ['| seeded change | target | what it needs to manifest (from the author\'s notes) | reported by | first report of the target check |', '|---|---|---|---|---|']
for d in sorted(glob.glob(V + '/seeded/*/')):
    name = os.path.basename(d.rstrip('/'))
    if name not in res:
        continue
    m = json.load(open(d + 'meta.json'))
    lines = [l.strip(' #*-') for l in m.get('needs_to_manifest', []) if l.strip()]
    title = lines[0] if lines else ''
    title = re.sub(r'^(Seed|Change)\s+[AB]\s*[-–—:]*\s*', '', title)[:150].replace('|', '/')
    r = res[name]
    by = ', '.join(r.get('reported_by', [])) or ('(patch no longer applies: a later repair of /repo touched its lines)' if r.get('verdict') == 'not-applicable' else '— (exit 2 only: %s)' % ', '.join(r.get('analysis_error', [])) if r.get('analysis_error') else '—')
    first = (r.get('first_report') or '')
    mm = re.search(r'\[(R-[A-Z-]+)\]\s+(\S+)', first)
    firsttxt = ('%s · %s' % (mm.group(1), mm.group(2))) if mm else ('(reported by another property\'s check)' if r.get('reported_by') else '')
    rows.append('| %s | %s | %s | %s | %s |' % (name, r.get('target', m['property']), title, by, firsttxt))
tot = len(rows) - 2
direct = sum(1 for k, r in res.items() if r.get('verdict') == 'CAUGHT')
other = sum(1 for k, r in res.items() if r.get('verdict') == 'caught-by-other')
missed = sum(1 for k, r in res.items() if r.get('verdict') == 'MISSED')
rows.append('')
na = sum(1 for k, r in res.items() if r.get('verdict') == 'not-applicable')
rows.append('%d seeded changes: %d reported by the check of the targeted property, %d by another property\'s check only, %d by none, %d no longer applicable (their lines were repaired in /repo since).' % (tot, direct, other, missed, na))
block('seeds', '\n'.join(rows))

exp = json.load(open(V + '/sa/selftest/expected.json'))
per = collections.Counter()
for k, v in exp.items():
    for p in v['props']:
        per[p] += 1
eq = sum(1 for v in exp.values() if v.get('equivalent'))
none = sum(1 for v in exp.values() if not v['props'] and not v.get('equivalent'))
fam = collections.Counter(k.split('-')[0] for k, v in exp.items() if v['props'])
txt = ['%d mutants with a confirmed expectation (families: %s); %d generated edits triaged as behaviour-preserving and turned into twins; %d triaged as not reported (reasons in expected.json: crash on every evaluation, outside a stated claim, patch no longer applies).'
       % (sum(1 for v in exp.values() if v['props']), ', '.join('%s %d' % kv for kv in sorted(fam.items())), eq, none),
       '', 'Mutants each property check must report: ' + ', '.join('%s %d' % (p, per[p]) for p in sorted(per)) + '.']
block('selftest', '\n'.join(txt))
open(V + '/DESIGN.md', 'w').write(s)
print('DESIGN.md tables regenerated: %d seeds' % tot)
