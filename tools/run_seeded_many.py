#!/venv/bin/python
"""usage: run_seeded_many.py <substring> [<substring> ...] -- like run_seeded.py for several seeds in one parallel batch (RESULTS.json untouched)"""
import glob, json, os, sys
sys.path.insert(0, '/verif')
from sa.selftest import runner
ALL = ['C%02d' % i for i in range(1, 21)]
variants = []
for d in sorted(glob.glob('/verif/seeded/*/')):
    name = os.path.basename(d.rstrip('/'))
    if not any(name.startswith(x) or x in name for x in sys.argv[1:]):
        continue
    meta = json.load(open(os.path.join(d, 'meta.json')))
    variants.append({'id': name, 'kind': 'mutant', 'props': ALL, 'patch': os.path.join(d, 'patch.diff'), 'target': meta['property']})
for (vid, status, msg, r), v in zip(runner.run('/repo', variants), variants):
    if status != 'ran':
        print('%-46s %s %s' % (vid, status, msg)); continue
    hit = sorted(p for p, (code, keys, texts) in r.items() if code == 1)
    err = sorted(p for p, (code, keys, texts) in r.items() if code == 2)
    tgt = v['target']
    print('%-46s %s %-16s by %s%s' % (vid, tgt, 'CAUGHT' if tgt in hit else ('caught-by-other' if hit else 'MISSED'), ','.join(hit) or '-', (' | exit 2: ' + ','.join(err)) if err else ''))
