# pid -> claim.  Edited by hand; tools/gen_manifest.py turns it into MANIFEST.json.
ALL = ['C%02d' % i for i in range(1, 21)]
CHECKS['C17'] = dict(
    text="Static exhaustiveness proof over the finite cell space (20 concrete interpreter classes x 39 node classes): every cell reaches a handler that computes or raises RTAMTException exactly as the property's reject list demands; online compute cells build an operation of the right time interpretation under node.name with update() of matching arity; data-entry functions have no possibly-unbound local (one-sample traces), no unguarded operator look-up by data-supplied name (surplus variables), no positional use of the data set; total operators never raise on data. Decides the 'rejected cleanly / never silently yields a value' half completely and the named degenerate-data crashes; it does not decide absence of every run-time exception inside compute handlers.",
    note="Trusted: CPython ast, the resolver's MRO/dispatch model, the reject matrix transcribed from the property. Not decided: ZeroDivisionError-style data-dependent exceptions inside supported operators.",
    technique="static analysis: dispatch-cell exhaustiveness over resolved MRO + definite-assignment dataflow + guarded-lookup rule")
for p in ALL:
    if p not in CHECKS:
        NA[p] = 'check not registered yet (work in progress; see DESIGN.md section 5 for the plan)'
