#!/venv/bin/python
"""Run every catalogue mutant against every property check (scratch copies), print and store the matrix.
Output: /verif/sa/selftest/discovered.json  {variant id: {status, reported_by: [...], exit2: [...], first: {prop: text}}}"""
import json, sys, time
sys.path.insert(0, '/verif')
from sa.selftest import catalogue, runner

repo = '/repo'
only = sys.argv[1] if len(sys.argv) > 1 else None
vs = [v for v in catalogue.variants(repo, discover=True) if v['kind'] == 'mutant' and (only is None or only in v['id'])]
t0 = time.time()
res = runner.run(repo, vs)
out = {}
for (vid, status, msg, r), v in zip(res, vs):
    if status != 'ran':
        out[vid] = {'status': status, 'msg': msg}
        print('%-60s %s %s' % (vid, status, msg[:80]))
        continue
    hit = sorted(p for p, (code, keys, texts) in r.items() if code == 1)
    err = sorted(p for p, (code, keys, texts) in r.items() if code == 2)
    out[vid] = {'status': 'ran', 'reported_by': hit, 'exit2': err, 'first': {p: (r[p][2][0][:260] if r[p][2] else '') for p in hit + err}}
    print('%-60s %s%s' % (vid, ','.join(hit) or 'MISSED', (' | exit2: ' + ','.join(err)) if err else ''))
print('%d mutants in %.0fs' % (len(vs), time.time() - t0))
path = '/verif/sa/selftest/discovered.json'
old = {}
if only:
    try:
        old = json.load(open(path))
    except Exception:
        old = {}
old.update(out)
json.dump(old, open(path, 'w'), indent=1, sort_keys=True)
