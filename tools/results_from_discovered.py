#!/venv/bin/python
"""seeded/RESULTS.json from sa/selftest/discovered.json (the full mutant x check run): one run feeds both the self-test reference and the table of DESIGN.md"""
import glob, json, os
d = json.load(open('/verif/sa/selftest/discovered.json'))
out = {}
for sd in sorted(glob.glob('/verif/seeded/*/')):
    name = os.path.basename(sd.rstrip('/'))
    v = d.get('seeded-' + name)
    if v is None:
        continue
    meta = json.load(open(os.path.join(sd, 'meta.json')))
    tgt = meta['property']
    if v.get('status') != 'ran':
        out[name] = {'target': tgt, 'status': v.get('status'), 'msg': v.get('msg', '')[:120], 'verdict': 'not-applicable', 'reported_by': [], 'analysis_error': []}
        continue
    hit = v.get('reported_by', [])
    verdict = 'CAUGHT' if tgt in hit else ('caught-by-other' if hit else 'MISSED')
    out[name] = {'target': tgt, 'verdict': verdict, 'reported_by': hit, 'analysis_error': v.get('exit2', []), 'first_report': (v.get('first', {}).get(tgt, '') if tgt in hit else '')[:150]}
json.dump(out, open('/verif/seeded/RESULTS.json', 'w'), indent=1, sort_keys=True)
import collections
print(collections.Counter(x['verdict'] for x in out.values()))
