#!/venv/bin/python
"""re-run the mutant x check matrix for the catalogue entries that concern the given files / id substrings and merge into discovered.json
usage: rediscover.py [--file <rel path>]... [--id <substring>]..."""
import json, re, sys, time
sys.path.insert(0, '/verif')
from sa.selftest import catalogue, runner
files, ids = [], []
a = sys.argv[1:]
while a:
    k = a.pop(0)
    (files if k == '--file' else ids).append(a.pop(0))
vs = []
for v in catalogue.variants('/repo', discover=True):
    if v['kind'] != 'mutant':
        continue
    hit = any(s in v['id'] for s in ids)
    if not hit and 'patch' in v:
        try:
            txt = open(v['patch']).read()
            hit = any(('b/' + f) in txt for f in files)
        except Exception:
            pass
    if not hit and 'edits' in v:
        hit = any(rel in files for rel, _ in v['edits'])
    if hit:
        vs.append(v)
print('%d variants' % len(vs))
t0 = time.time()
res = runner.run('/repo', vs)
path = '/verif/sa/selftest/discovered.json'
old = json.load(open(path))
for (vid, status, msg, r), v in zip(res, vs):
    if status != 'ran':
        old[vid] = {'status': status, 'msg': msg}
        print('%-60s %s' % (vid, status))
        continue
    hit = sorted(p for p, (code, keys, texts) in r.items() if code == 1)
    err = sorted(p for p, (code, keys, texts) in r.items() if code == 2)
    old[vid] = {'status': 'ran', 'reported_by': hit, 'exit2': err, 'first': {p: (r[p][2][0][:260] if r[p][2] else '') for p in hit + err}}
    print('%-60s %s%s' % (vid, ','.join(hit) or 'MISSED', (' | exit2: ' + ','.join(err)) if err else ''))
json.dump(old, open(path, 'w'), indent=1, sort_keys=True)
print('%.0fs' % (time.time() - t0))
