#!/venv/bin/python
"""discovered.json -> sa/selftest/expected.json (the reference the per-property thorough runs use).
A mutant nobody reports must match a triage rule below (equivalent / crashes the test suite / outside the claim)."""
import json, re, sys
d = json.load(open('/verif/sa/selftest/discovered.json'))
EQ = 'equivalent'
TRIAGE = [
    (r'^offd-range\d-', None, 'not a surviving change: IndexError on every evaluation (the test suite fails); the analyser stops with exit 2 because the idiom is no longer summarised'),
    (r'^offdense-inf-(once|historically|always|eventually)_timed_operation$', EQ, 'flips the initial value of a local that is never read (residual_start / max)'),
    (r'^ond-noreset-(Always|Eventually)Operation$', EQ, 'the class is never constructed (unbounded future is rejected online)'),
    (r'^ond-(minmax|inf)-(Always|Eventually)Operation', EQ, 'the class is never constructed (unbounded future is rejected online)'),
    (r'^ondense-(minmax|inf)-AlwaysOperation', EQ, 'the class is never constructed (unbounded future is rejected online)'),
    (r'^ondense-inf-ConstantOperation', EQ, 'the class is never constructed (constants are produced by the update visitor)'),
    (r'^ond-swapargs-(And|Or|Addition|Multiplication)Operation$', EQ, 'commutative operator'),
    (r'^offdense-strict[34]-(once|historically)_timed_operation$', EQ, 'pop loop: ties may be popped or kept; the bottom segment never starts at b0'),
    (r'^offdense-strict[45]-(always|eventually)_timed_operation$', EQ, 'pop loop: ties may be popped or kept; the bottom segment never ends at b1'),
    (r'^offdense-strict3-(always|eventually)_timed_operation$', EQ, 'b[0] == 0 is taken by the preceding branch'),
    (r'^ondense-strict[45]-(Once|Historically)TimedOperation$', EQ, 'pop loop: ties may be popped or kept; the bottom segment never starts at b0'),
    (r'^ondense-(minmax|inf|swapargs)-SinceOperation', None, 'outside the claim: dense-time online untimed since is listed as undecided in C05'),
    (r'^ondense-merge-cmp', None, 'outside the claim: remainder loops of the online merge kernel (closing-sample bookkeeping); only operand order is decided there'),
    (r'^hor-ltl-(delete-LtlHorizon\.visit(Strong)?Next|plus-visit(Strong)?Next|minmax-visit(Strong)?Next)$', EQ, 'LtlHorizon.visitNext/visitStrongNext are overridden by StlHorizon since the sampling-period repair'),
    (r'^revert-fix-210c934$', EQ, 'the LtlHorizon handlers this commit repaired are overridden by StlHorizon since the sampling-period repair'),
    (r'^seeded-C01-j-sliding-extremum-pops-equal$', None, 'outside the interpreted idioms: a monotonic-queue sliding extremum (candidates kept in a deque, evicted by value). Seven checks stop with exit 2 (window not in an interpreted idiom) -- no verdict; deciding it needs the queue invariant, not index arithmetic'),
    (r'^seeded-C01-o-nan-fix-opposite-infinities$', None, 'outside the interpreted idioms: a conditional on the operand values (isinf) inside a pointwise term; seven checks stop with exit 2, none claims a violation -- deciding it needs the values'),
    (r'^seeded-C01-g-shared-constant-folded-negation$', None, 'no verdict: the parser pops an entry of the name table in a form the name-table reader does not interpret (C12 exit 2); the in-place folding of a shared Constant is not reported by another rule since round 11'),
    (r'^seeded-C04-e-long-window-running-shortcut$', None, 'no verdict: the bypass path of the dense bounded handler tests `end >= <last time-stamp>`, a form R-FORWARD does not read any more after the round-11 lowering (C04, C16, C18, C19 stop with exit 2)'),
    (r'^seeded-C06-n-vacuity-from-robustness-isinf$', None, 'no verdict: the IA offline variant no longer calls the shared predicate base (C06 exit 2: the variant is not in the canonical single-result form)'),
    (r'^seeded-C16-k-van-herk-block-length$', None, 'outside the interpreted idioms: van Herk block decomposition of the sliding extremum (seven checks exit 2: the sample loop does not run over all samples)'),
    (r'^past-(stl|ltl)-delete-', EQ, 'for C03: the other pastifier class in the MRO still handles the node (LTL style delays with a chain of prev: same values for i >= h)'),
]
out = {}
untriaged = []
for k, v in sorted(d.items()):
    if v['status'] != 'ran':
        out[k] = {'props': [], 'note': 'not applicable today: %s' % v.get('msg', '')[:80]}
        continue
    if v['reported_by']:
        out[k] = {'props': v['reported_by']}
        continue
    for pat, kind, why in TRIAGE:
        if re.search(pat, k):
            out[k] = {'props': [], 'note': why}
            if kind == EQ:
                out[k]['equivalent'] = True
            break
    else:
        untriaged.append(k)
        out[k] = {'props': [], 'note': 'UNTRIAGED'}
json.dump(out, open('/verif/sa/selftest/expected.json', 'w'), indent=1, sort_keys=True)
n = sum(1 for v in out.values() if v['props'])
print('%d mutants with expectations, %d triaged as unreported, %d untriaged' % (n, len(out) - n - len(untriaged), len(untriaged)))
for k in untriaged:
    print('UNTRIAGED', k)
sys.exit(1 if untriaged else 0)
