#!/venv/bin/python
"""Write the prompt for a seeding sub-agent: the text of one property (from properties.jsonl), the scratch worktree it owns, and the
one-line descriptions of the changes earlier agents produced for that property (so that it looks elsewhere).  Nothing about the checks.

usage: seed_prompt.py <round> <property>  -> prints the path of the prompt file (/tmp/agent<round>_<prop>.txt) and creates the worktree"""
import glob, json, os, subprocess, sys

rnd, prop = sys.argv[1], sys.argv[2]
wt = '/tmp/seed%s_%s' % (rnd, prop)
P = None
for l in open('/verif/properties.jsonl'):
    d = json.loads(l)
    if d['id'] == prop:
        P = d
prev = []
for d in sorted(glob.glob('/verif/seeded/%s-*/' % prop)):
    name = os.path.basename(d.rstrip('/'))
    try:
        meta = json.load(open(d + 'meta.json'))
        first = (meta.get('needs_to_manifest') or [''])[0].lstrip('# ').strip()
        files = ', '.join(meta.get('files', [])[:2])
    except Exception:
        first, files = '', ''
    prev.append('  - %s: %s (%s)' % (name, first[:150], files))
if not os.path.isdir(wt):
    subprocess.run(['git', '-C', '/repo', 'worktree', 'add', '--detach', wt, 'HEAD'], check=True, capture_output=True)
tmpl = open('/verif/tools/seed_prompt_template.txt').read()
body = '%s  %s\n\nSTATEMENT: %s\n\nQUANTIFIED OVER: %s\n\nWHY THE EXISTING TESTS CANNOT SETTLE IT: %s\n' % (P['id'], P['title'], P['statement'], P['quantifier']['text'], P['why_tests_cant'])
previous = ('PREVIOUS ROUNDS already produced the following changes for this property; do NOT repeat them or close variants of them -- pick different functions, different files, and a different kind of slip:\n' + '\n'.join(prev)) if prev else ''
text = tmpl.replace('@WT@', wt).replace('@PROPERTY@', body).replace('@PREVIOUS@', previous)
out = '/tmp/agent%s_%s.txt' % (rnd, prop)
open(out, 'w').write(text)
print(out)
