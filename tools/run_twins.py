#!/venv/bin/python
"""Run every check against every independently written behaviour-preserving refactoring under /verif/twins/<name>/patch.diff (each applied
to a scratch copy of /repo's rtamt/, never to /repo).  Prints, per twin, the checks that are not silent; writes twins/RESULTS.json."""
import glob, json, os, sys
sys.path.insert(0, '/verif')
from sa.selftest import runner

ALL = ['C%02d' % i for i in range(1, 21)]
only = sys.argv[1] if len(sys.argv) > 1 else None
variants = []
for d in sorted(glob.glob(os.environ.get('TWINS_DIR', '/verif/twins') + '/*/')):
    name = os.path.basename(d.rstrip('/'))
    if name.startswith('_') or (only and only not in name):
        continue
    variants.append({'id': name, 'kind': 'twin', 'props': ALL, 'patch': os.path.join(d, 'patch.diff')})
res = runner.run('/repo', variants)
out = {}
noisy = 0
for (vid, status, msg, r), v in zip(res, variants):
    if status != 'ran':
        print('%-28s %s %s' % (vid, status, msg))
        out[vid] = {'status': status, 'msg': msg}
        continue
    bad = {p: (code, texts[:1]) for p, (code, keys, texts) in r.items() if code != 0}
    out[vid] = {'silent': not bad, 'not_silent': {p: {'exit': c, 'first': (t[0][:300] if t else '')} for p, (c, t) in bad.items()}}
    if bad:
        noisy += 1
        print('%-28s NOT SILENT' % vid)
        for p, (c, t) in sorted(bad.items()):
            print('      %s exit %d  %s' % (p, c, (t[0][:260] if t else '')))
    else:
        print('%-28s silent' % vid)
print('%d twins, %d not silent' % (len(variants), noisy))
if not only:
    json.dump(out, open(os.environ.get('TWINS_DIR', '/verif/twins') + '/RESULTS.json', 'w'), indent=1, sort_keys=True)
