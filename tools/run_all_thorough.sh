#!/bin/sh
# runs every thorough check (quick part + checker self-test); one line per property
cd "$(dirname "$0")/.." || exit 2
bad=0
for i in 01 02 03 04 05 06 07 08 09 10 11 12 13 14 15 16 17 18 19 20; do
  s=$(date +%s)
  out=$(./check C$i --tier thorough 2>&1); rc=$?
  e=$(date +%s)
  echo "C$i rc=$rc t=$((e - s))s"
  printf '%s\n' "$out" | grep -E 'VIOLATION|ANALYSIS-ERROR|SELFTEST-FAIL|selftest' | head -12
  [ $rc -ne 0 ] && bad=1
done
exit $bad
