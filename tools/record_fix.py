#!/venv/bin/python
"""usage: record_fix.py <commit> <property>[,<property>..] "<rule slot -- what failed>"
stores the repair's diff under sa/selftest/fixes/ (reversed, it is a mutant the checks must report) and appends the `fixed:` line to known_findings.json"""
import json, subprocess, sys
h, props, what = sys.argv[1][:7], sys.argv[2].split(','), sys.argv[3]
d = subprocess.run(['git', '-C', '/repo', 'show', '--format=', h, '--', 'rtamt'], capture_output=True, text=True, check=True).stdout
open('/verif/sa/selftest/fixes/%s.diff' % h, 'w').write(d)
p = '/verif/known_findings.json'
k = json.load(open(p))
for pr in props:
    line = 'fixed: property=%s %s %s' % (pr, h, what)
    if line not in k['fixed']:
        k['fixed'].append(line)
json.dump(k, open(p, 'w'), indent=1)
print('recorded', h, props)
