#!/venv/bin/python
"""Confirm a seeded change produced by a sub-agent and file it under /verif/seeded/<name>/.

usage: seed_intake.py <worktree> <A|B> <property> <name>
Confirms in the agent's scratch worktree (never in /repo): the patch applies, the pinned suite summary is unchanged,
the demonstration fails with the change and passes without it.  Then copies patch.diff, the demonstration and notes and
writes meta.json."""
import json, os, re, shutil, subprocess, sys

wt, which, prop, name = sys.argv[1:5]
src = os.path.join(wt, 'seeds', which)
patch = os.path.join(src, 'patch.diff')
demo = os.path.join(src, 'demo.py')
env = dict(os.environ, PYTHONPATH=wt)


def sh(cmd, **kw):
    return subprocess.run(cmd, shell=True, cwd=wt, capture_output=True, text=True, env=env, **kw)


def suite():
    r = sh('/venv/bin/python -m pytest -q -p no:cacheprovider --timeout=900 --continue-on-collection-errors 2>&1 | tail -1')
    m = re.search(r'(\d+) failed, (\d+) passed.*?(\d+) error', r.stdout)
    return (int(m.group(1)), int(m.group(2)), int(m.group(3))) if m else r.stdout.strip()


assert sh('git status --short --untracked-files=no').stdout.strip() == '', 'worktree not clean'
base_demo = sh('/venv/bin/python %s' % demo).returncode
r = sh('git apply %s' % patch)
assert r.returncode == 0, 'patch does not apply: ' + r.stderr
try:
    s = suite()
    with_demo = sh('/venv/bin/python %s' % demo)
finally:
    sh('git checkout -- .')
ok = (s == (75, 509, 1)) and base_demo == 0 and with_demo.returncode != 0
print('suite with change:', s, '| demo without change exit', base_demo, '| with change exit', with_demo.returncode, '=>', 'CONFIRMED' if ok else 'REJECTED')
if not ok:
    print(with_demo.stdout[-500:], with_demo.stderr[-500:])
    sys.exit(1)
dst = os.path.join('/verif/seeded', name)
os.makedirs(dst, exist_ok=True)
shutil.copy(patch, os.path.join(dst, 'patch.diff'))
shutil.copy(demo, os.path.join(dst, 'demo.py'))
notes = open(os.path.join(src, 'notes.md')).read() if os.path.exists(os.path.join(src, 'notes.md')) else ''
open(os.path.join(dst, 'notes.md'), 'w').write(notes)
files = re.findall(r'^\+\+\+ b/(\S+)', open(patch).read(), re.M)
meta = {
    'property': prop,
    'files': files,
    'needs_to_manifest': notes.strip().split('\n')[0:12],
    'confirmed': {
        'where': 'scratch git worktree of /repo HEAD (never /repo itself)',
        'suite_with_change': '%d failed, %d passed, %d error (= baseline: C++ back end not built)' % s,
        'demo_exit_without_change': base_demo,
        'demo_exit_with_change': with_demo.returncode,
        'commands': ['git apply seeds/%s/patch.diff' % which, 'pytest (BASELINE.json command)', 'PYTHONPATH=<worktree> /venv/bin/python seeds/%s/demo.py' % which, 'git checkout -- .'],
    },
    'origin': 'sub-agent given only the property text and a scratch worktree',
}
json.dump(meta, open(os.path.join(dst, 'meta.json'), 'w'), indent=1)
print('filed under', dst)
