"""Variants for the checker self-test.

mutants   property-breaking edits: (a) every repair commit of /repo reversed (sa/selftest/fixes/*.diff), (b) the seeded
          changes written by independent agents (seeded/*/patch.diff), (c) AST-computed edits generated below from the
          constructs the tree has today (every handler, every operation class, every kernel).
twins     behaviour-preserving edits (renamings, reorderings, equivalent idioms): every check must stay silent.

Which property checks must report a mutant is the reference recorded in sa/selftest/expected.json (confirmed by reading the
reports when the entry was added); a mutant no check reports is listed there with an empty list and a reason, and is shown by
`python -m sa.selftest.runner` but does not take part in the per-property thorough runs.
"""
import ast
import glob
import json
import os
import re

from sa import core
from sa.selftest import edits as E

VERIF = core.VERIF
ALL = ['C01', 'C02', 'C03', 'C04', 'C05', 'C06', 'C07', 'C08', 'C09', 'C10', 'C11', 'C12', 'C13', 'C14', 'C15', 'C16', 'C17', 'C18', 'C19', 'C20']

OFF_D = 'rtamt/semantics/stl/discrete_time/offline/ast_visitor.py'
OFF_DENSE = 'rtamt/semantics/stl/dense_time/offline/ast_visitor.py'
ON_D = 'rtamt/semantics/stl/discrete_time/online/'
ON_DENSE = 'rtamt/semantics/stl/dense_time/online/'
AR_D = 'rtamt/semantics/arithmetic/discrete_time/online/'
AR_DENSE = 'rtamt/semantics/arithmetic/dense_time/online/'

FLOORS = {'C01': 25, 'C02': 20, 'C03': 8, 'C04': 15, 'C05': 8, 'C06': 5, 'C07': 8, 'C08': 6, 'C09': 4, 'C10': 10, 'C11': 4, 'C12': 3, 'C13': 4,
          'C14': 8, 'C15': 4, 'C16': 10, 'C17': 20, 'C18': 6, 'C19': 6, 'C20': 6}


def _parse(repo, rel):
    p = os.path.join(repo, rel)
    if not os.path.exists(p):
        return None
    with open(p) as fh:
        try:
            return ast.parse(fh.read())
        except SyntaxError:
            return None


def _has(fn, what):
    for n in ast.walk(fn):
        if what == 'minmax' and isinstance(n, ast.Call) and isinstance(n.func, ast.Name) and n.func.id in ('min', 'max'):
            return True
        if what == 'inf' and isinstance(n, ast.Call) and getattr(n.func, 'id', None) == 'float' and n.args and isinstance(n.args[0], ast.Constant) \
                and str(n.args[0].value).lower() == 'inf':
            return True
        if what == 'raise' and isinstance(n, ast.Raise):
            return True
    return False


def _classes(tree):
    return [n for n in tree.body if isinstance(n, ast.ClassDef)]


def _methods(cls):
    return [n for n in cls.body if isinstance(n, ast.FunctionDef)]


def _count_compares(fn):
    m = (ast.Lt, ast.Gt, ast.LtE, ast.GtE)
    return sum(1 for n in ast.walk(fn) if isinstance(n, ast.Compare) and len(n.ops) == 1 and isinstance(n.ops[0], m))


def strict_flip(nth):
    """nth ordering comparison: < <-> <=, > <-> >="""
    m = {ast.Lt: ast.LtE, ast.LtE: ast.Lt, ast.Gt: ast.GtE, ast.GtE: ast.Gt}

    def tr(fn):
        k = 0
        for n in ast.walk(fn):
            if isinstance(n, ast.Compare) and len(n.ops) == 1 and type(n.ops[0]) in m:
                if k == nth:
                    n.ops = [m[type(n.ops[0])]()]
                    return True
                k += 1
        return False
    return tr


def off_by_one_range(nth=0, delta=1, which=-1):
    """nth range(...) call: add delta to its stop (which=-1) or start (which=0) argument"""
    def tr(fn):
        k = 0
        for n in ast.walk(fn):
            if isinstance(n, ast.Call) and getattr(n.func, 'id', None) == 'range' and n.args:
                if k == nth:
                    i = which if which >= 0 else (0 if len(n.args) == 1 else 1)
                    if i >= len(n.args):
                        return False
                    n.args[i] = ast.BinOp(left=n.args[i], op=ast.Add() if delta > 0 else ast.Sub(), right=ast.Constant(value=abs(delta)))
                    return True
                k += 1
        return False
    return tr


def mutant(vid, rel, qual, tr):
    return {'id': vid, 'kind': 'mutant', 'edits': [(rel, E.ast_edit(qual, tr))]}


def text_mutant(vid, rel, old, new, count=1):
    return {'id': vid, 'kind': 'mutant', 'edits': [(rel, E.replace(old, new, count))]}


def twin(vid, rel, qual, tr):
    return {'id': vid, 'kind': 'twin', 'edits': [(rel, E.ast_edit(qual, tr))], 'props': list(ALL)}


def text_twin(vid, rel, old, new, count=1):
    return {'id': vid, 'kind': 'twin', 'edits': [(rel, E.replace(old, new, count))], 'props': list(ALL)}


# ------------------------------------------------------------------------------------------------- generators
def gen_handlers(repo):
    out = []
    for rel, tag in ((OFF_D, 'offd'), (OFF_DENSE, 'offdense')):
        tree = _parse(repo, rel)
        if tree is None:
            continue
        for cls in _classes(tree):
            for m in _methods(cls):
                if not m.name.startswith('visit') or m.name in ('visit', 'visitChildren'):
                    continue
                q = '%s.%s' % (cls.name, m.name)
                out.append(mutant('%s-delete-%s' % (tag, m.name), rel, cls.name, E.delete_method(m.name)))
                if _has(m, 'minmax'):
                    out.append(mutant('%s-minmax-%s' % (tag, m.name), rel, q, E.swap_first_minmax))
                if _has(m, 'inf'):
                    out.append(mutant('%s-inf-%s' % (tag, m.name), rel, q, E.flip_inf))
                if tag == 'offd':
                    for k in range(min(2, sum(1 for n in ast.walk(m) if isinstance(n, ast.Call) and getattr(n.func, 'id', None) == 'range'))):
                        out.append(mutant('%s-range%d-%s' % (tag, k, m.name), rel, q, off_by_one_range(k)))
        # module-level kernels of the dense offline visitor
        for fn in tree.body:
            if isinstance(fn, ast.FunctionDef) and fn.name.endswith('_operation'):
                if _has(fn, 'minmax'):
                    out.append(mutant('%s-minmax-%s' % (tag, fn.name), rel, fn.name, E.swap_first_minmax))
                if _has(fn, 'inf'):
                    out.append(mutant('%s-inf-%s' % (tag, fn.name), rel, fn.name, E.flip_inf))
                if fn.name.endswith('_timed_operation'):
                    for k in range(_count_compares(fn)):
                        out.append(mutant('%s-cmp%d-%s' % (tag, k, fn.name), rel, fn.name, E.flip_compare(k)))
                        out.append(mutant('%s-strict%d-%s' % (tag, k, fn.name), rel, fn.name, strict_flip(k)))
    return out


def gen_operations(repo):
    out = []
    for d, tag in ((ON_D, 'ond'), (AR_D, 'ond'), (ON_DENSE, 'ondense'), (AR_DENSE, 'ondense')):
        for p in sorted(glob.glob(os.path.join(repo, d, '*_operation.py'))):
            rel = os.path.relpath(p, repo)
            tree = _parse(repo, rel)
            if tree is None:
                continue
            for cls in _classes(tree):
                ms = {m.name: m for m in _methods(cls)}
                for mn in ('update', 'reset', '__init__'):
                    m = ms.get(mn)
                    if m is None:
                        continue
                    q = '%s.%s' % (cls.name, mn)
                    if _has(m, 'minmax'):
                        out.append(mutant('%s-minmax-%s.%s' % (tag, cls.name, mn), rel, q, E.swap_first_minmax))
                    if _has(m, 'inf'):
                        out.append(mutant('%s-inf-%s.%s' % (tag, cls.name, mn), rel, q, E.flip_inf))
                    if mn == 'update' and tag == 'ond':
                        for k in range(min(2, sum(1 for n in ast.walk(m) if isinstance(n, ast.Call) and getattr(n.func, 'id', None) == 'range'))):
                            out.append(mutant('%s-range%d-%s' % (tag, k, cls.name), rel, q, off_by_one_range(k)))
                    if mn == 'update' and tag == 'ondense' and cls.name in ('OnceTimedOperation', 'HistoricallyTimedOperation'):
                        for k in range(_count_compares(m)):
                            out.append(mutant('%s-strict%d-%s' % (tag, k, cls.name), rel, q, strict_flip(k)))
                if 'reset' in ms and len(ms['reset'].body) >= 1 and not isinstance(ms['reset'].body[0], ast.Pass):
                    out.append(mutant('%s-noreset-%s' % (tag, cls.name), rel, '%s.reset' % cls.name, _empty_body))
                if 'update' in ms and len(ms['update'].args.args) == 3:
                    out.append(mutant('%s-swapargs-%s' % (tag, cls.name), rel, '%s.update' % cls.name, _swap_params))
    return out


def _empty_body(fn):
    fn.body = [ast.Pass()]
    return True


def _swap_params(fn):
    a = fn.args.args
    if len(a) == 3 and a[0].arg == 'self':
        a[1], a[2] = a[2], a[1]
        return True
    return False


def gen_intersection(repo):
    out = []
    for rel, tag in (('rtamt/semantics/stl/dense_time/offline/intersection.py', 'offdense'), ('rtamt/semantics/stl/dense_time/online/intersection.py', 'ondense')):
        tree = _parse(repo, rel)
        if tree is None:
            continue
        for fn in tree.body:
            if isinstance(fn, ast.FunctionDef) and fn.name == 'intersection':
                for k in range(0, _count_compares(fn), 3):
                    out.append(mutant('%s-merge-cmp%d' % (tag, k), rel, 'intersection', E.flip_compare(k)))
            if isinstance(fn, ast.FunctionDef) and fn.name in ('conjunction', 'disjunction', 'implication', 'iff', 'xor', 'subtraction', 'division', 'addition') and \
                    (_has(fn, 'minmax')):
                out.append(mutant('%s-slot-%s' % (tag, fn.name), rel, fn.name, E.swap_first_minmax))
    return out


def gen_pastifier(repo):
    out = []
    for rel, tag in (('rtamt/pastifier/stl/pastifier.py', 'past-stl'), ('rtamt/pastifier/ltl/pastifier.py', 'past-ltl'),
                     ('rtamt/pastifier/stl/horizon.py', 'hor-stl'), ('rtamt/pastifier/ltl/horizon.py', 'hor-ltl')):
        tree = _parse(repo, rel)
        if tree is None:
            continue
        for cls in _classes(tree):
            for m in _methods(cls):
                if not m.name.startswith('visit') or m.name in ('visit', 'visitChildren', 'visitDefault'):
                    continue
                q = '%s.%s' % (cls.name, m.name)
                if m.name in ('visitAddition', 'visitNot', 'visitOnce', 'visitTimedOnce', 'visitTimedEventually', 'visitTimedAlways', 'visitTimedUntil', 'visitNext',
                              'visitAnd', 'visitPredicate', 'visitTimedSince', 'visitPrevious', 'visitSince', 'visitNegate'):
                    out.append(mutant('%s-delete-%s.%s' % (tag, cls.name, m.name), rel, cls.name, E.delete_method(m.name)))
                if _has(m, 'minmax') and tag.startswith('hor'):
                    out.append(mutant('%s-minmax-%s' % (tag, m.name), rel, q, E.swap_first_minmax))
                if tag.startswith('hor') and any(isinstance(n, ast.BinOp) and isinstance(n.op, ast.Add) for n in ast.walk(m)):
                    out.append(mutant('%s-plus-%s' % (tag, m.name), rel, q, _add_to_sub))
    return out


def _add_to_sub(fn):
    for n in ast.walk(fn):
        if isinstance(n, ast.BinOp) and isinstance(n.op, ast.Add):
            n.op = ast.Sub()
            return True
    return False


def gen_parser(repo):
    out = []
    for rel, tag in (('rtamt/syntax/ast/parser/stl/parser_visitor.py', 'parse-stl'), ('rtamt/syntax/ast/parser/ltl/parser_visitor.py', 'parse-ltl'),
                     ('rtamt/syntax/ast/parser/abstract_ast_parser.py', 'parse-abs')):
        tree = _parse(repo, rel)
        if tree is None:
            continue
        for cls in _classes(tree):
            for m in _methods(cls):
                q = '%s.%s' % (cls.name, m.name)
                if _has(m, 'raise'):
                    out.append(mutant('%s-exc-%s' % (tag, m.name), rel, q, E.raise_other_exception))
                if m.name.startswith('visitExpr') and m.name in ('visitExprAnd', 'visitExprOr', 'visitExprUntil', 'visitExprSince', 'visitExprAlways', 'visitExprEv',
                                                               'visitExprOnce', 'visitExprHist', 'visitExprImplies', 'visitExprNot', 'visitExprSubtraction',
                                                               'visitExprDivision', 'visitExprPrevious', 'visitExprNext', 'visitExprRise', 'visitExprFall'):
                    out.append(mutant('%s-delete-%s' % (tag, m.name), rel, cls.name, E.delete_method(m.name)))
    return out


def gen_explainer(repo):
    out = []
    for p in sorted(glob.glob(os.path.join(repo, 'rtamt', 'semantics', '**', '*explain*.py'), recursive=True)) + \
            sorted(glob.glob(os.path.join(repo, 'rtamt', '**', 'explainer*.py'), recursive=True)):
        rel = os.path.relpath(p, repo)
        tree = _parse(repo, rel)
        if tree is None:
            continue
        for cls in _classes(tree):
            for m in _methods(cls):
                q = '%s.%s' % (cls.name, m.name)
                if m.name.startswith('explain_') or m.name.startswith('visit'):
                    if any(isinstance(n, ast.BinOp) and isinstance(n.op, (ast.Add, ast.Sub)) for n in ast.walk(m)) and m.name.startswith('explain_'):
                        out.append(mutant('expl-sign-%s' % m.name, rel, q, _flip_first_addsub))
                    if m.name.startswith('visit') and m.name in ('visitAnd', 'visitOr', 'visitNot', 'visitAlways', 'visitEventually', 'visitOnce', 'visitHistorically',
                                                                 'visitTimedAlways', 'visitTimedEventually', 'visitImplies', 'visitUntil', 'visitSince'):
                        out.append(mutant('expl-delete-%s' % m.name, rel, cls.name, E.delete_method(m.name)))
    seen = set()
    res = []
    for v in out:
        if v['id'] not in seen:
            seen.add(v['id'])
            res.append(v)
    return res


def _flip_first_addsub(fn):
    for n in ast.walk(fn):
        if isinstance(n, ast.BinOp) and isinstance(n.op, (ast.Add, ast.Sub)) and not (isinstance(n.right, ast.Constant) and n.right.value == 1):
            n.op = ast.Sub() if isinstance(n.op, ast.Add) else ast.Add()
            return True
    return False


# ------------------------------------------------------------------------------------------------- hand-written
def hand(repo):
    out = []
    A = out.append
    DTI = 'rtamt/semantics/discrete_time_interpreter.py'
    DENSE_I = 'rtamt/semantics/dense_time_interpreter.py'
    # C13 sampling counter
    A(text_mutant('c13-tolerance-lower-only', DTI, 'if duration < period - tolerance or duration > period + tolerance:', 'if duration < period - tolerance:'))
    A(text_mutant('c13-tolerance-absolute', DTI, 'tolerance = period * self.sampling_tolerance', 'tolerance = self.sampling_tolerance'))
    A(text_mutant('c13-period-raw', DTI, "period = float(self.sampling_period) * self.U[self.sampling_period_unit] / self.U[self.ast.unit]", 'period = float(self.sampling_period)'))
    A(text_mutant('c13-counter-reset', DTI, 'self.sampling_violation_counter = self.sampling_violation_counter + 1', 'self.sampling_violation_counter = 1'))
    # C08 units
    A(text_mutant('c08-unit-table-ms', 'rtamt/syntax/ast/parser/abstract_ast_parser.py', 'self.MS_UNIT = int(1000000)', 'self.MS_UNIT = int(100000)'))
    A(text_mutant('c08-unit-table-ms-discrete', DTI, 'self.MS_UNIT = int(1000000)', 'self.MS_UNIT = int(100000)'))
    A(text_mutant('c08-discrete-begin-default-unit', DTI, 'b = b * self.ast.U[b_unit]', 'b = b * self.ast.U[self.ast.unit]'))
    A(text_mutant('c08-discrete-no-divisibility-guard', DTI, """        if e.numerator % e.denominator > 0:
            raise RTAMTException('The operator bound must be a multiple of the sampling period')
""", ''))
    A(text_mutant('c08-discrete-period-unit-ignored', DTI, 'sp = Fraction(self.sampling_period * self.ast.U[self.sampling_period_unit])', 'sp = Fraction(self.sampling_period * self.ast.U[self.ast.unit])'))
    A(text_mutant('c08-dense-ratio-inverted', DENSE_I, 'b = b * (self.ast.U[b_unit] / self.ast.U[self.ast.unit])', 'b = b * (self.ast.U[self.ast.unit] / self.ast.U[b_unit])'))
    A(text_mutant('c08-dense-end-uses-begin-unit', DENSE_I, 'e = e * (self.ast.U[e_unit] / self.ast.U[self.ast.unit])', 'e = e * (self.ast.U[b_unit] / self.ast.U[self.ast.unit])'))
    # C11 / C12
    A(mutant('c12-results-not-stored', OFF_D, 'StlDiscreteTimeOfflineAstVisitor.visit', E.delete_stmt(E.stmt_contains('results'))))
    A(mutant('c12-dense-results-not-stored', OFF_DENSE, 'StlDenseTimeOfflineAstVisitor.visit', E.delete_stmt(E.stmt_contains('results'))))
    A(text_mutant('c11-timed-always-pads-in-place', OFF_D, 'sample = sample + ', 'sample += ', 0))
    # C04 / C05 / C07 sliding-window kernels (dense time)
    A(text_mutant('c04-once-pop-ignores-start', OFF_DENSE, 'while (a[2] < b[2]) and (b[0] < a[0]):', 'while (a[2] < b[2]):'))
    A(text_mutant('c04-once-pop-ignores-value', OFF_DENSE, 'while (a[2] < b[2]) and (b[0] < a[0]):', 'while (b[0] < a[0]):'))
    A(text_mutant('c04-once-extend-from-start', OFF_DENSE, 'out.append((a[1], b[1], b[2]))', 'out.append((a[0], b[1], b[2]))', 0))
    A(text_mutant('c04-once-cut-keeps-new-value', OFF_DENSE, 'out.append((a[0], b[0], a[2]))', 'out.append((a[0], b[0], b[2]))', 0))
    A(text_mutant('c04-always-extend-to-end', OFF_DENSE, 'out.insert(0, (b[0], a[0], b[2]))', 'out.insert(0, (b[0], a[1], b[2]))', 0))
    A(text_mutant('c04-once-interval-begin-for-end', OFF_DENSE, 'b = (input_list[i - 1][0] + begin, input_list[i][0] + end, input_list[i - 1][1])',
                  'b = (input_list[i - 1][0] + begin, input_list[i][0] + begin, input_list[i - 1][1])', 0))
    A(text_mutant('c04-once-interval-wrong-sample', OFF_DENSE, 'b = (input_list[i - 1][0] + begin, input_list[i][0] + end, input_list[i - 1][1])',
                  'b = (input_list[i - 1][0] + begin, input_list[i][0] + end, input_list[i][1])', 0))
    A(text_mutant('c04-always-interval-swapped-bounds', OFF_DENSE, 'b = (input_list[i][0] - end, input_list[i + 1][0] - begin, input_list[i][1])',
                  'b = (input_list[i][0] - begin, input_list[i + 1][0] - end, input_list[i][1])', 0))
    A(text_mutant('c04-once-no-filler', OFF_DENSE, 'if i == 1 and begin > 0:', 'if i == 0 and begin > 0:', 0))
    A(text_mutant('c04-since-timed-wrong-global', OFF_DENSE, 'out3 = historically_timed_operation(out2, 0, begin)', 'out3 = historically_timed_operation(out2, begin, begin)'))
    A(text_mutant('c04-until-timed-wrong-kernel', OFF_DENSE, 'out3 = always_timed_operation(out2, 0, begin)', 'out3 = eventually_timed_operation(out2, 0, begin)'))
    A(text_mutant('c04-timed-once-swapped-bounds', OFF_DENSE, 'sample_return = once_timed_operation(sample, begin, end)', 'sample_return = once_timed_operation(sample, end, begin)'))
    A(text_mutant('c04-timed-always-wrong-kernel', OFF_DENSE, 'sample_return = always_timed_operation(sample, begin, end)', 'sample_return = eventually_timed_operation(sample, begin, end)'))
    A(text_mutant('c04-output-emits-end', OFF_DENSE, 'ans.append([b[0], b[2]])', 'ans.append([b[1], b[2]])', 0))
    A(text_mutant('c04-output-no-clip', OFF_DENSE, 'if b[0] <= 0 and b[1] > 0:', 'if b[0] <= 0 and b[1] >= 0:', 0))
    ONCE_ON = ON_DENSE + 'once_timed_operation.py'
    A(text_mutant('c05-online-once-pop-ignores-start', ONCE_ON, 'while (a[2] < b[2]) and (b[0] < a[0]):', 'while (a[2] < b[2]):'))
    A(text_mutant('c05-online-once-interval', ONCE_ON, 'b = (sample[i - 1][0] + begin, sample[i][0] + end, sample[i - 1][1])', 'b = (sample[i - 1][0] + begin, sample[i][0] + begin, sample[i - 1][1])'))
    A(text_mutant('c05-online-since-wrong-order', ON_DENSE + 'since_timed_operation.py', 'out2 = self.since.update(sample_left, sample_right)', 'out2 = self.since.update(sample_right, sample_left)'))
    A(text_mutant('c05-online-since-hist-bounds', ON_DENSE + 'since_timed_operation.py', 'self.hist = HistoricallyTimedOperation(0, self.begin)', 'self.hist = HistoricallyTimedOperation(0, self.end)'))
    # C01 / C02 / C17 bounded discrete operators
    A(text_mutant('c17-padding-guard', OFF_D, 'if sample_len <= end:', 'if sample_len < end:', 0))
    A(text_mutant('c07-online-once-scaled-value', ON_D + 'once_timed_operation.py', 'sample_return = max(sample_return, self.buffer[i])', 'sample_return = max(sample_return, 0.5 * self.buffer[i])'))
    A(text_mutant('c07-online-since-shifted-value', ON_D + 'since_timed_operation.py', 'sample_right = self.buffer_sample_right[i]', 'sample_right = self.buffer_sample_right[i] - 1'))
    # round-4 rules: nodes stay as parsed, parse() always recognises, names determine nodes, exact lifts, interval helpers
    A(text_mutant('c10-bounds-written-back-discrete', DTI, "        b = b / sp\n", "        b = b / sp\n        node.begin = b\n"))
    A(text_mutant('c14-ast-parse-skips-seen-text', 'rtamt/syntax/ast/parser/abstract_ast_parser.py', "        entire_spec = self.modular_spec + self.spec\n",
                  "        entire_spec = self.modular_spec + self.spec\n        if entire_spec == getattr(self, 'parsed_text', None):\n            return\n        self.parsed_text = entire_spec\n"))
    A(text_mutant('c02-name-historically-prints-once', 'rtamt/syntax/node/ltl/historically.py', "'historically(' + child.name + ')'", "'once(' + child.name + ')'"))
    A(text_mutant('c02-name-predicate-drops-operator', 'rtamt/syntax/node/ltl/predicate.py', "'(' + child1.name + ')' + str(self.operator) + '(' + child2.name + ')'",
                  "'(' + child1.name + ')cmp(' + child2.name + ')'"))
    A(text_mutant('c02-name-since-drops-left', 'rtamt/syntax/node/ltl/since.py', "'(' + child1.name + ')since(' + child2.name + ')'", "'since(' + child2.name + ')'"))
    A(text_mutant('c08-period-lifted-before-scaling', DTI, 'sp = Fraction(self.sampling_period * self.ast.U[self.sampling_period_unit])',
                  'sp = Fraction(self.sampling_period) * self.ast.U[self.sampling_period_unit]'))
    A(text_mutant('c20-next-shift-keeps-begin', 'rtamt/explanation/ltl/discrete_time/explanations.py', 'op_intervals.append([begin + 1, end + 1])', 'op_intervals.append([begin, end + 1])'))
    A(text_mutant('c20-prev-not-clipped', 'rtamt/explanation/ltl/discrete_time/explanations.py', """        elif begin <= 0 and end > 0:
            op_intervals.append([begin, end - 1])""", """        elif begin <= 0 and end > 0:
            op_intervals.append([begin - 1, end - 1])"""))
    A(text_mutant('c20-iff-second-operand-connective-polarity', 'rtamt/explanation/ltl/discrete_time/explainer.py',
                  'self.visit_with_own_polarity(element.children[1], op2_signal, op2_intervals)', 'self.visit(element.children[1], [op2_intervals, flag])', 2))
    A(text_mutant('c20-own-polarity-swapped', 'rtamt/explanation/ltl/discrete_time/explainer.py', 'self.visit(child, [sat_intervals, True])', 'self.visit(child, [sat_intervals, False])'))
    A(text_mutant('c20-bounds-in-default-unit-not-samples', 'rtamt/explanation/stl/discrete_time/explainer.py', 'return int(begin / period), int(end / period)', 'return int(begin), int(end)'))
    A(text_mutant('c13-counter-getter-online-only', 'rtamt/spec/abstract_specification.py', 'counter = counter + self.offline_interpreter.sampling_violation_counter', 'counter = counter + 0'))
    A(text_mutant('c12-abstract-node-value-equality', 'rtamt/syntax/node/abstract_node.py', "class AbstractNode:\n", "class AbstractNode:\n    def __eq__(self, other):\n        return type(self) is type(other) and self.name == other.name\n\n    def __hash__(self):\n        return hash(self.name)\n\n"))
    A(text_mutant('c04-timed-once-scan-for-zero-begin', OFF_DENSE, "        sample_return = once_timed_operation(sample, begin, end)\n",
                  "        if begin == 0:\n            return list(sample)\n        sample_return = once_timed_operation(sample, begin, end)\n"))
    # round-5 rules
    A(text_mutant('c03-pastify-first-spec-horizon-for-all', 'rtamt/pastifier/stl/pastifier.py', "            horizon = horizons[spec]\n", "            horizon = horizons[ast.specs[-1]]\n"))
    A(text_mutant('c10-set-ast-keeps-operators-when-present', 'rtamt/semantics/abstract_online_interpreter.py', "        # init dict of online operators\n        self.online_operator_dict = dict()\n",
                  "        # init dict of online operators\n        if getattr(self, 'online_operator_dict', None):\n            return\n        self.online_operator_dict = dict()\n"))
    A(text_mutant('c07-data-entry-value-or-previous', 'rtamt/semantics/abstract_discrete_time_online_interpreter.py', "                self.ast.var_object_dict[var_name] = var_value\n",
                  "                self.ast.var_object_dict[var_name] = var_value or self.ast.var_object_dict[var_name]\n"))
    A(text_mutant('c11-handler-state-in-vars-self', OFF_D, "        sample_return = []\n        buffer_left = collections.deque(maxlen=(end + 1))\n",
                  "        sample_return = vars(self).setdefault('since_scratch', [])\n        buffer_left = collections.deque(maxlen=(end + 1))\n", 0))
    # round-6/7 rules
    A(text_mutant('c13-timestamp-int-coercion', 'rtamt/spec/abstract_specification.py', "            i = args[0]\n            dataset = args[1]\n            return self.online_interpreter.update(i, dataset)",
                  "            i = int(args[0])\n            dataset = args[1]\n            return self.online_interpreter.update(i, dataset)"))
    A(text_mutant('c09-declare-const-rounded', 'rtamt/spec/abstract_specification.py', "        self.ast.declare_const(const_name, const_type, const_val)\n",
                  "        if isinstance(const_val, float):\n            const_val = round(const_val, 6)\n        self.ast.declare_const(const_name, const_type, const_val)\n"))
    A(text_mutant('c20-period-on-ast-only-if-not-default', 'rtamt/spec/abstract_specification.py', "        self.ast.sampling_period = sampling_period\n        self.ast.sampling_period_unit = unit\n",
                  "        if unit != 's':\n            self.ast.sampling_period = sampling_period\n            self.ast.sampling_period_unit = unit\n"))
    A(text_mutant('c01-long-window-running-max-any-begin', OFF_D, "        sample = [-float(\"inf\") for j in range(end)] + sample\n",
                  "        if end >= len(sample):\n            sample_return = []\n            prev_out = -float(\"inf\")\n            for i in sample:\n                prev_out = max(i, prev_out)\n                sample_return.append(prev_out)\n            return sample_return\n        sample = [-float(\"inf\") for j in range(end)] + sample\n"))
    A(text_mutant('c12-conjunction-extends-left-vars', 'rtamt/syntax/node/ltl/conjunction.py', "self.in_vars = child1.in_vars + child2.in_vars", "self.in_vars = child1.in_vars\n        self.in_vars += child2.in_vars"))
    # C02 / C09 / C05 memo of the update visitor
    A(text_mutant('c02-memo-truthiness', 'rtamt/semantics/abstract_online_interpreter.py', 'if node.name in self.visited:', 'if self.visited.get(node.name):', 0))
    # round-10: the rewritten idioms, broken
    A(text_mutant('c01-once-accumulate-min', OFF_D, '        sample_return = []\n        prev_out = -float("inf")\n        for i in sample:\n            out_sample = max(i, prev_out)\n            prev_out = out_sample\n            sample_return.append(out_sample)\n        return sample_return\n', "        import itertools\n        return list(itertools.accumulate(sample, min))\n"))
    A(text_mutant('c18-and-index-loop-max', OFF_D, "        sample_return = list(map(min, zip(sample_left, sample_right)))\n", "        sample_return = []\n        for i in range(min(len(sample_left), len(sample_right))):\n            sample_return.append(max(sample_left[i], sample_right[i]))\n"))
    A(text_mutant('c01-once-ifexp-swapped-arms', OFF_D, '            out_sample = max(i, prev_out)\n            prev_out = out_sample\n            sample_return.append(out_sample)\n        return sample_return\n\n\n    def visitHistorically', '            out_sample = prev_out if i > prev_out else i\n            prev_out = out_sample\n            sample_return.append(out_sample)\n        return sample_return\n\n\n    def visitHistorically'))
    out += rewrites()[1]
    return out


def twins(repo):
    out = []
    A = out.append
    A(twin('twin-rename-local-timedonce', OFF_D, 'StlDiscreteTimeOfflineAstVisitor.visitTimedOnce', E.rename_local('sample', 'operand_signal')))
    A(twin('twin-rename-local-timedsince', OFF_D, 'StlDiscreteTimeOfflineAstVisitor.visitTimedSince', E.rename_local('sample_left', 'lhs')))
    A(twin('twin-rename-local-and', OFF_D, 'StlDiscreteTimeOfflineAstVisitor.visitAnd', E.rename_local('sample_left', 'lhs')))
    A(twin('twin-rename-local-dense-once', OFF_DENSE, 'once_timed_operation', E.rename_local('out', 'segments')))
    A(twin('twin-rename-local-dense-always', OFF_DENSE, 'always_timed_operation', E.rename_local('a', 'top')))
    A(twin('twin-rename-online-since', ON_D + 'since_timed_operation.py', 'SinceTimedOperation.update', E.rename_local('sample_return', 'acc')))
    A(twin('twin-rename-online-once', ON_D + 'once_timed_operation.py', 'OnceTimedOperation.update', E.rename_local('i', 'k')))
    A(twin('twin-commute-min-online-since', ON_D + 'since_timed_operation.py', 'SinceTimedOperation.update', E.swap_call_args('min')))
    A(twin('twin-commute-max-online-once', ON_D + 'once_timed_operation.py', 'OnceTimedOperation.update', E.swap_call_args('max')))
    A(text_twin('twin-dense-pop-ties', OFF_DENSE, 'while (a[2] < b[2]) and (b[0] < a[0]):', 'while (a[2] <= b[2]) and (b[0] < a[0]):', 0))
    A(text_twin('twin-dense-stack-index', OFF_DENSE, 'a = out[len(out) - 1]', 'a = out[-1]', 0))
    A(text_twin('twin-dense-unit-ifexp', 'rtamt/semantics/dense_time_interpreter.py',
                'b = b * (self.ast.U[b_unit] / self.ast.U[self.ast.unit])', 'b = (b * self.ast.U[b_unit]) / self.ast.U[self.ast.unit]', 0))
    A(text_twin('twin-docstring', OFF_D, 'class StlDiscreteTimeOfflineAstVisitor(StlAstVisitor):', 'class StlDiscreteTimeOfflineAstVisitor(StlAstVisitor):\n    """offline"""', 1))
    A(text_twin('twin-online-since-running-min-correct', ON_D + 'since_timed_operation.py',
                """        for i in range(self.end-self.begin+1):
            sample_left = float("inf")
            sample_right = self.buffer_sample_right[i]
            for j in range(i+1,self.end+1):
                sample_left = min(sample_left, self.buffer_sample_left[j])
            sample_return = max(sample_return, min(sample_left, sample_right))
""", """        sample_left = float("inf")
        for k in range(self.end - self.begin + 1, self.end + 1):
            sample_left = min(sample_left, self.buffer_sample_left[k])
        for i in range(self.end - self.begin, -1, -1):
            sample_return = max(sample_return, min(sample_left, self.buffer_sample_right[i]))
            sample_left = min(sample_left, self.buffer_sample_left[i])
"""))
    A(text_twin('twin-online-once-max-of-slice', ON_D + 'once_timed_operation.py',
                """        for i in range(self.end-self.begin+1):
            sample_return = max(sample_return, self.buffer[i])
""", """        for i in range(self.end - self.begin, -1, -1):
            sample_return = max(self.buffer[i], sample_return)
"""))
    A(text_twin('twin-dense-online-carry-flipped-compare', ON_DENSE + 'once_timed_operation.py', 'if self.residual_start >= b[0]:', 'if b[0] <= self.residual_start:'))
    A(text_twin('twin-dense-online-frontier-elif', ON_DENSE + 'once_timed_operation.py', 'elif b[0] <= self.residual_start < b[1]:', 'elif b[0] <= self.residual_start and self.residual_start < b[1]:'))
    A(text_twin('twin-memo-get-is-none', 'rtamt/semantics/abstract_online_interpreter.py', '        if node.name in self.visited:\n            sample_return = self.visited[node.name]',
                '        if self.visited.get(node.name) is not None:\n            sample_return = self.visited[node.name]'))
    A(text_twin('twin-offline-and-comprehension', OFF_D, 'sample_return = list(map(min, zip(sample_left, sample_right)))', 'sample_return = [min(l, r) for l, r in zip(sample_left, sample_right)]'))
    A(text_twin('twin-offline-always-pad-list', OFF_D, "            sample = sample + [float('inf')] * (end - sample_len + 1)", "            sample = list(sample) + [float('inf') for _ in range(end - sample_len + 1)]"))
    A(text_twin('twin-offline-always-merged-range', OFF_D, """        sample_return  = [min(sample[j:j+diff+1]) for j in range(begin, end+1)]
        tmp  = [min(sample[j:j+diff+1]) for j in range(end+1,len(sample))]
        sample_return += tmp
""", """        sample_return = [min(sample[j:j+diff+1]) for j in range(begin, len(sample))]
"""))
    A(text_twin('twin-parser-is-none', 'rtamt/syntax/ast/parser/stl/parser_visitor.py', 'if ctx.interval() == None:', 'if ctx.interval() is None:', 0))
    A(text_twin('twin-dense-since-separate-compression-var', OFF_DENSE, """        result = max(min(o1_val, o2_val), min(o1_val, prev))
        if result != prev or i == 0 or i == len(iout) - 1:
            sample_return.append([t, result])
        prev = result
""", """        result = max(min(o1_val, o2_val), min(o1_val, prev))
        if i == 0 or result != prev or i == len(iout) - 1:
            sample_return.append([t, result])
        prev = result
"""))
    A(text_twin('twin-explainer-rise-visit-order', 'rtamt/explanation/ltl/discrete_time/explainer.py', """        self.visit(element.children[0], [op_intervals, flag])
        self.visit(element.children[0], [prev_intervals, not flag])
""", """        self.visit(element.children[0], [prev_intervals, not flag])
        self.visit(element.children[0], [op_intervals, flag])
"""))
    A(text_twin('twin-unit-transformer-ifexp', 'rtamt/semantics/dense_time_interpreter.py', """        b_unit = node.begin_unit
        e_unit = node.end_unit
        if len(node.begin_unit) == 0:
            if len(node.end_unit) > 0:
                b_unit = node.end_unit
            else:
                b_unit = self.ast.unit
                e_unit = self.ast.unit
        elif len(node.end_unit) == 0:
            e_unit = node.begin_unit
""", """        b_unit = node.begin_unit or node.end_unit or self.ast.unit
        e_unit = node.end_unit or node.begin_unit or self.ast.unit
"""))
    A(text_twin('twin-offline-once-clipped-slices', OFF_D, """        sample = [-float("inf") for j in range(end)] + sample
        sample_return = [max(sample[j - end:j - begin+ 1]) for j in range(end, len(sample))]
""", """        sample_return = [max(sample[max(j - end, 0):max(j - begin + 1, 0)], default=-float("inf")) for j in range(len(sample))]
"""))
    A({'id': 'twin-unused-helper', 'kind': 'twin', 'props': list(ALL), 'edits': [(OFF_D, E.append_text('def _unused_helper(x):\n    return x\n'))]})
    A({'id': 'twin-unused-helper-dense', 'kind': 'twin', 'props': list(ALL), 'edits': [(OFF_DENSE, E.append_text('def _unused_helper(x):\n    return [s for s in x]\n'))]})
    A({'id': 'twin-reformat-offline', 'kind': 'twin', 'props': list(ALL), 'edits': [(OFF_D, _reformat)]})
    A({'id': 'twin-reformat-dense', 'kind': 'twin', 'props': list(ALL), 'edits': [(OFF_DENSE, _reformat)]})
    A({'id': 'twin-reformat-pastifier', 'kind': 'twin', 'props': list(ALL), 'edits': [('rtamt/pastifier/stl/pastifier.py', _reformat)]})
    A({'id': 'twin-reformat-parser-visitor', 'kind': 'twin', 'props': list(ALL), 'edits': [('rtamt/syntax/ast/parser/stl/parser_visitor.py', _reformat)]})
    A({'id': 'twin-reformat-online-interpreter', 'kind': 'twin', 'props': list(ALL), 'edits': [('rtamt/semantics/abstract_online_interpreter.py', _reformat)]})
    for rel in ('rtamt/semantics/abstract_discrete_time_offline_interpreter.py', 'rtamt/semantics/abstract_discrete_time_online_interpreter.py',
                'rtamt/semantics/abstract_dense_time_online_interpreter.py', 'rtamt/semantics/abstract_dense_time_offline_interpreter.py',
                'rtamt/semantics/dense_time_interpreter.py', 'rtamt/semantics/stl/dense_time/offline/intersection.py',
                'rtamt/semantics/stl/dense_time/online/intersection.py', 'rtamt/semantics/stl/dense_time/online/once_timed_operation.py',
                'rtamt/semantics/stl/dense_time/online/since_timed_operation.py', 'rtamt/semantics/stl/discrete_time/online/since_timed_operation.py',
                'rtamt/semantics/stl/discrete_time/online/precedes_timed_operation.py', 'rtamt/semantics/stl/discrete_time/online/ast_visitor.py',
                'rtamt/semantics/stl/dense_time/online/ast_visitor.py', 'rtamt/pastifier/stl/horizon.py', 'rtamt/pastifier/ltl/horizon.py',
                'rtamt/pastifier/ltl/pastifier.py', 'rtamt/syntax/ast/parser/ltl/parser_visitor.py', 'rtamt/syntax/ast/parser/abstract_ast_parser.py',
                'rtamt/spec/abstract_specification.py', 'rtamt/semantics/iastl/discrete_time/offline/ast_visitor.py',
                'rtamt/semantics/iastl/dense_time/offline/ast_visitor.py', 'rtamt/semantics/iastl/discrete_time/online/predicate_operation.py'):
        A({'id': 'twin-reformat-%s' % rel.replace('rtamt/', '').replace('/', '.')[:-3], 'kind': 'twin', 'props': list(ALL), 'edits': [(rel, _reformat)]})
    for p in sorted(glob.glob(os.path.join(repo, 'rtamt', 'explanation', '**', '*.py'), recursive=True)):
        rel = os.path.relpath(p, repo)
        if os.path.basename(rel) != '__init__.py':
            A({'id': 'twin-reformat-%s' % rel.replace('rtamt/', '').replace('/', '.')[:-3], 'kind': 'twin', 'props': list(ALL), 'edits': [(rel, _reformat)]})
    # round-4 twins: equivalent forms of what the new rules look at
    A(text_twin('twin-timedonce-name-by-format', 'rtamt/syntax/node/stl/timed_once.py',
                "'once[' + str(self.begin) + str(self.begin_unit) + ',' + str(self.end) + str(self.end_unit) + '](' + child.name + ')'",
                "'once[{}{},{}{}]({})'.format(self.begin, self.begin_unit, self.end, self.end_unit, child.name)"))
    A(text_twin('twin-constant-name-fstring', 'rtamt/syntax/node/ltl/constant.py', "self.name = str(val)", "self.name = f'{val}'"))
    A(text_twin('twin-setter-loops-over-interpreters', 'rtamt/spec/abstract_specification.py', """        if hasattr(self, 'online_interpreter'):
            if isinstance(self.online_interpreter, DiscreteTimeInterpreter):
                self.online_interpreter.set_sampling_period(sampling_period, unit, tolerance)
            else:
                RTAMTException('time_unit_transformer() allowed only discrete time')

        if hasattr(self, 'offline_interpreter'):
            if isinstance(self.offline_interpreter, DiscreteTimeInterpreter):
                self.offline_interpreter.set_sampling_period(sampling_period, unit, tolerance)
            else:
                RTAMTException('time_unit_transformer() allowed only discrete time')
""", """        for name in ('online_interpreter', 'offline_interpreter'):
            interpreter = getattr(self, name, None)
            if isinstance(interpreter, DiscreteTimeInterpreter):
                interpreter.set_sampling_period(sampling_period, unit, tolerance)
"""))
    A(text_twin('twin-ia-conditions-named', 'rtamt/semantics/iastl/discrete_time/online/predicate_operation.py', """        if (self.semantics == Semantics.OUTPUT_ROBUSTNESS and not self.out_vars) or (
                self.semantics == Semantics.INPUT_ROBUSTNESS and not self.in_vars):""", """        no_outputs = len(self.out_vars) == 0
        no_inputs = not self.in_vars
        if (self.semantics == Semantics.OUTPUT_ROBUSTNESS and no_outputs) or (
                Semantics.INPUT_ROBUSTNESS == self.semantics and no_inputs):"""))
    A(text_twin('twin-explain-prev-comprehension', 'rtamt/explanation/ltl/discrete_time/explanations.py', """    op_intervals = []
    for begin, end in intervals:
        if begin > 0 and end > 0:
            op_intervals.append([begin - 1, end - 1])
        elif begin <= 0 and end > 0:
            op_intervals.append([begin, end - 1])
    return op_intervals
""", """    return [[max(begin - 1, 0), end - 1] for begin, end in intervals if end > 0]
"""))
    A(text_twin('twin-explain-next-comprehension', 'rtamt/explanation/ltl/discrete_time/explanations.py', """    op_intervals = []
    for begin, end in intervals:
        if begin < len(op_signal) - 1 and end < len(op_signal) - 1:
            op_intervals.append([begin + 1, end + 1])
        elif begin < len(op_signal) - 1 <= end:
            op_intervals.append([begin + 1, end])
    return op_intervals
""", """    last = len(op_signal) - 1
    return [[begin + 1, min(end + 1, last)] for begin, end in intervals if begin < last]
"""))
    A(text_twin('twin-dense-timed-once-empty-shortcut', OFF_DENSE, "        sample_return = once_timed_operation(sample, begin, end)\n",
                "        if not sample:\n            return []\n        sample_return = once_timed_operation(sample, begin, end)\n"))
    A(text_twin('twin-dense-timed-once-point-window', OFF_DENSE, "        sample_return = once_timed_operation(sample, begin, end)\n",
                "        if begin == 0 and end == 0:\n            return list(sample)\n        sample_return = once_timed_operation(sample, begin, end)\n"))
    A(text_twin('twin-spec-parse-guarded-by-try', 'rtamt/spec/abstract_specification.py', "    def parse(self):\n        self.ast.parse()\n",
                "    def parse(self):\n        try:\n            self.ast.parse()\n        finally:\n            pass\n"))
    A(text_twin('twin-period-helper-parenthesised', 'rtamt/pastifier/stl/horizon.py', 'return Fraction(ast.sampling_period * ast.U[ast.sampling_period_unit]) / ast.U[ast.unit]',
                'return Fraction(ast.U[ast.sampling_period_unit] * ast.sampling_period) / ast.U[ast.unit]'))
    # round-5 twins
    A(text_twin('twin-pastify-driver-inline-horizon', 'rtamt/pastifier/stl/pastifier.py', "            horizon = horizons[spec]\n            pastified_spec = self.visit(spec, horizon)\n",
                "            pastified_spec = self.visit(spec, horizons[spec])\n"))
    A({'id': 'twin-converter-memo-with-full-key', 'kind': 'twin', 'props': list(ALL), 'edits': [('rtamt/semantics/discrete_time_interpreter.py', E.replace(
        "    def time_unit_transformer(self, node):\n        b = node.begin\n",
        "    def time_unit_transformer(self, node):\n        key = (node, self.sampling_period, self.sampling_period_unit, self.ast, self.ast.unit)\n        if key in self.bounds_memo:\n            return self.bounds_memo[key]\n        b = node.begin\n")),
        ('rtamt/semantics/discrete_time_interpreter.py', E.replace("        b = int(b)\n        e = int(e)\n", "        b = int(b)\n        e = int(e)\n        self.bounds_memo[key] = (b, e)\n")),
        ('rtamt/semantics/discrete_time_interpreter.py', E.replace("        self.normalize = float(1.0)\n", "        self.normalize = float(1.0)\n        self.bounds_memo = dict()\n"))]})
    A(text_twin('twin-intersection-copy-on-both-branches', 'rtamt/semantics/stl/dense_time/offline/intersection.py',
                "    if in_samples_1[-1][0] < float('inf'):\n        in_samples_1.append([float('inf'), in_samples_1[-1][1]])\n",
                "    if in_samples_1[-1][0] < float('inf'):\n        in_samples_1 = in_samples_1 + [[float('inf'), in_samples_1[-1][1]]]\n"))
    A(text_twin('twin-data-entry-skips-unknown-names-first', 'rtamt/semantics/abstract_discrete_time_online_interpreter.py',
                "            if data[0] in self.ast.free_vars:\n", "            if var_name not in self.ast.free_vars:\n                continue\n            if data[0] in self.ast.free_vars:\n"))
    A({'id': 'twin-short-trace-shortcut-for-zero-begin', 'kind': 'twin', 'props': list(ALL), 'edits': [
        (OFF_D, E.replace("import collections\n", "import collections\nimport itertools\n")),
        (OFF_D, E.replace("        if sample_len <= end:\n            sample = sample + [float('inf')] * (end - sample_len + 1)\n",
                          "        if sample_len <= end and begin == 0:\n            return list(itertools.accumulate(reversed(sample), min))[::-1]\n        if sample_len <= end:\n            sample = sample + [float('inf')] * (end - sample_len + 1)\n"))]})
    # round-6/7 twins
    A(text_twin('twin-long-window-shortcut-for-zero-begin', OFF_D, "        sample = [-float(\"inf\") for j in range(end)] + sample\n",
                "        if end >= len(sample) and begin == 0:\n            sample_return = []\n            prev_out = -float(\"inf\")\n            for i in sample:\n                prev_out = max(i, prev_out)\n                sample_return.append(prev_out)\n            return sample_return\n        sample = [-float(\"inf\") for j in range(end)] + sample\n"))
    A(text_twin('twin-period-stored-on-ast-last', 'rtamt/spec/abstract_specification.py', """        # the pastifier needs the period as well: `next` looks one sample ahead
        self.ast.sampling_period = sampling_period
        self.ast.sampling_period_unit = unit
        if hasattr(self, 'online_interpreter'):""", """        self.ast.sampling_period_unit = unit
        self.ast.sampling_period = sampling_period
        if hasattr(self, 'online_interpreter'):"""))
    A(text_twin('twin-timestamp-through-local', 'rtamt/spec/abstract_specification.py', "            i = args[0]\n            dataset = args[1]\n            return self.online_interpreter.update(i, dataset)",
                "            timestamp = args[0]\n            i = timestamp\n            dataset = args[1]\n            return self.online_interpreter.update(i, dataset)"))
    A({'id': 'twin-suffix-fold-helper-right-condition', 'kind': 'twin', 'props': list(ALL), 'edits': [
        (OFF_D, E.replace("class StlDiscreteTimeOfflineAstVisitor(StlAstVisitor):\n", "def suffix_fold(fn, sample):\n    out = []\n    for val in reversed(sample):\n        out.append(fn(val, out[-1]) if out else val)\n    out.reverse()\n    return out\n\n\nclass StlDiscreteTimeOfflineAstVisitor(StlAstVisitor):\n")),
        (OFF_D, E.replace("        if sample_len <= end:\n            sample = sample + [float('inf')] * (end - sample_len + 1)\n",
                          "        tail = sample[begin:]\n        if end - begin >= len(tail) - 1:\n            return (suffix_fold(min, tail) + [float('inf')] * begin)[0:sample_len]\n        if sample_len <= end:\n            sample = sample + [float('inf')] * (end - sample_len + 1)\n"))]})
    # round-10 twins: the same handlers written with other idioms
    A(text_twin('twin-offline-abs-comprehension', OFF_D, "        sample_return = []\n        for i in sample:\n            out_sample = abs(i)\n            sample_return.append(out_sample)\n        return sample_return\n", "        return [abs(i) for i in sample]\n"))
    A(text_twin('twin-offline-once-accumulate', OFF_D, '        sample_return = []\n        prev_out = -float("inf")\n        for i in sample:\n            out_sample = max(i, prev_out)\n            prev_out = out_sample\n            sample_return.append(out_sample)\n        return sample_return\n', "        import itertools\n        return list(itertools.accumulate(sample, max))\n"))
    A(text_twin('twin-offline-and-index-loop', OFF_D, "        sample_return = list(map(min, zip(sample_left, sample_right)))\n", "        sample_return = []\n        for i in range(min(len(sample_left), len(sample_right))):\n            sample_return.append(min(sample_left[i], sample_right[i]))\n"))
    A(text_twin('twin-offline-once-ifexp', OFF_D, '            out_sample = max(i, prev_out)\n            prev_out = out_sample\n            sample_return.append(out_sample)\n        return sample_return\n\n\n    def visitHistorically', '            out_sample = i if i > prev_out else prev_out\n            prev_out = out_sample\n            sample_return.append(out_sample)\n        return sample_return\n\n\n    def visitHistorically'))
    A({'id': 'twin-reformat-discrete-interpreter', 'kind': 'twin', 'props': list(ALL), 'edits': [('rtamt/semantics/discrete_time_interpreter.py', _reformat)]})
    out += rewrites()[0]
    out += agent_twins()
    return out


def round11_mutants():
    """sa/selftest/round11_mutants/*.diff: the idioms of the agent-written twins (helper extraction, dispatch tables, reduce, chained ranges, zip-paired
    lists, single-exit memo, early-return variants) written *wrongly*: what the lowering and the new readers let through must still be judged"""
    out = []
    for p in sorted(glob.glob(os.path.join(VERIF, 'sa', 'selftest', 'round11_mutants', '*.diff'))):
        out.append({'id': 'r11-%s' % os.path.basename(p)[:-5], 'kind': 'mutant', 'patch': p})
    return out


def agent_twins():
    """twins/<area>-Rxx/patch.diff: behaviour-preserving refactorings written by independent sub-agents (round 11), each verified there by the pinned
    suite and a differential test.  Those that tools/run_twins.py found silent (twins/RESULTS.json) must stay silent; the others are listed in DESIGN.md
    as rewrites the checks do not read yet (exit 2) -- they are not part of the catalogue, so that the self-test does not bless an alarm"""
    out = []
    try:
        res = json.load(open(os.path.join(VERIF, 'twins', 'RESULTS.json')))
    except Exception:
        return out
    for name, r in sorted(res.items()):
        if r.get('silent'):
            out.append({'id': 'twin-agent-%s' % name, 'kind': 'twin', 'props': list(ALL), 'patch': os.path.join(VERIF, 'twins', name, 'patch.diff')})
    return out


def rewrites():
    """sa/selftest/rewrites/*.py: VARIANTS = {name: [(file, old, new), ...]} -- the same handler written with another idiom (twins), and, named
    'M-...', the same idiom written wrongly (mutants).  Also the input format of tools/eq_probe.py."""
    tw, mu = [], []
    for p in sorted(glob.glob(os.path.join(VERIF, 'sa', 'selftest', 'rewrites', '*.py'))):
        ns = {}
        exec(open(p).read(), ns)
        for name, edits in ns['VARIANTS'].items():
            ed = [(rel, E.replace_first(old, new)) for rel, old, new in edits]
            if name.startswith('M-'):
                mu.append({'id': 'rw-%s' % name[2:], 'kind': 'mutant', 'edits': ed})
            else:
                tw.append({'id': 'twin-rw-%s' % name, 'kind': 'twin', 'edits': ed, 'props': list(ALL)})
    return tw, mu


def _reformat(src):
    """ast round trip: drops comments, normalises quotes, parentheses and line breaks -- line numbers and text change, behaviour does not"""
    return ast.unparse(ast.parse(src)) + '\n'


# ------------------------------------------------------------------------------------------------- patches
def reversed_fixes():
    out = []
    kf = json.load(open(os.path.join(VERIF, 'known_findings.json')))
    props = {}
    for e in kf.get('fixed', []):
        m = re.match(r'fixed: property=(C\d+) ([0-9a-f]{7,})', e)
        if m:
            props.setdefault(m.group(2), []).append(m.group(1))
    for p in sorted(glob.glob(os.path.join(VERIF, 'sa', 'selftest', 'fixes', '*.diff'))):
        h = os.path.basename(p)[:-5]
        out.append({'id': 'revert-fix-%s' % h, 'kind': 'mutant', 'patch': p, 'reverse': True, 'props': sorted(set(props.get(h, [])))})
    return out


def seeded():
    out = []
    for d in sorted(glob.glob(os.path.join(VERIF, 'seeded', '*', ''))):
        name = os.path.basename(d.rstrip('/'))
        try:
            meta = json.load(open(os.path.join(d, 'meta.json')))
        except Exception:
            continue
        out.append({'id': 'seeded-%s' % name, 'kind': 'mutant', 'patch': os.path.join(d, 'patch.diff'), 'props': [meta['property']]})
    return out


def generated(repo):
    out = []
    for g in (gen_handlers, gen_operations, gen_intersection, gen_pastifier, gen_parser, gen_explainer, hand):
        out += g(repo)
    return out


def expected():
    p = os.path.join(VERIF, 'sa', 'selftest', 'expected.json')
    if os.path.exists(p):
        return json.load(open(p))
    return {}


def variants(repo, discover=False):
    """discover=True: every mutant is run against every property (used to build expected.json)"""
    exp = expected()
    out = []
    for v in reversed_fixes() + seeded() + round11_mutants() + generated(repo):
        if discover:
            v['props'] = list(ALL)
            out.append(v)
            continue
        if v['id'] in exp and exp[v['id']].get('equivalent'):
            # triaged as behaviour-preserving: it becomes a twin that every check must leave alone
            v['kind'] = 'twin'
            v['props'] = list(ALL)
            out.append(v)
            continue
        if v['id'] in exp:
            v['props'] = list(exp[v['id']]['props'])
        elif 'props' not in v:
            continue    # generated mutant not yet confirmed: ignored by the per-property runs
        if v['props']:
            out.append(v)
    out += twins(repo)
    return out

