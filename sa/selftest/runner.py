"""E9 -- checker self-test: mutants (must be reported, naming the property's check) and twins (behaviour-preserving edits that
must leave the checks silent).  Every variant is a scratch copy of the working tree's rtamt/ package under a temporary
directory outside /repo and /verif, analysed statically (never executed) and removed immediately."""
import importlib
import json
import os
import shutil
import subprocess
import sys
import tempfile
import time
from concurrent.futures import ProcessPoolExecutor

from sa import core
from sa.index import AnalysisError, Index
from sa.selftest import edits

VERIF = core.VERIF


def _copy_tree(repo, dst):
    shutil.copytree(os.path.join(repo, 'rtamt'), os.path.join(dst, 'rtamt'),
                    ignore=shutil.ignore_patterns('cpplib', '__pycache__', '*.pyc', 'build', '*.so'))


def run_props_on(repo, props):
    """{pid: (exit code, [finding keys])} -- runs the property checks in-process on the tree at repo"""
    out = {}
    ix = Index(repo)
    known = {}
    for k in core.load_known().get('findings', []):
        known.setdefault(k.get('property'), set()).add(k.get('key'))
    for pid in props:
        mod = importlib.import_module('sa.props.%s' % pid.lower())
        rep = core.Report(pid, 'quick')
        try:
            mod.check(ix, rep)
            low = [(n, o, fl) for (n, o, fl) in rep.floors if o < fl]
            viol = [f for f in rep.findings if f.key not in known.get(pid, ())]     # recorded findings are not alarms
            code = 1 if viol else (2 if (low or rep.errors) else 0)
            out[pid] = (code, [f.key for f in viol], [f.text() for f in viol[:3]] or ['ANALYSIS-ERROR ' + m for m in rep.errors[:2]])
        except AnalysisError as e:
            viol = [f for f in rep.findings if f.key not in known.get(pid, ())]
            if viol:
                out[pid] = (1, [f.key for f in viol], [f.text() for f in viol[:3]])
            else:
                out[pid] = (2, [], ['ANALYSIS-ERROR %s' % e])
        except Exception as e:
            out[pid] = (2, [], ['internal error %r' % e])
    return out


def _one(args):
    repo, variant = args
    vid = variant['id']
    tmp = tempfile.mkdtemp(prefix='sa_selftest_')
    try:
        _copy_tree(repo, tmp)
        try:
            for (rel, edit) in variant['edits']:
                p = os.path.join(tmp, rel)
                if not os.path.exists(p):
                    raise edits.NotApplicable('file %s missing' % rel)
                with open(p) as fh:
                    src = fh.read()
                new = edit(src)
                if new == src:
                    raise edits.NotApplicable('edit is a no-op')
                compile(new, p, 'exec')
                with open(p, 'w') as fh:
                    fh.write(new)
        except edits.NotApplicable as e:
            return vid, 'not-applicable', str(e), {}
        except SyntaxError as e:
            return vid, 'not-applicable', 'edit does not compile: %s' % e, {}
        res = run_props_on(tmp, variant['props'])
        return vid, 'ran', '', res
    finally:
        shutil.rmtree(tmp, ignore_errors=True)


def _patch_variant(repo, variant):
    """variant given as a unified diff (seeded change or reversed fix): applied with `git apply` in the scratch copy"""
    vid = variant['id']
    tmp = tempfile.mkdtemp(prefix='sa_selftest_')
    try:
        _copy_tree(repo, tmp)
        r = subprocess.run(['git', 'apply', '--unsafe-paths', '--directory', tmp] + (['-R'] if variant.get('reverse') else []) + [variant['patch']],
                           cwd=tmp, capture_output=True, text=True)
        if r.returncode != 0:
            return vid, 'not-applicable', 'patch does not apply: %s' % r.stderr.strip()[:120], {}
        res = run_props_on(tmp, variant['props'])
        return vid, 'ran', '', res
    finally:
        shutil.rmtree(tmp, ignore_errors=True)


_CAT = {}


def _dispatch(args):
    repo, variant = args
    if 'patch' in variant:
        return _patch_variant(repo, variant)
    if 'edits' not in variant:
        # edits are closures and cannot cross the process boundary: the worker rebuilds the catalogue and looks the variant up
        from sa.selftest import catalogue
        if repo not in _CAT:
            _CAT[repo] = {v['id']: v for v in catalogue.variants(repo, discover=True)}
        full = dict(_CAT[repo][variant['id']])
        full['props'] = variant['props']
        return _one((repo, full))
    return _one(args)


def run(repo, variants, jobs=None):
    jobs = jobs or min(16, os.cpu_count() or 4)
    slim = [{k: v for k, v in var.items() if k != 'edits'} for var in variants]
    with ProcessPoolExecutor(max_workers=jobs) as ex:
        return list(ex.map(_dispatch, [(repo, v) for v in slim], chunksize=1))


def evaluate(variants, results):
    """-> (killed, survived, noisy, silent, not_applicable) lists"""
    byid = {v['id']: v for v in variants}
    killed, survived, noisy, silent, na, broken = [], [], [], [], [], []
    for vid, status, msg, res in results:
        v = byid[vid]
        if status == 'not-applicable':
            na.append((vid, msg))
            continue
        if v['kind'] == 'mutant':
            hit = [p for p, (code, keys, texts) in res.items() if code == 1]
            if hit:
                killed.append((vid, hit, [res[p][2][0] for p in hit][:1]))
            else:
                survived.append((vid, {p: res[p][0] for p in res}, [t for p in res for t in res[p][2]][:2]))
        else:
            bad = [p for p, (code, keys, texts) in res.items() if code != 0]
            if bad:
                noisy.append((vid, bad, [res[p][2][0] for p in bad if res[p][2]][:2]))
            else:
                silent.append(vid)
    return killed, survived, noisy, silent, na


def run_for_property(pid, repo=None, verbose=True):
    """thorough tier: self-test of the checker on the variants that concern property pid"""
    from sa.selftest import catalogue
    repo = repo or os.environ.get('SA_REPO', '/repo')
    t0 = time.time()
    allv = catalogue.variants(repo)
    mine = []
    for v in allv:
        if pid in v['props']:
            w = dict(v)
            w['props'] = [pid]
            mine.append(w)
    results = run(repo, mine)
    killed, survived, noisy, silent, na = evaluate(mine, results)
    nm = sum(1 for v in mine if v['kind'] == 'mutant')
    nt = sum(1 for v in mine if v['kind'] == 'twin')
    print('%s [thorough] checker self-test: %d mutants (%d reported, %d missed), %d twins (%d silent, %d noisy), %d not applicable; %.1fs'
          % (pid, nm, len(killed), len(survived), nt, len(silent), len(noisy), len(na), time.time() - t0))
    for vid, codes, texts in survived:
        print('SELFTEST-FAIL property=%s mutant %s was not reported (exit codes %s) %s' % (pid, vid, codes, texts[:1]))
    for vid, bad, texts in noisy:
        print('SELFTEST-FAIL property=%s behaviour-preserving twin %s raised an alarm: %s' % (pid, vid, texts[:1]))
    for vid, msg in na:
        print('  not applicable: %s (%s)' % (vid, msg))
    # extend the evidence file written by the quick part of this run
    evp = os.path.join(VERIF, 'evidence', '%s.json' % pid)
    try:
        with open(evp) as fh:
            ev = json.load(fh)
        ev['tier'] = 'thorough'
        ev['coverage']['selftest'] = {
            'mutants': nm, 'mutants_reported': len(killed), 'mutants_missed': [s[0] for s in survived],
            'twins': nt, 'twins_silent': len(silent), 'twins_noisy': [s[0] for s in noisy],
            'not_applicable': [n[0] for n in na],
            'sample_reports': [{'mutant': k[0], 'report': k[2][0] if k[2] else ''} for k in killed[:8]],
        }
        ev['wall_s'] = round(ev.get('wall_s', 0) + time.time() - t0, 3)
        with open(evp, 'w') as fh:
            json.dump(ev, fh, indent=1, sort_keys=True, default=str)
    except Exception as e:
        print('ANALYSIS-ERROR property=%s cannot extend evidence: %r' % (pid, e))
        return 2
    if survived or noisy:
        return 2  # a defect of the checker, not a violation of rtamt
    floor = catalogue.FLOORS.get(pid, 1)
    if nm - 0 < floor:
        print('ANALYSIS-ERROR property=%s only %d applicable mutants (< %d)' % (pid, nm, floor))
        return 2
    return 0


def main(argv=None):
    """python -m sa.selftest.runner [--repo R] [--only id-substring] : run the whole catalogue, print a matrix"""
    import argparse
    from sa.selftest import catalogue
    ap = argparse.ArgumentParser()
    ap.add_argument('--repo', default='/repo')
    ap.add_argument('--only', default=None)
    ap.add_argument('--kind', default=None)
    a = ap.parse_args(argv)
    allv = catalogue.variants(a.repo)
    if a.only:
        allv = [v for v in allv if a.only in v['id']]
    if a.kind:
        allv = [v for v in allv if v['kind'] == a.kind]
    t0 = time.time()
    results = run(a.repo, allv)
    killed, survived, noisy, silent, na = evaluate(allv, results)
    print('%d variants in %.1fs: mutants reported %d, missed %d; twins silent %d, noisy %d; not applicable %d'
          % (len(allv), time.time() - t0, len(killed), len(survived), len(silent), len(noisy), len(na)))
    for vid, hit, texts in killed:
        print('  reported  %-46s by %s' % (vid, ','.join(hit)))
    for vid, codes, texts in survived:
        print('  MISSED    %-46s %s %s' % (vid, codes, texts[:1]))
    for vid, bad, texts in noisy:
        print('  NOISY     %-46s %s %s' % (vid, bad, texts[:1]))
    for vid, msg in na:
        print('  n/a       %-46s %s' % (vid, msg))
    return 0 if not survived and not noisy else 2


if __name__ == '__main__':
    sys.exit(main())
