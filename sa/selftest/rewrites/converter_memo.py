DI='rtamt/semantics/discrete_time_interpreter.py'
_INIT = ("        self.normalize = float(1.0)\n\n        return\n", "        self.normalize = float(1.0)\n\n        # operator bounds expressed in samples, see time_unit_transformer()\n        self.bounds_in_samples = dict()\n\n        return\n")
_SET = ("        self.sampling_period = sampling_period\n        self.sampling_period_unit = unit\n", "        self.sampling_period = sampling_period\n        self.sampling_period_unit = unit\n        self.bounds_in_samples.clear()\n")
def _conv(key):
    return ("    def time_unit_transformer(self, node):\n", "    def time_unit_transformer(self, node):\n        key = %s\n        if key not in self.bounds_in_samples:\n            self.bounds_in_samples[key] = self.bounds_to_samples(node)\n        return self.bounds_in_samples[key]\n\n    def bounds_to_samples(self, node):\n" % key)
VARIANTS = {
 'C1-converter-memo-by-helper-full-key': [(DI,) + _INIT, (DI,) + _SET, (DI,) + _conv("(node.begin, node.begin_unit, node.end, node.end_unit, self.ast.unit)")],
 'C2-converter-memo-keyed-by-node': [(DI,) + _INIT, (DI,) + _SET, (DI,) + _conv("(node, self.ast.unit)")],
 'M-C1-converter-memo-key-without-end': [(DI,) + _INIT, (DI,) + _SET, (DI,) + _conv("(node.begin, node.begin_unit, node.end_unit, self.ast.unit)")],
 'M-C1-converter-memo-never-cleared': [(DI,) + _INIT, (DI,) + _conv("(node.begin, node.begin_unit, node.end, node.end_unit, self.ast.unit)")],
}
