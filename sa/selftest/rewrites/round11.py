F='rtamt/semantics/stl/discrete_time/offline/ast_visitor.py'
_UNTIL_TAIL = "                out_sample = max(out_sample, min(c_left, c_right))\n            sample_return.append(out_sample)\n        sample_return.reverse()\n        return sample_return"
VARIANTS = {
 # the sample loop of until[a,b] runs backwards: its output list has to be turned round exactly once
 'K1-timeduntil-return-slice-reversed': [(F, _UNTIL_TAIL, "                out_sample = max(out_sample, min(c_left, c_right))\n            sample_return.append(out_sample)\n        return sample_return[::-1]")],
 'M-K1-timeduntil-not-reversed': [(F, _UNTIL_TAIL, "                out_sample = max(out_sample, min(c_left, c_right))\n            sample_return.append(out_sample)\n        return sample_return")],
 'M-K1-timeduntil-reversed-twice': [(F, _UNTIL_TAIL, "                out_sample = max(out_sample, min(c_left, c_right))\n            sample_return.append(out_sample)\n        sample_return.reverse()\n        return sample_return[::-1]")],
}
