ON='rtamt/semantics/stl/discrete_time/online/'
VARIANTS = {
 'M-O1-state-first-then-read-old': [(ON+'rise_operation.py', "        sample_return = min(- self.prev, sample)\n        self.prev = sample\n", "        self.prev = sample\n        sample_return = min(- self.prev, sample)\n")],
 'O10-prev-tuple-swap': [(ON+'previous_operation.py', "        sample_return = self.prev\n        self.prev = sample\n", "        sample_return, self.prev = self.prev, sample\n")],
}
