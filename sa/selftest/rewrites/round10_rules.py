OFF='rtamt/semantics/abstract_discrete_time_offline_interpreter.py'
LV='rtamt/syntax/ast/parser/ltl/parser_visitor.py'
AA='rtamt/syntax/ast/parser/abstract_ast_parser.py'
EX='rtamt/exception/exception.py'
IAP='rtamt/semantics/iastl/dense_time/offline/ast_visitor.py'
VARIANTS = {
 'R1-entry-copy-list': [(OFF, "                self.ast.var_object_dict[key] = dataset[key]\n", "                self.ast.var_object_dict[key] = list(dataset[key])\n")],
 'R2-gaploop-under-length-guard': [(OFF, "        for i in range(len(ts) - 1):\n            duration = (ts[i+1] - ts[i]) * self.normalize\n            self.update_sampling_violation_counter(duration)\n", "        if len(ts) > 1:\n            for i in range(len(ts) - 1):\n                duration = (ts[i+1] - ts[i]) * self.normalize\n                self.update_sampling_violation_counter(duration)\n")],
 'R3-assertion-specs-augassign': [(LV, "        self.specs.append(out)\n", "        self.specs += [out]\n")],
 'R4-subspec-augassign': [(AA, "        self.modular_spec = self.modular_spec + sub_spec + '\\n'\n", "        self.modular_spec += sub_spec + '\\n'\n")],
 'R5-exception-str-of-argument': [(EX, "            self.message = args[0]\n", "            self.message = str(args[0]).strip()\n")],
 'R6-ia-predicate-zip': [(IAP, "            for i, sample in enumerate(sat_samples):\n                val = float(\"inf\") if sample[1] == True else -float(\"inf\")\n                out.append([out_sample[i][0], val])\n", "            for rob, sample in zip(out_sample, sat_samples):\n                val = float(\"inf\") if sample[1] == True else -float(\"inf\")\n                out.append([rob[0], val])\n")],
 'M-R1-entry-rounded': [(OFF, "                self.ast.var_object_dict[key] = dataset[key]\n", "                self.ast.var_object_dict[key] = [round(v, 9) for v in dataset[key]]\n")],
 'M-R2-gaploop-under-data-guard': [(OFF, "        for i in range(len(ts) - 1):\n            duration = (ts[i+1] - ts[i]) * self.normalize\n            self.update_sampling_violation_counter(duration)\n", "        if ts[-1] - ts[0] != (len(ts) - 1) * self.sampling_period:\n            for i in range(len(ts) - 1):\n                duration = (ts[i+1] - ts[i]) * self.normalize\n                self.update_sampling_violation_counter(duration)\n")],
 'M-R3-assertion-specs-insert-front': [(LV, "        self.specs.append(out)\n", "        self.specs.insert(0, out)\n")],
 'M-R5-exception-lower': [(EX, "            self.message = args[0]\n", "            self.message = args[0].lower()\n")],
}
