"""AST-computed edits used by the checker self-test.  Each edit takes the source text of one file and returns the new text
(or raises NotApplicable when the construct it targets is not there any more)."""
import ast
import copy


class NotApplicable(Exception):
    pass


def _find_func(tree, qual):
    """'Class.method' or 'function'"""
    parts = qual.split('.')
    body = tree.body
    node = None
    for i, p in enumerate(parts):
        found = None
        for n in body:
            if isinstance(n, (ast.ClassDef, ast.FunctionDef)) and n.name == p:
                found = n  # last definition wins
        if found is None:
            raise NotApplicable('no %s' % qual)
        node = found
        body = found.body
    return node


def ast_edit(qual, transform):
    """edit = apply transform(func_node) -> bool(changed) to the function/class named qual, re-emit the file"""
    def run(src):
        tree = ast.parse(src)
        fn = _find_func(tree, qual)
        changed = transform(fn)
        if not changed:
            raise NotApplicable('transform found nothing to change in %s' % qual)
        ast.fix_missing_locations(tree)
        return ast.unparse(tree) + '\n'
    return run


def replace(old, new, count=1):
    def run(src):
        if src.count(old) < 1 or (count and src.count(old) != count):
            raise NotApplicable('text not found %d times: %r' % (count, old[:40]))
        return src.replace(old, new)
    return run


def replace_first(old, new):
    """the first occurrence only (the form tools/eq_probe.py applies)"""
    def run(src):
        if src.count(old) < 1:
            raise NotApplicable('text not found: %r' % (old[:40],))
        return src.replace(old, new, 1)
    return run


def append_text(text):
    def run(src):
        return src + '\n' + text + '\n'
    return run


# ----------------------------------------------------------------------------------------------- transforms
def swap_minmax(fn):
    ch = [False]
    for n in ast.walk(fn):
        if isinstance(n, ast.Name) and n.id in ('min', 'max') and isinstance(n.ctx, ast.Load):
            n.id = 'max' if n.id == 'min' else 'min'
            ch[0] = True
    return ch[0]


def swap_first_minmax(fn):
    for n in ast.walk(fn):
        if isinstance(n, ast.Name) and n.id in ('min', 'max') and isinstance(n.ctx, ast.Load):
            n.id = 'max' if n.id == 'min' else 'min'
            return True
    return False


def flip_inf(fn):
    """first +-float('inf') gets the opposite sign"""
    class T(ast.NodeTransformer):
        done = False

        def visit_UnaryOp(self, n):
            if not self.done and isinstance(n.op, ast.USub) and isinstance(n.operand, ast.Call) and getattr(n.operand.func, 'id', None) == 'float':
                self.done = True
                return n.operand
            self.generic_visit(n)
            return n

        def visit_Call(self, n):
            if not self.done and getattr(n.func, 'id', None) == 'float' and n.args and isinstance(n.args[0], ast.Constant) and str(n.args[0].value).lower() == 'inf':
                self.done = True
                return ast.UnaryOp(op=ast.USub(), operand=n)
            self.generic_visit(n)
            return n
    t = T()
    fn.body = [t.visit(s) for s in fn.body]
    return t.done


def swap_binop_operands(optype):
    def tr(fn):
        for n in ast.walk(fn):
            if isinstance(n, ast.BinOp) and isinstance(n.op, optype):
                n.left, n.right = n.right, n.left
                return True
        return False
    return tr


def flip_compare(nth=0, only_value=None):
    m = {ast.Lt: ast.Gt, ast.Gt: ast.Lt, ast.LtE: ast.GtE, ast.GtE: ast.LtE}

    def tr(fn):
        k = 0
        for n in ast.walk(fn):
            if isinstance(n, ast.Compare) and len(n.ops) == 1 and type(n.ops[0]) in m:
                if only_value and only_value not in ast.unparse(n):
                    continue
                if k == nth:
                    n.ops = [m[type(n.ops[0])]()]
                    return True
                k += 1
        return False
    return tr


def delete_method(name):
    def tr(cls):
        before = len(cls.body)
        cls.body = [s for s in cls.body if not (isinstance(s, ast.FunctionDef) and s.name == name)]
        if not cls.body:
            cls.body = [ast.Pass()]
        return len(cls.body) != before
    return tr


def raise_other_exception(fn):
    for n in ast.walk(fn):
        if isinstance(n, ast.Raise) and isinstance(n.exc, ast.Call) and getattr(n.exc.func, 'id', None) == 'RTAMTException':
            n.exc.func = ast.Name(id='Exception', ctx=ast.Load())
            return True
    return False


def delete_stmt(pred):
    def tr(fn):
        ch = [False]

        def clean(body):
            out = []
            for s in body:
                if not ch[0] and pred(s):
                    ch[0] = True
                    continue
                for f in ('body', 'orelse', 'finalbody'):
                    b = getattr(s, f, None)
                    if isinstance(b, list) and b and isinstance(b[0], ast.stmt):
                        nb = clean(b)
                        setattr(s, f, nb if nb or f != 'body' else [ast.Pass()])
                out.append(s)
            return out
        fn.body = clean(fn.body) or [ast.Pass()]
        return ch[0]
    return tr


def stmt_contains(text):
    return lambda s: text in ast.unparse(s)


def rename_local(old, new):
    def tr(fn):
        ch = [False]
        for n in ast.walk(fn):
            if isinstance(n, ast.Name) and n.id == old:
                n.id = new
                ch[0] = True
            if isinstance(n, ast.arg) and n.arg == old:
                n.arg = new
                ch[0] = True
        return ch[0]
    return tr


def swap_call_args(funcname):
    def tr(fn):
        for n in ast.walk(fn):
            if isinstance(n, ast.Call) and isinstance(n.func, ast.Name) and n.func.id == funcname and len(n.args) == 2:
                n.args = [n.args[1], n.args[0]]
                return True
        return False
    return tr


def swap_adjacent(i, j):
    """swap statements i and j of the function body"""
    def tr(fn):
        body = [s for s in fn.body]
        if max(i, j) >= len(body):
            return False
        body[i], body[j] = body[j], body[i]
        fn.body = body
        return True
    return tr


def replace_const(old, new):
    def tr(fn):
        for n in ast.walk(fn):
            if isinstance(n, ast.Constant) and n.value == old and type(n.value) is type(old):
                n.value = new
                return True
        return False
    return tr


def replace_attr(old, new):
    def tr(fn):
        for n in ast.walk(fn):
            if isinstance(n, ast.Attribute) and n.attr == old:
                n.attr = new
                return True
        return False
    return tr


def replace_all_attr(old, new):
    def tr(fn):
        ch = False
        for n in ast.walk(fn):
            if isinstance(n, ast.Attribute) and n.attr == old:
                n.attr = new
                ch = True
        return ch
    return tr
