"""E6(a) -- rational functions over named symbols in canonical form (exact; used for unit/dimension rules)."""
import ast
from fractions import Fraction


class Poly(object):
    """multivariate polynomial: {monomial: coeff}, monomial = tuple of (symbol, power) sorted"""

    def __init__(self, terms=None):
        self.t = {k: v for k, v in (terms or {}).items() if v != 0}

    @staticmethod
    def const(c):
        return Poly({(): Fraction(c)})

    @staticmethod
    def sym(s):
        return Poly({((s, 1),): Fraction(1)})

    def __add__(self, o):
        t = dict(self.t)
        for k, v in o.t.items():
            t[k] = t.get(k, 0) + v
        return Poly(t)

    def __neg__(self):
        return Poly({k: -v for k, v in self.t.items()})

    def __sub__(self, o):
        return self + (-o)

    def __mul__(self, o):
        t = {}
        for k1, v1 in self.t.items():
            for k2, v2 in o.t.items():
                d = dict(k1)
                for s, p in k2:
                    d[s] = d.get(s, 0) + p
                k = tuple(sorted(d.items()))
                t[k] = t.get(k, 0) + v1 * v2
        return Poly(t)

    def __eq__(self, o):
        return self.t == o.t

    def is_zero(self):
        return not self.t

    def __repr__(self):
        if not self.t:
            return '0'
        parts = []
        for k, v in sorted(self.t.items()):
            m = '*'.join(s if p == 1 else '%s^%d' % (s, p) for s, p in k)
            parts.append(('%s*%s' % (v, m)) if m and v != 1 else (m or str(v)))
        return ' + '.join(parts)


class RatFun(object):
    def __init__(self, num, den=None):
        self.n = num
        self.d = den if den is not None else Poly.const(1)

    @staticmethod
    def const(c):
        return RatFun(Poly.const(c))

    @staticmethod
    def sym(s):
        return RatFun(Poly.sym(s))

    def __add__(self, o):
        return RatFun(self.n * o.d + o.n * self.d, self.d * o.d)

    def __sub__(self, o):
        return RatFun(self.n * o.d - o.n * self.d, self.d * o.d)

    def __mul__(self, o):
        return RatFun(self.n * o.n, self.d * o.d)

    def __truediv__(self, o):
        return RatFun(self.n * o.d, self.d * o.n)

    def __neg__(self):
        return RatFun(-self.n, self.d)

    def same(self, o):
        return (self.n * o.d - o.n * self.d).is_zero()

    def rename(self, m):
        """the same function with symbols renamed (used to identify two symbols known to be equal on a path)"""
        def rp(p):
            t = {}
            for mono, c in p.t.items():
                d = {}
                for s_, pw in mono:
                    s2 = m.get(s_, s_)
                    d[s2] = d.get(s2, 0) + pw
                k = tuple(sorted(d.items()))
                t[k] = t.get(k, 0) + c
            return Poly(t)
        return RatFun(rp(self.n), rp(self.d))

    def __repr__(self):
        if self.d == Poly.const(1):
            return repr(self.n)
        return '(%r)/(%r)' % (self.n, self.d)


IDENTITY_CALLS = ('float', 'Fraction', 'Decimal', 'int', 'abs_', 'str', 'repr')      # str / repr: the decimal text of a number, lifted by Fraction(str(x))


class AlgEval(object):
    """Evaluate an expression ast into a RatFun. ``leaf(node)`` maps attribute/subscript leaves to RatFun or None."""

    def __init__(self, env, leaf):
        self.env = env
        self.leaf = leaf
        self.int_applied = []

    def ev(self, e):
        if isinstance(e, ast.Constant) and isinstance(e.value, (int, float)) and not isinstance(e.value, bool):
            return RatFun.const(Fraction(str(e.value)))
        if isinstance(e, ast.Name):
            if e.id in self.env:
                return self.env[e.id]
            raise ValueError('unbound name %s' % e.id)
        if isinstance(e, ast.UnaryOp) and isinstance(e.op, ast.USub):
            return -self.ev(e.operand)
        if isinstance(e, ast.BinOp):
            a, b = self.ev(e.left), self.ev(e.right)
            if isinstance(e.op, ast.Add):
                return a + b
            if isinstance(e.op, ast.Sub):
                return a - b
            if isinstance(e.op, ast.Mult):
                return a * b
            if isinstance(e.op, ast.Div):
                return a / b
            raise ValueError('operator %s' % type(e.op).__name__)
        if isinstance(e, ast.Call):
            name = e.func.id if isinstance(e.func, ast.Name) else (e.func.attr if isinstance(e.func, ast.Attribute) else None)
            if name in IDENTITY_CALLS and len(e.args) == 1:
                if name == 'int':
                    self.int_applied.append(e)
                return self.ev(e.args[0])
            if name == 'Fraction' and len(e.args) == 2:
                return self.ev(e.args[0]) / self.ev(e.args[1])
            if name == 'limit_denominator' and isinstance(e.func, ast.Attribute) and len(e.args) <= 1:
                # the nearest fraction with a bounded denominator: for the entries of the unit table (powers of ten) that is the entry itself, written exactly
                return self.ev(e.func.value)
            r = self.leaf(e)
            if r is not None:
                return r
            raise ValueError('call %s' % ast.unparse(e)[:40])
        r = self.leaf(e)
        if r is not None:
            return r
        raise ValueError('expression %s' % ast.unparse(e)[:40])
