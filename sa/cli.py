"""./check <property-id> [--tier quick|thorough] [--replay path]"""
import argparse
import importlib
import os
import sys

from sa import core


def main(argv=None):
    ap = argparse.ArgumentParser()
    ap.add_argument('property')
    ap.add_argument('--tier', default=os.environ.get('VERIF_TIER', 'quick'), choices=['quick', 'thorough'])
    ap.add_argument('--replay', default=None)
    ap.add_argument('--repo', default=None)
    a = ap.parse_args(argv)
    if a.repo:
        os.environ['SA_REPO'] = a.repo
    pid = a.property.upper()
    try:
        mod = importlib.import_module('sa.props.%s' % pid.lower())
    except ImportError as e:
        print('ANALYSIS-ERROR property=%s no such check (%s)' % (pid, e))
        return 2

    def fn(report):
        from sa.index import Index
        ix = Index(os.environ.get('SA_REPO', '/repo'))
        return mod.check(ix, report)

    rc = core.run_check(pid, fn, a.tier, a.replay)
    if rc == 0 and a.tier == 'thorough' and not a.replay:
        from sa.selftest import runner
        rc = runner.run_for_property(pid)
    return rc


if __name__ == '__main__':
    sys.exit(main())
