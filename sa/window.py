"""E5b -- window summaries of the bounded operators (discrete time).

An abstract interpreter over *affine index arithmetic* and *min/max reductions*: it turns the bounded handlers
(padded slicing, deque ring buffers, nested accumulation loops) into a normal form

    Red(op, u in [lo, hi], body)        lo, hi affine in a = begin, b = end and enclosing bound variables
    leaf X_k(t + offset | low fill, high fill)

in which every bound variable has been re-indexed to *be* the offset of the leaf it drives.  Normal forms are compared
with the reference windows of README "Theory".  Side obligations (a list/deque index is in range, a slice handed to
min()/max() is not empty) are discharged with a small exact decision procedure for linear arithmetic
(Fourier-Motzkin elimination over the rationals) from the facts 0 <= begin <= end, n >= 1 and the loop ranges.
Nothing is executed; lengths, bounds and positions stay symbolic.
"""
import ast
from fractions import Fraction

from sa import opsum as O


class Unknown(Exception):
    pass


class NeedSplit(Exception):
    """the analysis must be repeated under `cond >= 0` and under `cond <= -1`"""
    def __init__(self, cond):
        Exception.__init__(self, repr(cond))
        self.cond = cond


# ===================================================================================== affine expressions
class Aff(object):
    __slots__ = ('c', 'k')

    def __init__(self, coeffs=None, const=0):
        self.c = {s: Fraction(v) for s, v in (coeffs or {}).items() if v != 0}
        self.k = Fraction(const)

    @staticmethod
    def sym(s):
        return Aff({s: 1})

    @staticmethod
    def const(v):
        return Aff({}, v)

    def __add__(self, o):
        o = _aff(o)
        d = dict(self.c)
        for s, v in o.c.items():
            d[s] = d.get(s, 0) + v
        return Aff(d, self.k + o.k)

    def __neg__(self):
        return Aff({s: -v for s, v in self.c.items()}, -self.k)

    def __sub__(self, o):
        return self + (-_aff(o))

    def scale(self, f):
        return Aff({s: v * f for s, v in self.c.items()}, self.k * f)

    def subst(self, sym, val):
        if sym not in self.c:
            return self
        co = self.c[sym]
        rest = Aff({s: v for s, v in self.c.items() if s != sym}, self.k)
        return rest + _aff(val).scale(co)

    def coeff(self, s):
        return self.c.get(s, Fraction(0))

    def syms(self):
        return set(self.c)

    def key(self):
        return (tuple(sorted(self.c.items())), self.k)

    def __eq__(self, o):
        return isinstance(o, Aff) and self.key() == o.key()

    def __hash__(self):
        return hash(self.key())

    def __repr__(self):
        parts = []
        for s, v in sorted(self.c.items()):
            parts.append(('%s' % s) if v == 1 else ('-%s' % s) if v == -1 else '%s*%s' % (v, s))
        if self.k != 0 or not parts:
            parts.append(str(self.k))
        return '+'.join(parts).replace('+-', '-')


def _aff(x):
    return x if isinstance(x, Aff) else Aff.const(x)


# ===================================================================================== linear entailment
def entails(facts, goal):
    """facts: list of Aff meaning `aff >= 0` (integer variables).  True if they imply goal >= 0.
    Decided by refuting facts /\\ (goal <= -1) with Fourier-Motzkin elimination over the rationals."""
    cons = [f for f in facts] + [(-goal) - Aff.const(1)]
    return _infeasible(cons)


def _infeasible(cons):
    cons = list(cons)
    vars_ = set()
    for c in cons:
        vars_ |= c.syms()
    for v in sorted(vars_):
        pos, neg, rest = [], [], []
        for c in cons:
            co = c.coeff(v)
            if co > 0:
                pos.append(c)
            elif co < 0:
                neg.append(c)
            else:
                rest.append(c)
        new = rest
        for p in pos:
            for q in neg:
                # p: a*v + P >= 0 (a>0) ; q: -b*v + Q >= 0 (b>0)  =>  b*P + a*Q >= 0
                a, b = p.coeff(v), -q.coeff(v)
                comb = p.scale(b) + q.scale(a)
                comb = Aff({s: x for s, x in comb.c.items() if s != v}, comb.k)
                new.append(comb)
        cons = new
        if len(cons) > 4000:
            return False
    for c in cons:
        if not c.c and c.k < 0:
            return True
    return False


# ===================================================================================== terms
# ('leaf', k, idx Aff, low fill, high fill)   ('c', name)   ('min'|'max', (terms))   ('red', op, var, lo, hi, body)
NEUTRAL = {'min': ('c', 'inf'), 'max': ('c', '-inf')}


def mk(op, args):
    flat = []
    for a in args:
        if a[0] == op:
            flat.extend(a[1])
        else:
            flat.append(a)
    flat = [a for a in flat if a != NEUTRAL[op]]
    uniq = []
    for a in flat:
        if a not in uniq:
            uniq.append(a)
    if not uniq:
        return NEUTRAL[op]
    if len(uniq) == 1:
        return uniq[0]
    return (op, tuple(sorted(uniq, key=repr)))


def t_subst(term, sym, val):
    h = term[0]
    if h == 'leaf':
        return ('leaf', term[1], term[2].subst(sym, val), term[3], term[4])
    if h == 'c':
        return term
    if h in ('min', 'max'):
        return mk(h, [t_subst(a, sym, val) for a in term[1]])
    if h == 'red':
        _, op, var, lo, hi, body = term
        if var == sym:
            return term
        return ('red', op, var, lo.subst(sym, val), hi.subst(sym, val), t_subst(body, sym, val))
    raise Unknown('term %s' % (h,))


def t_syms(term):
    h = term[0]
    if h == 'leaf':
        return term[2].syms()
    if h == 'c':
        return set()
    if h in ('min', 'max'):
        s = set()
        for a in term[1]:
            s |= t_syms(a)
        return s
    if h == 'red':
        return (t_syms(term[5]) | term[3].syms() | term[4].syms()) - {term[2]}
    return set()


def show(term):
    h = term[0]
    if h == 'leaf':
        f = ''
        if term[3] is not None:
            f += ' low=%s' % term[3][1]
        if term[4] is not None:
            f += ' high=%s' % term[4][1]
        return 'x%d[%r%s]' % (term[1], term[2], f)
    if h == 'c':
        return term[1]
    if h in ('min', 'max'):
        return '%s(%s)' % (h, ', '.join(show(a) for a in term[1]))
    if h == 'red':
        return '%s{%s in [%r .. %r]} %s' % (term[1].upper(), term[2], term[3], term[4], show(term[5]))
    return str(term)


# ===================================================================================== canonical form
def canonical(term, tsym='t'):
    """re-index every reduction so that its variable is the offset (relative to t) of the leaf it drives; name variables by depth"""
    counter = [0]

    def go(tm, depth):
        h = tm[0]
        if h == 'leaf':
            off = tm[2] - Aff.sym(tsym)
            if tsym in off.syms():
                raise Unknown('leaf index %r is not t + offset' % tm[2])
            return ('leaf', tm[1], off, tm[3], tm[4])
        if h == 'c':
            return tm
        if h in ('min', 'max'):
            return mk(h, [go(a, depth) for a in tm[1]])
        if h == 'red':
            _, op, var, lo, hi, body = tm
            # leaves directly driven by var (unit coefficient), not under a reduction that shadows it
            cands = []

            def leaves(x, bound):
                if x[0] == 'leaf':
                    co = x[2].coeff(var)
                    if co in (1, -1) and not (x[2].syms() & bound):
                        cands.append(x)
                elif x[0] in ('min', 'max'):
                    for a in x[1]:
                        leaves(a, bound)
                elif x[0] == 'red' and x[2] != var:
                    leaves(x[5], bound | {x[2]})
            leaves(body, set())
            new = 'u%d' % depth
            if cands:
                lf = sorted(cands, key=lambda l: (-l[1], repr(l[2])))[0]
                off = lf[2] - Aff.sym(tsym)                       # = co*var + rest
                co = off.coeff(var)
                rest = off - Aff.sym(var).scale(co)
                # var = co * (u - rest)
                val = (Aff.sym(new) - rest).scale(co)
                if co == 1:
                    nlo, nhi = lo + rest, hi + rest
                else:
                    nlo, nhi = (-hi) + rest, (-lo) + rest
                nbody = t_subst(body, var, val)
                lo2, hi2 = nlo, nhi
            else:
                nbody = t_subst(body, var, Aff.sym(new))
                lo2, hi2 = lo, hi
            inner = go(nbody, depth + 1)
            if inner == NEUTRAL[op]:
                return inner
            return ('red', op, new, lo2, hi2, inner)
        raise Unknown('canonical %s' % h)
    return go(term, 0)


def offsets_of(term):
    """all (operand, offset Aff) pairs of a canonical term"""
    out = []
    h = term[0]
    if h == 'leaf':
        out.append((term[1], term[2]))
    elif h in ('min', 'max'):
        for a in term[1]:
            out += offsets_of(a)
    elif h == 'red':
        out += offsets_of(term[5])
    return out


# ===================================================================================== reference windows
A, B = Aff.sym('a'), Aff.sym('b')
INF, NINF = ('c', 'inf'), ('c', '-inf')


def _leaf(k, off, low=None, high=None):
    return ('leaf', k, off, low, high)


def reference(name):
    u0, u1 = Aff.sym('u0'), Aff.sym('u1')
    z = Aff.const(0)
    one = Aff.const(1)
    if name == 'TimedOnce':
        return ('red', 'max', 'u0', -B, -A, _leaf(0, u0, NINF, None))
    if name == 'TimedHistorically':
        return ('red', 'min', 'u0', -B, -A, _leaf(0, u0, INF, None))
    if name == 'TimedEventually':
        return ('red', 'max', 'u0', A, B, _leaf(0, u0, None, NINF))
    if name == 'TimedAlways':
        return ('red', 'min', 'u0', A, B, _leaf(0, u0, None, INF))
    if name == 'TimedSince':
        return ('red', 'max', 'u0', -B, -A, mk('min', [('red', 'min', 'u1', u0 + one, z, _leaf(0, u1, INF, None)), _leaf(1, u0, NINF, None)]))
    if name == 'TimedUntil':
        return ('red', 'max', 'u0', A, B, mk('min', [('red', 'min', 'u1', z, u0 - one, _leaf(0, u1, None, INF)), _leaf(1, u0, None, NINF)]))
    if name == 'TimedPrecedes':
        return ('red', 'max', 'u0', A - B, z, mk('min', [('red', 'min', 'u1', -B, u0 - one, _leaf(0, u1, INF, None)), _leaf(1, u0, NINF, None)]))
    return None


# ===================================================================================== abstract values
class Seq(object):
    """a list value made of consecutive segments; segment = (length Aff, elem(position inside the segment) -> term).
    An operand extended by constant padding stays ONE segment (the padding becomes the fill of its leaves)."""

    def __init__(self, length, elem, desc='', segments=None):
        self.segments = segments if segments is not None else [(length, elem)]
        self.desc = desc

    @property
    def length(self):
        tot = Aff.const(0)
        for l, _ in self.segments:
            tot = tot + l
        return tot

    def elem(self, i):
        if len(self.segments) != 1:
            raise Unknown('indexing a sequence built from several pieces (%s)' % self.desc)
        return self.segments[0][1](i)

    def pieces(self):
        """[(start Aff, length Aff, elem)]"""
        out = []
        start = Aff.const(0)
        for l, f in self.segments:
            out.append((start, l, f))
            start = start + l
        return out


def _is_call(e, names):
    return isinstance(e, ast.Call) and ((isinstance(e.func, ast.Name) and e.func.id in names) or (isinstance(e.func, ast.Attribute) and e.func.attr in names))


def fold_helper_kind(fn):
    """a module-level helper  H(op, xs) / H(xs, op)  that is a running fold: 'suffix' when it walks reversed(xs) appending op(val, out[-1]) (the
    first value as it is) and reverses the result, 'prefix' when it walks xs in order -> (kind, index of the op parameter, index of the list parameter)"""
    params = [a.arg for a in fn.args.args]
    if len(params) != 2:
        return None
    body = [s for s in fn.body if not (isinstance(s, ast.Expr) and isinstance(s.value, ast.Constant))]
    if len(body) < 3 or not (isinstance(body[0], ast.Assign) and isinstance(body[0].value, ast.List) and not body[0].value.elts and isinstance(body[0].targets[0], ast.Name)):
        return None
    out = body[0].targets[0].id
    loop = body[1]
    if not (isinstance(loop, ast.For) and isinstance(loop.target, ast.Name) and len(loop.body) == 1):
        return None
    it = loop.iter
    rev = False
    if _is_call(it, ('reversed',)) and len(it.args) == 1:
        rev = True
        it = it.args[0]
    if not (isinstance(it, ast.Name) and it.id in params):
        return None
    xs = it.id
    opn = [p for p in params if p != xs][0]
    st = loop.body[0]
    val = loop.target.id
    want1 = '%s.append(%s(%s, %s[-1]) if %s else %s)' % (out, opn, val, out, out, val)
    want2 = '%s.append(%s(%s[-1], %s) if %s else %s)' % (out, opn, out, val, out, val)
    if ast.unparse(st) not in (want1, want2):
        return None
    rest = body[2:]
    reversed_back = any(isinstance(x, ast.Expr) and ast.unparse(x) == '%s.reverse()' % out for x in rest)
    ret = rest[-1]
    if not isinstance(ret, ast.Return):
        return None
    rv = ast.unparse(ret.value)
    if rv == out and rev == reversed_back:
        pass
    elif rv in ('%s[::-1]' % out, 'list(reversed(%s))' % out) and rev and not reversed_back:
        pass
    else:
        return None
    return ('suffix' if rev else 'prefix', params.index(opn), params.index(xs))


def _accumulate_form(e, helpers=None):
    if helpers and isinstance(e, ast.Call) and isinstance(e.func, ast.Name) and e.func.id in helpers and len(e.args) == 2 and not e.keywords:
        k = fold_helper_kind(helpers[e.func.id])
        if k is not None and isinstance(e.args[k[1]], ast.Name) and e.args[k[1]].id in ('min', 'max'):
            return e.args[k[2]], e.args[k[1]].id, k[0] == 'suffix'
    """-> (operand expr, 'min'|'max', suffix?) for  list(accumulate(X, op))  |  list(accumulate(reversed(X), op))[::-1]  |  list(reversed(list(accumulate(reversed(X), op))))"""
    def core(c):
        # accumulate(Y, op) -> (Y, op)
        if _is_call(c, ('accumulate',)) and len(c.args) == 2 and isinstance(c.args[1], ast.Name) and c.args[1].id in ('min', 'max') and not c.keywords:
            return c.args[0], c.args[1].id
        return None

    def strip_list(c):
        while _is_call(c, ('list',)) and len(c.args) == 1:
            c = c.args[0]
        return c
    rev_outer = False
    x = e
    if isinstance(x, ast.Subscript) and isinstance(x.slice, ast.Slice) and x.slice.lower is None and x.slice.upper is None and isinstance(x.slice.step, ast.UnaryOp) \
            and isinstance(x.slice.step.op, ast.USub) and isinstance(x.slice.step.operand, ast.Constant) and x.slice.step.operand.value == 1:
        rev_outer = True
        x = x.value
    x = strip_list(x)
    if _is_call(x, ('reversed',)) and len(x.args) == 1:
        rev_outer = not rev_outer
        x = strip_list(x.args[0])
    c = core(x)
    if c is None:
        return None
    inner, op = c
    rev_inner = False
    inner = strip_list(inner)
    if _is_call(inner, ('reversed',)) and len(inner.args) == 1:
        rev_inner = True
        inner = inner.args[0]
    elif isinstance(inner, ast.Subscript) and isinstance(inner.slice, ast.Slice) and inner.slice.lower is None and inner.slice.upper is None \
            and isinstance(inner.slice.step, ast.UnaryOp) and isinstance(inner.slice.step.operand, ast.Constant) and inner.slice.step.operand.value == 1:
        rev_inner = True
        inner = inner.value
    if rev_inner != rev_outer:
        return None          # a reversed running reduction: not a form of interest
    return inner, op, rev_inner


class Interp(object):
    """interprets one bounded handler / operation for an arbitrary output position t"""

    def __init__(self, facts=None):
        self.facts = list(facts or [])
        self.split_facts = list(facts or [])     # the case this run is analysed under (with_splits): kept across the paths of a handler
        self.obligations = []   # (text, Aff goal>=0, lineno)
        self.failed = []
        self.fresh = [0]
        self.base_facts()

    def base_facts(self):
        a, b, n = Aff.sym('a'), Aff.sym('b'), Aff.sym('n')
        self.facts += [a, b - a, n - Aff.const(1)]

    def newvar(self, p='v'):
        self.fresh[0] += 1
        return '%s%d' % (p, self.fresh[0])

    def require(self, goal, text, lineno, extra=()):
        ok = entails(self.facts + list(extra), goal)
        self.obligations.append((text, ok, lineno))
        if not ok:
            self.failed.append((text, lineno))
        return ok

    # ------------------------------------------------------------------ affine evaluation of index expressions
    def aff(self, e, env):
        if isinstance(e, ast.Constant) and isinstance(e.value, int) and not isinstance(e.value, bool):
            return Aff.const(e.value)
        if isinstance(e, ast.Name):
            v = env.get(e.id)
            if isinstance(v, Aff):
                return v
            raise Unknown('name %s is not an index' % e.id)
        if isinstance(e, ast.Attribute) and isinstance(e.value, ast.Name) and e.value.id == 'self':
            v = env.get('self.' + e.attr)
            if isinstance(v, Aff):
                return v
            raise Unknown('attribute self.%s is not an index' % e.attr)
        if isinstance(e, ast.UnaryOp) and isinstance(e.op, ast.USub):
            return -self.aff(e.operand, env)
        if isinstance(e, ast.BinOp) and isinstance(e.op, (ast.Add, ast.Sub)):
            l, r = self.aff(e.left, env), self.aff(e.right, env)
            return l + r if isinstance(e.op, ast.Add) else l - r
        if isinstance(e, ast.Call) and isinstance(e.func, ast.Name) and e.func.id == 'len' and len(e.args) == 1:
            s = self.seq(e.args[0], env)
            return s.length
        if isinstance(e, ast.Call) and isinstance(e.func, ast.Name) and e.func.id in ('max', 'min') and len(e.args) == 2 and not e.keywords:
            # clipping of an index: decided by the facts, else the analysis is repeated under both orders
            x, y = self.aff(e.args[0], env), self.aff(e.args[1], env)
            fx = self.facts + list(env.get('#facts', ()))
            if entails(fx, x - y):
                return x if e.func.id == 'max' else y
            if entails(fx, y - x):
                return y if e.func.id == 'max' else x
            raise NeedSplit(x - y)
        raise Unknown('index expression %s' % ast.unparse(e)[:40])

    # ------------------------------------------------------------------ sequences
    def seq(self, e, env):
        if isinstance(e, ast.Name):
            v = env.get(e.id)
            if isinstance(v, Seq):
                return v
            raise Unknown('name %s is not a sequence' % e.id)
        if isinstance(e, ast.Attribute) and isinstance(e.value, ast.Name) and e.value.id == 'self':
            v = env.get('self.' + e.attr)
            if isinstance(v, Seq):
                return v
            raise Unknown('self.%s is not a sequence' % e.attr)
        if isinstance(e, ast.Subscript) and not isinstance(e.slice, ast.Slice):
            # list of deques: self.buffer[0]
            base = None
            if isinstance(e.value, ast.Attribute) and isinstance(e.value.value, ast.Name) and e.value.value.id == 'self' and isinstance(e.slice, ast.Constant):
                v = env.get('self.%s[%d]' % (e.value.attr, e.slice.value))
                if isinstance(v, Seq):
                    return v
            raise Unknown('sequence %s' % ast.unparse(e)[:40])
        if isinstance(e, ast.BinOp) and isinstance(e.op, ast.Add):
            return self.concat(self.seq_or_const(e.left, env), self.seq_or_const(e.right, env))
        # running reductions: list(accumulate(X, op)) is the prefix reduction, list(accumulate(reversed(X), op))[::-1] (or reversed again) the suffix one
        acc = _accumulate_form(e, getattr(self, 'helpers', None))
        if acc is not None:
            inner, op, suffix = acc
            x = self.seq(inner, env)
            if len(x.segments) != 1:
                raise Unknown('running %s over a sequence built from several pieces' % op)
            n = x.length
            me = self

            def elem(i, x=x, op=op, suffix=suffix, n=n):
                v = me.newvar('i')
                body = x.elem(Aff.sym(v))
                if suffix:
                    return ('red', op, v, _aff(i), n - Aff.const(1), body)
                return ('red', op, v, Aff.const(0), _aff(i), body)
            return Seq(n, elem, desc='running %s (%s)' % (op, 'suffix' if suffix else 'prefix'))
        # copies: list(x), x.copy(), x[:]
        if isinstance(e, ast.Call) and isinstance(e.func, ast.Name) and e.func.id == 'list' and len(e.args) == 1:
            return self.seq(e.args[0], env)
        if isinstance(e, ast.Call) and isinstance(e.func, ast.Attribute) and e.func.attr == 'copy' and not e.args:
            return self.seq(e.func.value, env)
        if isinstance(e, ast.Subscript) and isinstance(e.slice, ast.Slice) and e.slice.lower is None and e.slice.upper is None and e.slice.step is None:
            return self.seq(e.value, env)
        if isinstance(e, ast.Subscript) and isinstance(e.slice, ast.Slice) and e.slice.step is None:
            # X[lo:hi] of a one-piece sequence: positions lo .. hi-1 (clipped to the sequence; decided by the facts or split)
            x = self.seq(e.value, env)
            if len(x.segments) == 1:
                fx = self.facts + list(env.get('#facts', ()))
                lo = self.aff(e.slice.lower, env) if e.slice.lower is not None else Aff.const(0)
                hi = self.aff(e.slice.upper, env) if e.slice.upper is not None else x.length
                self.require(lo, 'slice start of `%s` is not negative' % ast.unparse(e)[:50], e.lineno, env.get('#facts', ()))
                self.require(hi, 'slice stop of `%s` is not negative' % ast.unparse(e)[:50], e.lineno, env.get('#facts', ()))
                if not entails(fx, x.length - hi):
                    if entails(fx, hi - x.length - Aff.const(1)):
                        hi = x.length
                    else:
                        raise NeedSplit(x.length - hi)
                if not entails(fx, hi - lo):
                    if entails(fx, lo - hi - Aff.const(1)):
                        return Seq(Aff.const(0), lambda i: NEUTRAL['max'], 'empty slice')
                    raise NeedSplit(hi - lo)
                return Seq(hi - lo, lambda i, x=x, lo=lo: x.elem(_aff(i) + lo), '%s[%r:%r]' % (x.desc, lo, hi))
        raise Unknown('sequence expression %s' % ast.unparse(e)[:40])

    def seq_or_const(self, e, env):
        c = self.const_list(e, env)
        if c is not None:
            return c
        return self.seq(e, env)

    def const_list(self, e, env):
        """[c for j in range(m)]  /  [c] * m   ->  ('pad', const, m)"""
        if isinstance(e, ast.ListComp) and len(e.generators) == 1 and not e.generators[0].ifs:
            g = e.generators[0]
            c = O.const_of(e.elt)
            if c is not None and isinstance(g.iter, ast.Call) and getattr(g.iter.func, 'id', None) == 'range' and len(g.iter.args) == 1:
                return ('pad', c, self.aff(g.iter.args[0], env))
        if isinstance(e, ast.BinOp) and isinstance(e.op, ast.Mult):
            l, r = e.left, e.right
            if isinstance(r, ast.List):
                l, r = r, l
            if isinstance(l, ast.List) and len(l.elts) == 1 and O.const_of(l.elts[0]) is not None:
                return ('pad', O.const_of(l.elts[0]), self.aff(r, env))
            if isinstance(l, ast.List) and len(l.elts) == 1 and isinstance(l.elts[0], ast.Name) and isinstance(env.get(l.elts[0].id), tuple) and env[l.elts[0].id][:1] == ('c',):
                # [c] * m with c a local that holds a constant
                return ('pad', ('c', env[l.elts[0].id][1]), self.aff(r, env))
        return None

    def concat(self, x, y):
        """padding in front of / behind an operand sequence keeps it an (extended) operand sequence"""
        if isinstance(x, tuple) and x[0] == 'pad' and isinstance(y, Seq) and len(y.segments) == 1:
            c, m = x[1], x[2]
            inner = y

            def elem(i, inner=inner, c=c, m=m):
                t = inner.elem(i - m)
                return _with_fill(t, low=c)
            return Seq(y.length + m, elem, 'pad(%s,%r)+%s' % (c[1], m, y.desc))
        if isinstance(y, tuple) and y[0] == 'pad' and isinstance(x, Seq) and len(x.segments) == 1 and x.desc != 'comprehension' and not x.desc.startswith('running'):
            c, m = y[1], y[2]
            inner = x

            def elem(i, inner=inner, c=c):
                return _with_fill(inner.elem(i), high=c)
            return Seq(x.length + m, elem, '%s+pad(%s,%r)' % (x.desc, c[1], m))
        if isinstance(x, Seq) and isinstance(y, Seq):
            return Seq(None, None, '%s++%s' % (x.desc, y.desc), segments=list(x.segments) + list(y.segments))
        if isinstance(x, Seq) and isinstance(y, tuple) and y[0] == 'pad':
            c, m = y[1], y[2]
            return Seq(None, None, x.desc + '++pad', segments=list(x.segments) + [(m, lambda p, c=c: ('c', c[1]))])
        raise Unknown('concatenation of two non-constant sequences')

    def operand(self, k):
        return Seq(Aff.sym('n'), lambda i, k=k: ('leaf', k, i, None, None), 'x%d' % k)

    # ------------------------------------------------------------------ value terms
    def term(self, e, env):
        c = O.const_of(e)
        if c is not None:
            return ('c', c[1])
        if isinstance(e, ast.Name):
            v = env.get(e.id)
            if isinstance(v, tuple):
                return v
            raise Unknown('name %s is not a value' % e.id)
        if isinstance(e, ast.Call) and isinstance(e.func, ast.Name) and e.func.id in ('min', 'max'):
            if len(e.args) == 1:
                dflt = [k.value for k in e.keywords if k.arg == 'default']
                if e.keywords and not dflt:
                    raise Unknown('keyword of %s' % ast.unparse(e)[:40])
                return self.reduce_slice(e.func.id, e.args[0], env, e.lineno, default=(self.term(dflt[0], env) if dflt else None))
            return mk(e.func.id, [self.term(a, env) for a in e.args])
        if isinstance(e, ast.Call) and ast.unparse(e.func) in ('reduce', 'functools.reduce') and len(e.args) in (2, 3) and isinstance(e.args[0], ast.Name) and e.args[0].id in ('min', 'max') \
                and not e.keywords:
            # reduce(op, xs, init): op over init and the elements; without init the sequence must not be empty (the obligation of op(xs))
            op = e.args[0].id
            xs = e.args[1]
            if isinstance(xs, ast.Name) and isinstance(env.get(xs.id), tuple) and env[xs.id][:1] == ('gen',):
                xs = env[xs.id][1]
            if len(e.args) == 3:
                init = self.term(e.args[2], env)
                red = self.reduce_slice(op, xs, env, e.lineno, default=NEUTRAL[op])
                return mk(op, [init, red])
            return self.reduce_slice(op, xs, env, e.lineno)
        if isinstance(e, ast.Subscript) and not isinstance(e.slice, ast.Slice):
            s = self.seq(e.value, env)
            i = self.aff(e.slice, env)
            self.require(i, 'index %s >= 0' % ast.unparse(e)[:40], e.lineno, env.get('#facts', ()))
            self.require(s.length - Aff.const(1) - i, 'index %s < len' % ast.unparse(e)[:40], e.lineno, env.get('#facts', ()))
            return s.elem(i)
        raise Unknown('value expression %s' % ast.unparse(e)[:40])

    def reduce_slice(self, op, e, env, lineno, default=None):
        """min(S[lo:hi]) -> Red(op, i in [lo, hi-1], S(i)); obligations: 0 <= lo, 0 <= hi (a negative bound counts from the end of the list),
        slice not empty -- or, with default=, the default value on the cases in which the slice is empty"""
        if isinstance(e, (ast.GeneratorExp, ast.ListComp)) and len(e.generators) == 1 and not e.generators[0].ifs and isinstance(e.generators[0].target, ast.Name):
            # min(S[i] for i in range(a, b))  ->  Red(op, i in [a, b-1], S(i))
            g = e.generators[0]
            rng = self.range_of(g.iter, env)
            if rng is not None:
                lo, hi, _ = rng
                fx = env.get('#facts', ())
                if default is None:
                    self.require(hi - lo, '`%s(%s)` is never applied to an empty sequence' % (op, ast.unparse(e)[:50]), lineno, fx)
                elif default == NEUTRAL[op]:
                    pass        # the default is the neutral element: exactly what the reduction over an empty range denotes
                else:
                    allf = self.facts + list(fx)
                    if not entails(allf, hi - lo):
                        if entails(allf, lo - hi - Aff.const(1)):
                            return default
                        raise NeedSplit(hi - lo)
                v = self.newvar('i')
                env2 = dict(env)
                env2[g.target.id] = Aff.sym(v)
                env2['#facts'] = list(fx) + [Aff.sym(v) - lo, hi - Aff.sym(v)]
                return ('red', op, v, lo, hi, self.term(e.elt, env2))
        if not (isinstance(e, ast.Subscript) and isinstance(e.slice, ast.Slice) and e.slice.step is None):
            raise Unknown('%s() of %s' % (op, ast.unparse(e)[:40]))
        s = self.seq(e.value, env)
        lo = self.aff(e.slice.lower, env) if e.slice.lower is not None else Aff.const(0)
        hi = self.aff(e.slice.upper, env) if e.slice.upper is not None else s.length
        fx = env.get('#facts', ())
        self.require(lo, 'slice start of `%s` is not negative' % ast.unparse(e)[:50], lineno, fx)
        if e.slice.upper is not None:
            self.require(hi, 'slice stop of `%s` is not negative (a negative stop counts from the end of the list: the window becomes almost the whole list)' % ast.unparse(e)[:50], lineno, fx)
        if default is None:
            self.require(hi - lo - Aff.const(1), '`%s(%s)` is never applied to an empty slice (upper > lower)' % (op, ast.unparse(e)[:50]), lineno, fx)
            self.require(s.length - Aff.const(1) - lo, '`%s(%s)` is never applied to an empty slice (start inside the list)' % (op, ast.unparse(e)[:50]), lineno, fx)
        else:
            allf = self.facts + list(fx)
            for cond in (hi - lo - Aff.const(1), s.length - Aff.const(1) - lo):
                if entails(allf, cond):
                    continue
                if entails(allf, -cond - Aff.const(1)):
                    return default
                raise NeedSplit(cond)
        v = self.newvar('i')
        body = s.elem(Aff.sym(v))
        # beyond the end the slice is clipped: equivalent to a neutral high fill
        body = _default_fill(body, high=NEUTRAL[op], only_if_missing=True)
        return ('red', op, v, lo, hi - Aff.const(1), body)

    # ------------------------------------------------------------------ loops with accumulators
    def run_loop(self, st, env):
        """for v in range(...): straight-line body of assignments / nested loops.  Updates env with the values after the loop."""
        # for x in islice(S, a, b): ...   ==   for w in range(a, b): x = S[w]; ...
        it0 = st.iter
        if isinstance(it0, ast.Call) and ((isinstance(it0.func, ast.Name) and it0.func.id == 'islice') or (isinstance(it0.func, ast.Attribute) and it0.func.attr == 'islice')) \
                and len(it0.args) == 3 and isinstance(st.target, ast.Name):
            wname = '__islice_%s' % self.newvar('i')
            first = ast.Assign(targets=[ast.Name(id=st.target.id, ctx=ast.Store())],
                               value=ast.Subscript(value=it0.args[0], slice=ast.Name(id=wname, ctx=ast.Load()), ctx=ast.Load()))
            st = ast.For(target=ast.Name(id=wname, ctx=ast.Store()), iter=ast.Call(func=ast.Name(id='range', ctx=ast.Load()), args=[it0.args[1], it0.args[2]], keywords=[]),
                         body=[first] + list(st.body), orelse=[])
            ast.fix_missing_locations(st)
        rng = self.range_of(st.iter, env)
        if rng is None or not isinstance(st.target, ast.Name):
            raise Unknown('loop %s' % ast.unparse(st.iter)[:40])
        lo, hi, direction = rng
        var = self.newvar('j')
        assigned = []
        # `if <test on the loop variable>: acc = op(acc, E)` restricts the iterations in which acc accumulates
        guards = {}
        flat_body = []
        for s in st.body:
            if isinstance(s, ast.If) and not s.orelse and all(isinstance(q, ast.Assign) and len(q.targets) == 1 and isinstance(q.targets[0], ast.Name) for q in s.body):
                for q in s.body:
                    guards[id(q)] = s.test
                    flat_body.append(q)
            else:
                flat_body.append(s)
        body_stmts = flat_body
        for s in body_stmts:
            if isinstance(s, ast.Assign) and len(s.targets) == 1 and isinstance(s.targets[0], ast.Name):
                assigned.append(s.targets[0].id)
            elif isinstance(s, ast.For):
                for q in ast.walk(s):
                    if isinstance(q, ast.Assign) and len(q.targets) == 1 and isinstance(q.targets[0], ast.Name):
                        assigned.append(q.targets[0].id)
            else:
                raise Unknown('loop statement %s' % ast.unparse(s)[:40])
        # carried accumulators: acc = op(acc, E) (possibly via a nested loop), not re-initialised earlier in the body
        carried = {}
        first_write = {}
        for idx, s in enumerate(body_stmts):
            names = [s.targets[0].id] if isinstance(s, ast.Assign) else sorted({q.targets[0].id for q in ast.walk(s) if isinstance(q, ast.Assign) and isinstance(q.targets[0], ast.Name)})
            for nm in names:
                first_write.setdefault(nm, (idx, s))
        for nm, (idx, s) in first_write.items():
            if isinstance(s, ast.Assign):
                v = s.value
                if isinstance(v, ast.Call) and isinstance(v.func, ast.Name) and v.func.id in ('min', 'max') and len(v.args) == 2 \
                        and any(isinstance(a, ast.Name) and a.id == nm for a in v.args) and nm in env:
                    other = [a for a in v.args if not (isinstance(a, ast.Name) and a.id == nm)]
                    if len(other) == 1:
                        # also make sure it is written only once in the body
                        writes = [q for q in body_stmts if isinstance(q, ast.Assign) and q.targets[0].id == nm]
                        if len(writes) == 1:
                            carried[nm] = (v.func.id, other[0], idx, guards.get(id(s)))
        for s in body_stmts:
            if id(s) in guards and not (isinstance(s, ast.Assign) and s.targets[0].id in carried):
                raise Unknown('conditional statement in loop body that is not an accumulation: %s' % ast.unparse(s)[:40])
        fx = list(env.get('#facts', ())) + [Aff.sym(var) - lo, hi - Aff.sym(var)]
        # order carried accumulators so that one whose E mentions another comes later
        order = sorted(carried, key=lambda nm: sum(1 for o in carried if o != nm and any(isinstance(x, ast.Name) and x.id == o for x in ast.walk(carried[nm][1]))))
        pre, post = {}, {}
        loop_lo, loop_hi = lo, hi
        for nm in order:
            op, E, idx, guard = carried[nm]
            lo, hi = loop_lo, loop_hi
            if guard is not None:
                lo, hi = self.restrict(guard, st.target.id, lo, hi, env)
            init = env[nm]
            if not isinstance(init, tuple):
                raise Unknown('accumulator %s has no value before the loop' % nm)
            # E at a generic earlier/current iteration w
            w = self.newvar('w')
            envw = dict(env)
            envw[st.target.id] = Aff.sym(w)
            envw['#facts'] = list(env.get('#facts', ())) + [Aff.sym(w) - lo, hi - Aff.sym(w)]
            # values of other names at iteration w, in statement order up to idx
            self.exec_prefix(body_stmts[:idx], envw, pre, post, carried, w, lo, hi, direction, st.target.id)
            Ew = self.term(E, envw)
            # iterations strictly before j, and up to j
            j = Aff.sym(var)
            if direction > 0:
                before = ('red', op, w, lo, j - Aff.const(1), Ew)
                upto = ('red', op, w, lo, j, Ew)
            else:
                before = ('red', op, w, j + Aff.const(1), hi, Ew)
                upto = ('red', op, w, j, hi, Ew)
            pre[nm] = (var, mk(op, [init, before]))
            post[nm] = (var, mk(op, [init, upto]))
            total = mk(op, [init, ('red', op, w, lo, hi, Ew)])
            env['%s#final' % nm] = total
        # non-carried names assigned in the body are only meaningful inside; after the loop expose the carried totals
        for nm in carried:
            env[nm] = env.pop('%s#final' % nm)
        for nm in assigned:
            if nm not in carried and nm in env:
                # last-iteration value of a temporary: not supported as an output
                env[nm] = ('unknown-temp', nm)
        return env

    def restrict(self, test, loopvar, lo, hi, env):
        """iterations of [lo, hi] in which the affine test on the loop variable holds -> (lo', hi'); may ask for a case split"""
        if not (isinstance(test, ast.Compare) and len(test.ops) == 1):
            raise Unknown('guard %s' % ast.unparse(test)[:40])
        v = self.newvar('g')
        e2 = dict(env)
        e2[loopvar] = Aff.sym(v)
        l, r = self.aff(test.left, e2), self.aff(test.comparators[0], e2)
        one = Aff.const(1)
        op = type(test.ops[0])
        # normalise to  g >= 0
        g = {ast.Lt: r - l - one, ast.LtE: r - l, ast.Gt: l - r - one, ast.GtE: l - r}.get(op)
        if g is None:
            raise Unknown('guard operator %s' % ast.unparse(test)[:40])
        co = g.coeff(v)
        rest = g - Aff.sym(v).scale(co)
        fx = self.facts + list(env.get('#facts', ()))
        if co == -1:
            # v <= rest
            if entails(fx, rest - hi):
                return lo, hi
            if entails(fx, hi - rest):
                return lo, rest
            raise NeedSplit(rest - hi)
        if co == 1:
            # v >= -rest
            bound = -rest
            if entails(fx, lo - bound):
                return lo, hi
            if entails(fx, bound - lo):
                return bound, hi
            raise NeedSplit(lo - bound)
        raise Unknown('guard %s does not bound the loop variable' % ast.unparse(test)[:40])

    def exec_prefix(self, stmts, envw, pre, post, carried, w, lo, hi, direction, loopvar):
        """bind, in envw, the names as seen by a statement at iteration w (after `stmts` ran in that iteration)"""
        # carried accumulators already summarised: their value before this iteration (or after, if their update precedes)
        for nm, (var, tm) in pre.items():
            envw[nm] = t_subst(tm, var, Aff.sym(w))
        for s in stmts:
            if isinstance(s, ast.Assign) and len(s.targets) == 1 and isinstance(s.targets[0], ast.Name):
                nm = s.targets[0].id
                if nm in carried:
                    if nm in post:
                        var, tm = post[nm]
                        envw[nm] = t_subst(tm, var, Aff.sym(w))
                    continue
                try:
                    envw[nm] = self.term(s.value, envw)
                except Unknown:
                    try:
                        envw[nm] = self.aff(s.value, envw)
                    except Unknown:
                        envw[nm] = ('opaque', nm)
            elif isinstance(s, ast.For):
                self.run_loop(s, envw)

    def range_of(self, it, env):
        """range(A) / range(A, B) / range(A, B, -1) -> (lo, hi inclusive, direction)"""
        if not (isinstance(it, ast.Call) and isinstance(it.func, ast.Name) and it.func.id == 'range'):
            return None
        a = it.args
        if len(a) == 1:
            return Aff.const(0), self.aff(a[0], env) - Aff.const(1), +1
        if len(a) == 2:
            return self.aff(a[0], env), self.aff(a[1], env) - Aff.const(1), +1
        if len(a) == 3 and isinstance(a[2], (ast.UnaryOp, ast.Constant)) and ast.unparse(a[2]).replace(' ', '') == '-1':
            return self.aff(a[1], env) + Aff.const(1), self.aff(a[0], env), -1
        return None


def _with_fill(term, low=None, high=None):
    """set the fill constants of the leaves of a term that do not have one yet"""
    h = term[0]
    if h == 'leaf':
        return ('leaf', term[1], term[2], term[3] if term[3] is not None else (('c', low[1]) if low else None),
                term[4] if term[4] is not None else (('c', high[1]) if high else None))
    if h in ('min', 'max'):
        return (h, tuple(_with_fill(a, low, high) for a in term[1]))
    if h == 'red':
        return ('red', term[1], term[2], term[3], term[4], _with_fill(term[5], low, high))
    return term


def _default_fill(term, high=None, only_if_missing=True):
    return _with_fill(term, None, high)


# ===================================================================================== handler front ends
def simplify_under(term, facts):
    """constant-fold a canonical term under linear facts: a leaf provably outside the trace is its fill; a reduction of the
    neutral element is the neutral element; fills that can never be reached are dropped"""
    t, n = Aff.sym('t'), Aff.sym('n')

    def go(tm, fx):
        h = tm[0]
        if h == 'leaf':
            idx = tm[2] + t
            low, high = tm[3], tm[4]
            if high is not None and entails(fx, idx - n):
                return high
            if low is not None and entails(fx, -idx - Aff.const(1)):
                return low
            if low is not None and entails(fx, idx):
                low = None
            if high is not None and entails(fx, n - Aff.const(1) - idx):
                high = None
            return ('leaf', tm[1], tm[2], low, high)
        if h == 'c':
            return tm
        if h in ('min', 'max'):
            args = [go(a, fx) for a in tm[1]]
            return mk(h, _merge_adjacent(h, args, fx))
        if h == 'red':
            _, op, var, lo, hi, body = tm
            v = Aff.sym(var)
            if entails(fx, lo - hi - Aff.const(1)):
                return NEUTRAL[op]      # empty range
            # a reduction over a leaf driven directly by the variable, whose out-of-trace fill is the neutral element of the reduction:
            # the part of the range that lies outside the trace contributes nothing, so the range is clipped to the trace
            if body[0] == 'leaf' and body[2].coeff(var) == 1:
                rest = body[2] - v                       # index = t + var + rest
                low, high = body[3], body[4]
                first_in = -t - rest                      # smallest var with index >= 0
                last_in = n - Aff.const(1) - t - rest     # largest var with index <= n-1
                if low == NEUTRAL[op] and entails(fx, first_in - lo):
                    lo = first_in
                    if entails(fx, lo - hi - Aff.const(1)):
                        return NEUTRAL[op]
                if high == NEUTRAL[op] and entails(fx, hi - last_in):
                    hi = last_in
                    if entails(fx, lo - hi - Aff.const(1)):
                        return NEUTRAL[op]
            b2 = go(body, fx + [v - lo, hi - v])
            if b2 == NEUTRAL[op]:
                return b2
            if b2[0] == 'c' and entails(fx, hi - lo):
                return b2               # non-empty reduction of a constant
            return ('red', op, var, lo, hi, b2)
        return tm
    return go(term, list(facts))


def equal_under(x, y, facts):
    """two canonical terms are equal under the facts: same structure, affine positions equal as a consequence of the facts (begin == 0 makes
    [a .. n-t-1] and [0 .. n-t-1] the same window)"""
    if isinstance(x, Aff) and isinstance(y, Aff):
        return x == y or (entails(list(facts), x - y) and entails(list(facts), y - x))
    if isinstance(x, tuple) and isinstance(y, tuple):
        if len(x) != len(y):
            return False
        return all(equal_under(a, b, facts) for a, b in zip(x, y))
    if isinstance(x, (list, frozenset)) and isinstance(y, (list, frozenset)) and not isinstance(x, tuple):
        if len(x) != len(y):
            return False
        xs, ys = list(x), list(y)
        # order-free containers: match greedily
        for a in xs:
            hit = None
            for b in ys:
                if equal_under(a, b, facts):
                    hit = b
                    break
            if hit is None:
                return False
            ys.remove(hit)
        return True
    return x == y


def _merge_adjacent(op, args, fx):
    """op(Red(op,[a,b],E), Red(op,[b+1,c],E)) = Red(op,[a,c],E)"""
    args = list(args)
    changed = True
    while changed:
        changed = False
        for i in range(len(args)):
            for j in range(len(args)):
                if i == j:
                    continue
                x, y = args[i], args[j]
                if x[0] == 'red' and y[0] == 'red' and x[1] == op and y[1] == op:
                    by = t_subst(y[5], y[2], Aff.sym(x[2]))
                    if by == x[5] and entails(fx, y[3] - x[4] - Aff.const(1)) and entails(fx, x[4] + Aff.const(1) - y[3]):
                        merged = ('red', op, x[2], x[3], y[4], x[5])
                        args = [a for k, a in enumerate(args) if k not in (i, j)] + [merged]
                        changed = True
                        break
            if changed:
                break
    return args


def with_splits(run, facts=(), depth=0):
    """run(facts) -> result; a NeedSplit(c) repeats the analysis under c >= 0 and under c <= -1.  -> [(facts, result)]"""
    a, b, n, t = Aff.sym('a'), Aff.sym('b'), Aff.sym('n'), Aff.sym('t')
    base = [a, b - a, n - Aff.const(1), t, n - Aff.const(1) - t]
    if _infeasible(base + list(facts)):
        return []
    try:
        return [(list(facts), run(list(facts)))]
    except NeedSplit as e:
        if depth >= 9:
            raise Unknown('more than 9 nested case splits (%s)' % e)
        c = e.cond
        # a case split is a statement about the whole evaluation: it may mention the bounds, the trace length and the evaluated position only.
        # A condition on the index of an enclosing reduction or loop differs from iteration to iteration -- not a case of the operator
        import re as _re
        bound_syms = [s_ for s_ in getattr(c, 'c', {}) if s_ not in ('a', 'b', 'n', 't') and not _re.match(r'^p\d+$', s_)]     # p<k>: the position in a comprehension
        if bound_syms:
            raise Unknown('a case distinction on the loop index `%s` (condition %r) is not a case of the whole operator' % (bound_syms[0], c))
        return with_splits(run, list(facts) + [c], depth + 1) + with_splits(run, list(facts) + [-c - Aff.const(1)], depth + 1)


def desugar(func_node):
    """source-level rewrites that leave the meaning unchanged and bring a handler into the interpreted idioms:
         W = S[lo:hi] ... min(W)                 ->  min(S[lo:hi])           (a slice bound to a name that is only reduced / tested)
         min(X) if X else D   /   D if not X else min(X)   ->  min(X, default=D)"""
    import copy
    fn = copy.deepcopy(func_node)

    def is_slice(e):
        return isinstance(e, ast.Subscript) and isinstance(e.slice, ast.Slice)

    def inline_block(stmts):
        out = []
        temps = {}
        for st in stmts:
            # substitute known temps
            class Sub(ast.NodeTransformer):
                def visit_Name(self, n):
                    if isinstance(n.ctx, ast.Load) and n.id in temps:
                        return copy.deepcopy(temps[n.id])
                    return n
            if isinstance(st, ast.Assign) and len(st.targets) == 1 and isinstance(st.targets[0], ast.Name) and is_slice(st.value):
                temps[st.targets[0].id] = Sub().visit(copy.deepcopy(st.value))
                continue
            if isinstance(st, ast.Assign) and len(st.targets) == 1 and isinstance(st.targets[0], ast.Name) and st.targets[0].id in temps:
                del temps[st.targets[0].id]
            st = Sub().visit(st)
            for f_ in ('body', 'orelse'):
                b = getattr(st, f_, None)
                if isinstance(b, list) and b and isinstance(b[0], ast.stmt):
                    setattr(st, f_, inline_block(b))
            out.append(st)
        return out
    fn.body = inline_block(fn.body)

    class Dflt(ast.NodeTransformer):
        def visit_IfExp(self, n):
            self.generic_visit(n)
            test, a, b = n.test, n.body, n.orelse
            neg = False
            if isinstance(test, ast.UnaryOp) and isinstance(test.op, ast.Not):
                test, a, b, neg = test.operand, b, a, True
            if isinstance(a, ast.Call) and isinstance(a.func, ast.Name) and a.func.id in ('min', 'max') and len(a.args) == 1 and not a.keywords \
                    and ast.dump(a.args[0]) == ast.dump(test):
                return ast.copy_location(ast.Call(func=a.func, args=a.args, keywords=[ast.keyword(arg='default', value=b)]), n)
            return n
    fn = Dflt().visit(fn)
    ast.fix_missing_locations(fn)
    return fn


def summarize_offline(func_node, kind, facts=(), helpers=None):
    """discrete-time offline visitTimedX -> ([(case facts, canonical term)], Interp).  An `if` on lengths/bounds splits the analysis."""
    func_node = desugar(func_node)
    body = [s for s in func_node.body if not (isinstance(s, ast.Expr) and isinstance(s.value, ast.Constant))]
    it = Interp(facts)
    it.helpers = helpers or {}
    cases = []
    paths = [([], [])]
    for st in body:
        if isinstance(st, ast.If):
            new = []
            for stmts, conds in paths:
                # a path that has already returned takes no further statement
                if stmts and isinstance(stmts[-1], ast.Return):
                    new.append((stmts, conds))
                    continue
                for alt in _dnf(st.test, True):
                    new.append((stmts + list(st.body), conds + alt))
                for alt in _dnf(st.test, False):
                    new.append((stmts + list(st.orelse), conds + alt))
            paths = new
        else:
            paths = [(stmts if (stmts and isinstance(stmts[-1], ast.Return)) else stmts + [st], conds) for stmts, conds in paths]
    for stmts, conds in paths:
        cases += _run_path(it, func_node, stmts, conds)
    return cases, it


def _dnf(test, truth):
    """a condition under a truth value -> alternatives, each a list of (atomic comparison, truth): `A and B` true is one alternative, false is
    `not A` or `A and not B`; `x == y` false is `x < y` or `x > y`"""
    if isinstance(test, ast.UnaryOp) and isinstance(test.op, ast.Not):
        return _dnf(test.operand, not truth)
    if isinstance(test, ast.BoolOp):
        conj = isinstance(test.op, ast.And) == truth
        if conj:
            # all operands with this truth value
            outs = [[]]
            for v in test.values:
                outs = [o + a for o in outs for a in _dnf(v, truth)]
            return outs
        outs = []
        prefix = [[]]
        for v in test.values:
            for a in _dnf(v, truth):
                outs += [p + a for p in prefix]
            prefix = [p + a for p in prefix for a in _dnf(v, not truth)]
        return outs
    if isinstance(test, ast.Compare) and len(test.ops) == 1 and isinstance(test.ops[0], (ast.Eq, ast.NotEq)):
        eq = isinstance(test.ops[0], ast.Eq) == truth
        l, r = test.left, test.comparators[0]
        if eq:
            return [[(ast.Compare(left=l, ops=[ast.LtE()], comparators=[r]), True), (ast.Compare(left=l, ops=[ast.GtE()], comparators=[r]), True)]]
        return [[(ast.Compare(left=l, ops=[ast.Lt()], comparators=[r]), True)], [(ast.Compare(left=l, ops=[ast.Gt()], comparators=[r]), True)]]
    return [[(test, truth)]]


def _cond_facts(it, test, truth, env):
    """affine comparison -> facts (integers)"""
    if not (isinstance(test, ast.Compare) and len(test.ops) == 1):
        raise Unknown('condition %s' % ast.unparse(test)[:40])
    l, r = it.aff(test.left, env), it.aff(test.comparators[0], env)
    op = type(test.ops[0])
    one = Aff.const(1)
    table = {ast.LtE: (r - l, l - r - one), ast.Lt: (r - l - one, l - r), ast.GtE: (l - r, r - l - one), ast.Gt: (l - r - one, r - l)}
    if op not in table:
        raise Unknown('condition operator in %s' % ast.unparse(test)[:40])
    return [table[op][0] if truth else table[op][1]]


def _run_path(it, func_node, body, conds):
    env = {}
    pending = list(conds)
    out_cases = []
    result_name = None
    out = None
    backwards = False
    for st in body:
        # activate conditions as soon as their operands are known
        still = []
        for (test, truth) in pending:
            try:
                it.facts += _cond_facts(it, test, truth, env)
            except Unknown:
                still.append((test, truth))
        pending = still
        if isinstance(st, ast.Assign) and len(st.targets) == 1:
            tg = st.targets[0]
            v = st.value
            if isinstance(tg, ast.Name):
                k = O.visit_child_index(v)
                if k is not None:
                    env[tg.id] = it.operand(k)
                    continue
                if isinstance(v, ast.List) and not v.elts:
                    env[tg.id] = ('build',)
                    continue
                if O.const_of(v) is not None:
                    env[tg.id] = ('c', O.const_of(v)[1])        # a scalar start value of a running reduction
                    continue
                if isinstance(v, ast.Call) and (ast.unparse(v.func).endswith('deque')):
                    M = None
                    for kw in v.keywords:
                        if kw.arg == 'maxlen':
                            M = it.aff(kw.value, env)
                    if M is None and len(v.args) == 2:
                        M = it.aff(v.args[1], env)
                    if M is None and not v.args and not v.keywords:
                        env[tg.id] = ('mq',)            # an unbounded queue: only the candidates idiom (_monoqueue) reads it
                        continue
                    if M is None:
                        raise Unknown('deque without maxlen')
                    fill = None
                    if v.args:
                        # deque([c] * M, maxlen=M): born prefilled
                        pd = it.const_list(v.args[0], env)
                        if pd is None or not (pd[2] == M):
                            raise Unknown('ring buffer %s starts from `%s`' % (tg.id, ast.unparse(v.args[0])[:40]))
                        fill = ('c', pd[1][1])
                    env[tg.id] = ('deque', M, fill)
                    continue
                if isinstance(v, ast.Call) and ast.unparse(v.func) in ('itertools.chain', 'chain') and v.args and all(it.range_of(a_, env) is not None for a_ in v.args):
                    # chain(range(..), range(..)): the positions of the first range followed by those of the second
                    env[tg.id] = ('chain', list(v.args))
                    continue
                if isinstance(v, ast.ListComp) and len(v.generators) == 1 and isinstance(v.generators[0].iter, ast.Name) and isinstance(env.get(v.generators[0].iter.id), tuple) \
                        and env[v.generators[0].iter.id][:1] == ('chain',) and not v.generators[0].ifs:
                    # one comprehension per chained range, concatenated
                    import copy as _copy
                    parts = []
                    for rng_ in env[v.generators[0].iter.id][1]:
                        cp = _copy.deepcopy(v)
                        cp.generators[0].iter = _copy.deepcopy(rng_)
                        ast.copy_location(cp, v)
                        ast.fix_missing_locations(cp)
                        parts.append(_comprehension(it, cp, env))
                    acc = parts[0]
                    for nxt in parts[1:]:
                        acc = it.concat(acc, nxt)
                    env[tg.id] = acc
                    continue
                if isinstance(v, ast.ListComp) and it.const_list(v, env) is None:
                    env[tg.id] = _comprehension(it, v, env)
                    continue
                try:
                    val = it.seq_or_const(v, env)
                    if isinstance(val, tuple) and val[0] == 'pad':
                        env[tg.id] = Seq(val[2], lambda p, c=val[1]: ('c', c[1]), 'pad')
                    else:
                        env[tg.id] = val
                    continue
                except Unknown:
                    pass
                try:
                    env[tg.id] = it.aff(v, env)
                    continue
                except Unknown:
                    pass
                raise Unknown('assignment %s' % ast.unparse(st)[:60])
            if isinstance(tg, ast.Tuple) and isinstance(v, ast.Call) and ast.unparse(v.func).endswith('time_unit_transformer'):
                env[tg.elts[0].id] = Aff.sym('a')
                env[tg.elts[1].id] = Aff.sym('b')
                continue
            raise Unknown('assignment %s' % ast.unparse(st)[:60])
        if isinstance(st, ast.AugAssign) and isinstance(st.op, ast.Add) and isinstance(st.target, ast.Name) and isinstance(env.get(st.target.id), Seq):
            rhs = it.seq_or_const(st.value, env)
            env[st.target.id] = it.concat(env[st.target.id], rhs)
            continue
        if isinstance(st, ast.For):
            # for j in range(..): B.append(E)   with B a fresh list and nothing else in the body   ==   B = [E for j in range(..)]
            if len(st.body) == 1 and not st.orelse and isinstance(st.target, ast.Name) and it.range_of(st.iter, env) is not None \
                    and isinstance(st.body[0], ast.Expr) and isinstance(st.body[0].value, ast.Call) and isinstance(st.body[0].value.func, ast.Attribute) \
                    and st.body[0].value.func.attr == 'append' and isinstance(st.body[0].value.func.value, ast.Name) \
                    and env.get(st.body[0].value.func.value.id) == ('build',) and len(st.body[0].value.args) == 1 \
                    and it.range_of(st.iter, env)[2] > 0 and not (it.range_of(st.iter, env)[0] == Aff.const(0)):
                comp = ast.ListComp(elt=st.body[0].value.args[0], generators=[ast.comprehension(target=st.target, iter=st.iter, ifs=[], is_async=0)])
                ast.copy_location(comp, st)
                ast.fix_missing_locations(comp)
                env[st.body[0].value.func.value.id] = _comprehension(it, comp, env)
                continue
            r = _outer_loop(it, st, env)
            if r is not None:
                result_name, out = r
                # a loop that walks the samples backwards leaves its output list in backward order
                backwards = it.range_of(st.iter, env) is not None and it.range_of(st.iter, env)[2] < 0
            continue
        if isinstance(st, ast.Expr) and isinstance(st.value, ast.Call) and isinstance(st.value.func, ast.Attribute) and st.value.func.attr == 'reverse':
            if result_name is not None and ast.unparse(st.value.func.value) == result_name:
                backwards = not backwards
            continue
        if isinstance(st, ast.Return):
            v = st.value
            if result_name is not None and ast.unparse(v) in ('%s[::-1]' % result_name, 'list(reversed(%s))' % result_name):
                backwards = not backwards
                v = ast.Name(id=result_name, ctx=ast.Load())
            if isinstance(v, ast.Name) and v.id == result_name:
                it.require(Aff.const(-1 if backwards else 0), 'the values are returned in the order of the samples (the sample loop runs %s and its output list is %s)'
                           % (('backwards', 'not reversed before it is returned') if backwards else ('forwards', 'returned as built')), st.lineno)
                # one value per iteration of the sample loop: position t ranges over the trace
                out_cases.append(([Aff.sym('t'), Aff.sym('n') - Aff.const(1) - Aff.sym('t')], canonical(out)))
                break
            seq = None
            n = Aff.sym('n')
            if isinstance(v, ast.Name) and isinstance(env.get(v.id), Seq):
                seq = env[v.id]
                it.require(seq.length - n, 'the result has one value per sample (not shorter than the trace)', st.lineno)
                it.require(n - seq.length, 'the result has one value per sample (not longer than the trace)', st.lineno)
            elif isinstance(v, ast.Subscript) and isinstance(v.slice, ast.Slice) and isinstance(v.value, ast.Name) and isinstance(env.get(v.value.id), Seq):
                seq = env[v.value.id]
                lo = it.aff(v.slice.lower, env) if v.slice.lower is not None else Aff.const(0)
                hi = it.aff(v.slice.upper, env) if v.slice.upper is not None else seq.length
                if not (lo == Aff.const(0)):
                    raise Unknown('result slice does not start at 0')
                it.require(seq.length - hi, 'the truncated result is not longer than what was computed', st.lineno)
                it.require(hi - n, 'the result has one value per sample (not shorter than the trace)', st.lineno)
                it.require(n - hi, 'the result has one value per sample (not longer than the trace)', st.lineno)
            if seq is None and isinstance(v, ast.Subscript) and isinstance(v.slice, ast.Slice) and v.slice.step is None \
                    and (v.slice.lower is None or (isinstance(v.slice.lower, ast.Constant) and v.slice.lower.value == 0)) and v.slice.upper is not None:
                # (A + B)[0:K]: the first K values of a sequence built from pieces
                whole = it.seq(v.value, env)
                hi = it.aff(v.slice.upper, env)
                it.require(whole.length - hi, 'the truncated result is not longer than what was computed', st.lineno)
                it.require(hi - n, 'the result has one value per sample (not shorter than the trace)', st.lineno)
                it.require(n - hi, 'the result has one value per sample (not longer than the trace)', st.lineno)
                seq = whole
                sliced_whole = True
            if seq is None and isinstance(v, ast.ListComp) and it.const_list(v, env) is None:
                # return [E for j in range(..)]: the comprehension itself is the result
                seq = _comprehension(it, v, env)
            if seq is None:
                try:
                    seq = it.seq(v, env)
                except Unknown:
                    raise Unknown('return %s' % ast.unparse(v)[:40])
                if not locals().get('sliced_whole'):
                    it.require(seq.length - n, 'the result has one value per sample (not shorter than the trace)', st.lineno)
                    it.require(n - seq.length, 'the result has one value per sample (not longer than the trace)', st.lineno)
            t = Aff.sym('t')
            for (start, length, f) in seq.pieces():
                case = [t - start, start + length - Aff.const(1) - t, t, n - Aff.const(1) - t]
                if _infeasible(it.facts + case):
                    continue
                saved = it.facts
                it.facts = it.facts + case
                try:
                    term = f(t - start)
                finally:
                    it.facts = saved
                out_cases.append((case, canonical(term)))
            break
        raise Unknown('statement %s' % ast.unparse(st)[:60])
    if not out_cases:
        if _infeasible(it.facts):
            # a path whose conditions contradict each other (`not (x == 0)` split into x < 0 under x >= 0): nothing to decide
            it.facts = list(it.split_facts)
            it.base_facts()
            return []
        raise Unknown('no output term')
    facts_here = list(it.facts)
    res = [(facts_here + c, tm) for c, tm in out_cases]
    # the path conditions must not leak into the next path
    it.facts = list(it.split_facts)
    it.base_facts()
    return res


def _comprehension(it, v, env):
    g = v.generators[0]
    if len(v.generators) != 1 or g.ifs or not isinstance(g.target, ast.Name):
        raise Unknown('comprehension form')
    rng = it.range_of(g.iter, env)
    if rng is None or rng[2] < 0:
        raise Unknown('comprehension range')
    lo, hi, _ = rng
    length = hi - lo + Aff.const(1)
    elt = v.elt
    name = g.target.id

    def elem(p, lo=lo, elt=elt, name=name):
        e2 = dict(env)
        e2[name] = lo + p
        e2['#facts'] = list(env.get('#facts', ())) + [p, length - Aff.const(1) - p]
        return it.term(elt, e2)
    # evaluate once at a generic position of the comprehension to collect its obligations (skipped when it is provably empty)
    q = Aff.sym(it.newvar('p'))
    if not _infeasible(it.facts + [q, length - Aff.const(1) - q]):
        e2 = dict(env)
        e2[name] = lo + q
        e2['#facts'] = list(env.get('#facts', ())) + [q, length - Aff.const(1) - q]
        it.term(elt, e2)
    quiet = Interp.__new__(Interp)

    def elem_quiet(p, lo=lo, elt=elt, name=name):
        # obligations were collected above; instantiating the element again must not duplicate them
        saved_ob, saved_failed = list(it.obligations), list(it.failed)
        try:
            return elem(p)
        finally:
            it.obligations[:] = saved_ob
            it.failed[:] = saved_failed
    return Seq(length, elem_quiet, 'comprehension')


def _outer_loop(it, st, env):
    """for i in range(len(X)) / descending: ring buffers receive x[i]; an output value is appended per iteration"""
    if isinstance(st.iter, ast.Call) and isinstance(st.iter.func, ast.Name) and st.iter.func.id == 'zip' and isinstance(st.target, ast.Tuple) \
            and len(st.iter.args) == len(st.target.elts) and all(isinstance(a, ast.Name) and isinstance(env.get(a.id), Seq) for a in st.iter.args) \
            and all(isinstance(t_, ast.Name) for t_ in st.target.elts):
        # for l, r in zip(A, B): the index loop over the (equally long) operands with the elements named
        idx = '__zip_%s' % it.newvar('i')
        binds = [ast.Assign(targets=[ast.Name(id=t_.id, ctx=ast.Store())], value=ast.Subscript(value=ast.Name(id=a.id, ctx=ast.Load()), slice=ast.Name(id=idx, ctx=ast.Load()), ctx=ast.Load()))
                 for t_, a in zip(st.target.elts, st.iter.args)]

        class _R(ast.NodeTransformer):
            # buffer.append(l) -> buffer.append(A[idx]): the form the ring-buffer rule reads
            def visit_Name(self, n_):
                for t_, a in zip(st.target.elts, st.iter.args):
                    if isinstance(n_.ctx, ast.Load) and n_.id == t_.id:
                        return ast.copy_location(ast.Subscript(value=ast.Name(id=a.id, ctx=ast.Load()), slice=ast.Name(id=idx, ctx=ast.Load()), ctx=ast.Load()), n_)
                return n_
        import copy as _copy
        body = [_R().visit(_copy.deepcopy(b)) for b in st.body]
        rng_call = ast.Call(func=ast.Name(id='range', ctx=ast.Load()), args=[ast.Call(func=ast.Name(id='len', ctx=ast.Load()), args=[ast.Name(id=st.iter.args[0].id, ctx=ast.Load())], keywords=[])], keywords=[])
        st = ast.copy_location(ast.For(target=ast.Name(id=idx, ctx=ast.Store()), iter=rng_call, body=body, orelse=[]), st)
        ast.fix_missing_locations(st)
    rng = it.range_of(st.iter, env)
    elem_of = None
    if rng is None and isinstance(st.iter, ast.Name) and isinstance(env.get(st.iter.id), Seq) and isinstance(st.target, ast.Name):
        # for x in S:   ==   for t in range(len(S)): x = S[t]
        elem_of = env[st.iter.id]
        rng = (Aff.const(0), elem_of.length - Aff.const(1), +1)
    if rng is None:
        # prefill loop: for i in range(M): buffer.append(const)
        raise Unknown('outer loop %s' % ast.unparse(st.iter)[:40])
    lo, hi, direction = rng
    # prefill loop?
    appends = [s for s in st.body if isinstance(s, ast.Expr) and isinstance(s.value, ast.Call) and isinstance(s.value.func, ast.Attribute) and s.value.func.attr == 'append']
    consts = {}
    for s in st.body:
        if isinstance(s, ast.Assign) and isinstance(s.targets[0], ast.Name) and O.const_of(s.value) is not None:
            consts[s.targets[0].id] = O.const_of(s.value)
    if appends and all(isinstance(env.get(ast.unparse(a.value.func.value)), tuple) and env[ast.unparse(a.value.func.value)][0] == 'deque' for a in appends) \
            and all((O.const_of(a.value.args[0]) is not None) or (isinstance(a.value.args[0], ast.Name) and a.value.args[0].id in consts) for a in appends):
        count = hi - lo + Aff.const(1)
        for a in appends:
            nm = ast.unparse(a.value.func.value)
            c = O.const_of(a.value.args[0]) or consts[a.value.args[0].id]
            _, M, _ = env[nm]
            if not (count == M):
                raise Unknown('ring buffer %s of length %r is prefilled with %r values' % (nm, M, count))
            env[nm] = ('deque', M, ('c', c[1]))
        return None
    # main loop over the samples
    n = Aff.sym('n')
    if not (lo == Aff.const(0) and hi == n - Aff.const(1)):
        raise Unknown('sample loop does not run over all samples: [%r .. %r]' % (lo, hi))
    t = Aff.sym('t')
    e2 = dict(env)
    e2[st.target.id] = t if elem_of is None else elem_of.elem(t)
    e2['#facts'] = [t, n - Aff.const(1) - t]
    out = None
    result = None
    if any(isinstance(w_, ast.While) for w_ in ast.walk(st)) and any(v_ == ('mq',) or v_ == ('build',) for v_ in env.values() if isinstance(v_, tuple)):
        if direction < 0 or elem_of is not None:
            raise Unknown('queue of candidates in a backward / element loop')
        return _monoqueue(it, st, env, e2, t)
    for s in st.body:
        # running reduction carried by the loop:  acc = max(x_t, acc)  with acc a constant before the loop (ascending loops only)
        if isinstance(s, ast.Assign) and len(s.targets) == 1 and isinstance(s.targets[0], ast.Name) and isinstance(s.value, ast.Call) \
                and isinstance(s.value.func, ast.Name) and s.value.func.id in ('min', 'max') and len(s.value.args) == 2 \
                and any(isinstance(a, ast.Name) and a.id == s.targets[0].id for a in s.value.args):
            acc = s.targets[0].id
            init = env.get(acc)
            other = [a for a in s.value.args if not (isinstance(a, ast.Name) and a.id == acc)]
            if isinstance(init, tuple) and init and init[0] == 'c' and len(other) == 1 and direction > 0:
                op = s.value.func.id
                body_t = it.term(other[0], e2)
                v = it.newvar('i')
                red = ('red', op, v, Aff.const(0), t, t_subst(body_t, 't', Aff.sym(v)))
                e2[acc] = red if init == NEUTRAL[op] else mk(op, [init, red])
                continue
            raise Unknown('loop-carried value %s' % ast.unparse(s)[:50])
        if isinstance(s, ast.Expr) and isinstance(s.value, ast.Call) and isinstance(s.value.func, ast.Attribute) and s.value.func.attr == 'append':
            tgt = ast.unparse(s.value.func.value)
            dv = e2.get(tgt)
            arg = s.value.args[0]
            if isinstance(dv, tuple) and dv[0] == 'deque':
                # buffer.append(X[i])
                if not (isinstance(arg, ast.Subscript) and isinstance(arg.value, ast.Name) and isinstance(e2.get(arg.value.id), Seq) and ast.unparse(arg.slice) == st.target.id):
                    raise Unknown('ring buffer receives %s' % ast.unparse(arg)[:30])
                src = e2[arg.value.id]
                _, M, fill = dv
                if fill is None:
                    raise Unknown('ring buffer %s is not prefilled' % tgt)
                if direction > 0:
                    def elem(kk, src=src, M=M, fill=fill):
                        return _with_fill(src.elem(t - (M - Aff.const(1)) + kk), low=fill)
                else:
                    def elem(kk, src=src, M=M, fill=fill):
                        return _with_fill(src.elem(t + (M - Aff.const(1)) - kk), high=fill)
                e2[tgt] = Seq(M, elem, 'ring(%s)' % tgt)
                continue
            if isinstance(dv, tuple) and dv[0] == 'build':
                out = it.term(arg, e2)
                result = tgt
                continue
            raise Unknown('append to %s' % tgt)
        if isinstance(s, ast.Assign) and len(s.targets) == 1 and isinstance(s.targets[0], ast.Name):
            try:
                e2[s.targets[0].id] = it.term(s.value, e2)
            except Unknown:
                e2[s.targets[0].id] = it.aff(s.value, e2)
            continue
        if isinstance(s, ast.For):
            it.run_loop(s, e2)
            continue
        raise Unknown('sample-loop statement %s' % ast.unparse(s)[:50])
    if out is None:
        raise Unknown('sample loop emits nothing')
    return result, out


# ===================================================================================== the queue of candidates (sliding extremum in one pass)
def _monoqueue(it, st, env, e2, t):
    """for j in range(len(X)):                                       # forward over all samples, t = the iteration
           [if G1:]  while Q and <back of Q> CMP X[k]: Q.pop()       # candidates that X[k] dominates can never be the extremum again
                     Q.append(X[k] | k | (k, X[k]))                  # k = j - c: consecutive positions, the first one is 0
           [if G2 / while ..:]  Q.popleft()  when the head left      # by position (`Q[0] <= E`) or by value (`Q[0] == X[L]`, needs a strict pop test)
           out.append(<head of Q> [if Q else FILL])
    Invariant (hand lemma, the classical one): after iteration t the queue holds, oldest first, exactly the positions p in [lo(t), k(t)] that no
    later position in that range dominates (ties: the later one with `<=`, both with `<`); its head is the extremum of X over [lo(t), k(t)].
    What is decided here, by linear arithmetic over the code's own guards: k advances by one per iteration from 0; the eviction test is applied in
    every iteration in which a position can leave, and lets exactly the positions <= E(t) go; reads of the head are safe.  -> (result list, term)"""
    n = Aff.sym('n')
    one = Aff.const(1)
    base_fx = list(e2.get('#facts', ()))
    jname = st.target.id
    # ---- flatten `if G:` blocks (no else) into guarded statements
    flat = []

    def is_evict_stmt(s_):
        if not (isinstance(s_, (ast.If, ast.While)) and not s_.orelse and len(s_.body) == 1 and isinstance(s_.body[0], ast.Expr) and isinstance(s_.body[0].value, ast.Call)
                and isinstance(s_.body[0].value.func, ast.Attribute)):
            return False
        c_ = s_.body[0].value
        return c_.func.attr == 'popleft' or (c_.func.attr == 'pop' and len(c_.args) == 1 and ast.unparse(c_.args[0]) == '0')

    def walk(stmts, guards):
        for s_ in stmts:
            if isinstance(s_, ast.If) and not s_.orelse and not is_evict_stmt(s_):
                walk(s_.body, guards + [s_.test])
            else:
                flat.append((guards, s_))
    walk(st.body, [])

    def qname_of(e):
        return ast.unparse(e)

    def is_empty_guard(e, q):
        src = ast.unparse(e).replace(' ', '')
        return src in (q, 'len(%s)>0' % q, 'len(%s)!=0' % q, 'len(%s)>=1' % q, 'bool(%s)' % q)

    def split_conj(e):
        if isinstance(e, ast.BoolOp) and isinstance(e.op, ast.And):
            out_ = []
            for v in e.values:
                out_ += split_conj(v)
            return out_
        return [e]

    def guard_facts(tests, truth=True):
        fx = []
        for g in tests:
            fx += _cond_facts(it, g, truth, e2)
        return fx

    Q = None
    mode = None          # 'value' | 'index' | ('pair', idx position, value position)
    op = None
    strict = None
    src = None
    k = None             # position pushed in iteration t
    push_guard = None
    pushed = False
    lo_excl = None       # every position <= lo_excl has left the queue after iteration t
    evict_seen = False
    out = None
    result = None
    line = st.lineno

    def head_value_expr(e, q):
        """does e read the value of the head of q?"""
        srcs = ast.unparse(e).replace(' ', '')
        if mode == 'value':
            return srcs == '%s[0]' % q
        if mode == 'index':
            return isinstance(e, ast.Subscript) and isinstance(e.value, ast.Name) and e2.get(e.value.id) is src and ast.unparse(e.slice).replace(' ', '') == '%s[0]' % q
        if isinstance(mode, tuple):
            return srcs == '%s[0][%d]' % (q, mode[2])
        return False

    for guards, s_ in flat:
        # ---------------------------------------------------------------- pop dominated candidates
        if isinstance(s_, ast.While) and not is_evict_stmt(s_):
            conj = split_conj(s_.test)
            body = [x for x in s_.body]
            if not (len(body) == 1 and isinstance(body[0], ast.Expr) and isinstance(body[0].value, ast.Call) and isinstance(body[0].value.func, ast.Attribute)):
                raise Unknown('while loop in the sample loop: %s' % ast.unparse(s_.test)[:40])
            call = body[0].value
            q = qname_of(call.func.value)
            if call.func.attr == 'pop' and not call.args:
                if Q not in (None, q) or not isinstance(env.get(q), tuple) or env.get(q)[0] not in ('mq', 'build'):
                    raise Unknown('queue %s' % q)
                Q = q
                rest = [c for c in conj if not is_empty_guard(c, q)]
                if len(rest) != 1 or len(rest) == len(conj):
                    raise Unknown('pop loop of %s needs `%s and <back> <cmp> <new sample>`' % (q, q))
                c = rest[0]
                if not (isinstance(c, ast.Compare) and len(c.ops) == 1 and isinstance(c.ops[0], (ast.Lt, ast.LtE, ast.Gt, ast.GtE))):
                    raise Unknown('pop test %s' % ast.unparse(c)[:40])
                l, r = c.left, c.comparators[0]
                cop = type(c.ops[0])
                backs = {'%s[-1]' % q: 'value', '%s[len(%s)-1]' % (q, q): 'value'}
                ls, rs = ast.unparse(l).replace(' ', ''), ast.unparse(r).replace(' ', '')

                def back_kind(e, es):
                    if es in backs:
                        return 'value'
                    if isinstance(e, ast.Subscript) and isinstance(e.value, ast.Name) and isinstance(e2.get(e.value.id), Seq) and ast.unparse(e.slice).replace(' ', '') in backs:
                        return ('index', e.value.id)
                    if isinstance(e, ast.Subscript) and isinstance(e.slice, ast.Constant) and ast.unparse(e.value).replace(' ', '') in backs and e.slice.value in (0, 1):
                        return ('pair', e.slice.value)
                    return None
                bk = back_kind(l, ls)
                new = r
                if bk is None:
                    bk = back_kind(r, rs)
                    new = l
                    cop = {ast.Lt: ast.Gt, ast.LtE: ast.GtE, ast.Gt: ast.Lt, ast.GtE: ast.LtE}[cop]
                if bk is None:
                    raise Unknown('pop test %s does not look at the back of %s' % (ast.unparse(c)[:40], q))
                # back CMP new: back smaller -> the head is the maximum
                op = 'max' if cop in (ast.Lt, ast.LtE) else 'min'
                strict = cop in (ast.Lt, ast.Gt)
                if not (isinstance(new, ast.Subscript) and isinstance(new.value, ast.Name) and isinstance(e2.get(new.value.id), Seq)):
                    raise Unknown('the new candidate `%s` is not a sample of an operand' % ast.unparse(new)[:30])
                src = e2[new.value.id]
                if bk == 'value':
                    mode = 'value'
                elif bk[0] == 'index':
                    if e2[bk[1]] is not src:
                        raise Unknown('candidates index %s, the new sample comes from %s' % (bk[1], new.value.id))
                    mode = 'index'
                else:
                    mode = ('pair', 1 - bk[1], bk[1])
                gfx = guard_facts(guards)
                k = it.aff(new.slice, e2)
                if k.coeff('t') != 1:
                    raise Unknown('the pushed position %r does not advance by one per iteration' % k)
                # the guard lets exactly the positions >= 0 in
                it.require(k, 'the candidate pushed in an iteration is a sample of the trace (position >= 0)', s_.lineno, base_fx + gfx)
                it.require(n - one - k, 'the candidate pushed in an iteration is a sample of the trace (position < len)', s_.lineno, base_fx + gfx)
                for g in guards:
                    for alt in _dnf(g, False):
                        nfx = []
                        for (tst, tr) in alt:
                            nfx += _cond_facts(it, tst, tr, e2)
                        if not _infeasible(it.facts + base_fx + nfx):
                            it.require(-k - one, 'an iteration that pushes no candidate has none to push (its position lies before the trace)', s_.lineno, base_fx + nfx)
                push_guard = list(guards)
                continue
            raise Unknown('while loop %s' % ast.unparse(s_.test)[:40])
        # ---------------------------------------------------------------- push
        if isinstance(s_, ast.Expr) and isinstance(s_.value, ast.Call) and isinstance(s_.value.func, ast.Attribute) and s_.value.func.attr == 'append' \
                and Q is not None and qname_of(s_.value.func.value) == Q:
            if push_guard is None or [ast.dump(g) for g in guards] != [ast.dump(g) for g in push_guard] or pushed:
                raise Unknown('push into %s is not paired with the pop loop' % Q)
            a0 = s_.value.args[0]
            a0s = ast.unparse(a0).replace(' ', '')
            want_val = lambda e: isinstance(e, ast.Subscript) and isinstance(e.value, ast.Name) and e2.get(e.value.id) is src and it.aff(e.slice, e2) == k
            want_idx = lambda e: _try_aff(it, e, e2) == k
            okp = False
            if mode == 'value':
                okp = want_val(a0)
            elif mode == 'index':
                okp = want_idx(a0)
            elif isinstance(mode, tuple) and isinstance(a0, (ast.Tuple, ast.List)) and len(a0.elts) == 2:
                okp = want_idx(a0.elts[mode[1]]) and want_val(a0.elts[mode[2]])
            if not okp:
                raise Unknown('what is pushed (%s) is not the candidate the pop loop compared' % a0s[:30])
            pushed = True
            continue
        # ---------------------------------------------------------------- the head leaves
        is_evict = None
        if isinstance(s_, (ast.If, ast.While)) and not s_.orelse and len(s_.body) == 1 and isinstance(s_.body[0], ast.Expr) and isinstance(s_.body[0].value, ast.Call) \
                and isinstance(s_.body[0].value.func, ast.Attribute):
            c_ = s_.body[0].value
            if c_.func.attr == 'popleft' or (c_.func.attr == 'pop' and len(c_.args) == 1 and ast.unparse(c_.args[0]) == '0'):
                is_evict = qname_of(c_.func.value)
        if is_evict is not None:
            if Q is None or is_evict != Q or evict_seen:
                raise Unknown('eviction from %s before the candidates idiom was recognised' % is_evict)
            evict_seen = True
            conj = split_conj(s_.test)
            has_empty_guard = any(is_empty_guard(c, Q) for c in conj)
            rest = [c for c in conj if not is_empty_guard(c, Q)]
            heads = [c for c in rest if '%s[0]' % Q in ast.unparse(c).replace(' ', '')]
            aff_guards = list(guards) + [c for c in rest if c not in heads]
            if len(heads) != 1 or not (isinstance(heads[0], ast.Compare) and len(heads[0].ops) == 1):
                raise Unknown('eviction test %s' % ast.unparse(s_.test)[:50])
            h = heads[0]
            l, r = h.left, h.comparators[0]
            hop = type(h.ops[0])
            ls = ast.unparse(l).replace(' ', '')
            head_forms = {'value': '%s[0]' % Q, 'index': '%s[0]' % Q}
            gfx = guard_facts(aff_guards)
            # the eviction must be tried in every iteration in which a position can have left
            def untested(E_):
                for g in aff_guards:
                    for alt in _dnf(g, False):
                        nfx = []
                        for (tst, tr) in alt:
                            nfx += _cond_facts(it, tst, tr, e2)
                        if not _infeasible(it.facts + base_fx + nfx):
                            it.require(-E_ - one, 'an iteration that does not test the head of the queue has no position that left the window', s_.lineno, base_fx + nfx)
            if mode == 'value':
                # Q[0] == X[L]
                if not (hop is ast.Eq and ls == '%s[0]' % Q and isinstance(r, ast.Subscript) and isinstance(r.value, ast.Name) and e2.get(r.value.id) is src):
                    raise Unknown('a queue of values is evicted by `%s[0] == <the sample that leaves>`; got %s' % (Q, ast.unparse(h)[:40]))
                L = it.aff(r.slice, e2)
                if L.coeff('t') != 1:
                    raise Unknown('the leaving position %r does not advance by one per iteration' % L)
                it.require(L, 'the sample that leaves the window is a sample of the trace (position >= 0)', s_.lineno, base_fx + gfx)
                it.require(k - L - (Aff.const(0) if pushed else one), 'the sample that leaves the window was pushed before it is looked for', s_.lineno, base_fx + gfx)
                if not strict:
                    it.obligations.append(('equal candidates are kept (strict pop test) when the head is recognised by value', False, s_.lineno))
                untested(L)
                lo_excl = L
            else:
                idx_head = '%s[0]' % Q if mode == 'index' else '%s[0][%d]' % (Q, mode[1])
                if ls != idx_head:
                    # E >= Q[0]  ->  Q[0] <= E
                    if ast.unparse(r).replace(' ', '') != idx_head:
                        raise Unknown('eviction test %s does not look at the position of the head' % ast.unparse(h)[:40])
                    l, r = r, l
                    hop = {ast.Lt: ast.Gt, ast.LtE: ast.GtE, ast.Gt: ast.Lt, ast.GtE: ast.LtE, ast.Eq: ast.Eq}.get(hop)
                E = it.aff(r, e2)
                if hop is ast.Lt:
                    E = E - one
                elif hop is ast.Eq:
                    if not isinstance(s_, ast.If):
                        raise Unknown('`while head == E`')
                elif hop is not ast.LtE:
                    raise Unknown('eviction test %s' % ast.unparse(h)[:40])
                if isinstance(s_, ast.If) or hop is ast.Eq:
                    # one position per iteration can leave: enough iff the bound moves by one per iteration
                    if E.coeff('t') != 1:
                        raise Unknown('`if` eviction with a bound %r that does not advance by one per iteration' % E)
                elif E.coeff('t') not in (0, 1):
                    raise Unknown('eviction bound %r' % E)
                untested(E)
                lo_excl = E
            if not has_empty_guard:
                if not pushed:
                    it.obligations.append(('the head of the queue is read only when the queue is not empty (`%s and ...` or after the push of this iteration)' % Q, False, s_.lineno))
                else:
                    # pushed in this iteration under push_guard: the eviction guards must imply it
                    it.require(k, 'the head of the queue is read only in iterations that pushed a candidate', s_.lineno, base_fx + gfx)
            continue
        # ---------------------------------------------------------------- the output of the iteration
        if isinstance(s_, ast.Expr) and isinstance(s_.value, ast.Call) and isinstance(s_.value.func, ast.Attribute) and s_.value.func.attr == 'append' and not guards:
            tgt = ast.unparse(s_.value.func.value)
            if env.get(tgt) != ('build',) or tgt == Q:
                raise Unknown('append to %s' % tgt)
            if Q is None or not pushed:
                raise Unknown('output before the candidates idiom was recognised')
            a0 = s_.value.args[0]
            fill = None
            if isinstance(a0, ast.IfExp):
                tst, x, y = a0.test, a0.body, a0.orelse
                if isinstance(tst, ast.UnaryOp) and isinstance(tst.op, ast.Not):
                    tst, x, y = tst.operand, y, x
                if not is_empty_guard(tst, Q):
                    raise Unknown('output %s' % ast.unparse(a0)[:40])
                fill = O.const_of(y)
                if fill is None:
                    raise Unknown('value for an empty queue %s' % ast.unparse(y)[:30])
                a0 = x
            if not head_value_expr(a0, Q):
                raise Unknown('the output %s is not the head of the queue' % ast.unparse(a0)[:40])
            lo = (lo_excl + one) if lo_excl is not None else Aff.const(0)
            if fill is None:
                it.require(k, 'the head of the queue is read only when a candidate has been pushed', s_.lineno, base_fx)
                it.require(k - lo, 'the head of the queue is read only when the window is not empty', s_.lineno, base_fx)
            elif ('c', fill[1]) != NEUTRAL[op]:
                if not entails(it.facts + base_fx, k):
                    if entails(it.facts + base_fx, -k - one):
                        out, result = ('c', fill[1]), tgt
                        continue
                    raise NeedSplit(k)
            v = it.newvar('i')
            out = ('red', op, v, lo, k, _with_fill(src.elem(Aff.sym(v)), low=NEUTRAL[op]))
            result = tgt
            continue
        raise Unknown('statement in the candidates loop: %s' % ast.unparse(s_)[:50])
    if out is None:
        raise Unknown('candidates loop emits nothing')
    return result, out


def _try_aff(it, e, env):
    try:
        return it.aff(e, env)
    except Unknown:
        return None


def summarize_online(ix, cls, facts=()):
    """discrete-time online XTimedOperation: __init__ (buffers), reset (prefill), update (one step) -> canonical term"""
    it = Interp(facts)
    init = ix.resolve_method(cls, '__init__')
    reset = ix.resolve_method(cls, 'reset')
    upd = ix.resolve_method(cls, 'update')
    env = {}
    params = [a.arg for a in init.node.args.args[1:]]
    if params[:2] != ['begin', 'end']:
        raise Unknown('constructor parameters %s' % params)
    calls_reset = False
    listbuf = {}
    for st in init.node.body:
        if isinstance(st, ast.Assign) and len(st.targets) == 1 and isinstance(st.targets[0], ast.Name):
            # a local of the constructor (`size = self.end + 1`): an affine quantity over begin / end
            try:
                env[st.targets[0].id] = it.aff(st.value, env)
                continue
            except Unknown:
                raise Unknown('constructor statement %s' % ast.unparse(st)[:50])
        if isinstance(st, ast.Assign) and len(st.targets) == 1 and isinstance(st.targets[0], ast.Attribute):
            nm = 'self.' + st.targets[0].attr
            v = st.value
            if isinstance(v, ast.Name) and v.id == 'begin':
                env[nm] = Aff.sym('a')
            elif isinstance(v, ast.Name) and v.id == 'end':
                env[nm] = Aff.sym('b')
            elif isinstance(v, ast.Call) and ast.unparse(v.func).endswith('deque'):
                M = [it.aff(kw.value, env) for kw in v.keywords if kw.arg == 'maxlen']
                if not M:
                    raise Unknown('deque without maxlen')
                env[nm] = ('deque', M[0], None)
            elif isinstance(v, ast.List) and not v.elts:
                listbuf[nm] = 0
            elif isinstance(v, ast.ListComp) and len(v.generators) == 1 and not v.generators[0].ifs and isinstance(v.elt, ast.Call) and ast.unparse(v.elt.func).endswith('deque') \
                    and isinstance(v.generators[0].iter, ast.Call) and getattr(v.generators[0].iter.func, 'id', None) == 'range' and len(v.generators[0].iter.args) == 1 \
                    and isinstance(v.generators[0].iter.args[0], ast.Constant) and isinstance(v.generators[0].iter.args[0].value, int):
                # [deque(maxlen=M) for _ in range(K)]: K ring buffers of one length
                M = [it.aff(kw.value, env) for kw in v.elt.keywords if kw.arg == 'maxlen']
                if not M:
                    raise Unknown('deque without maxlen')
                for i_ in range(v.generators[0].iter.args[0].value):
                    env['%s[%d]' % (nm, i_)] = ('deque', M[0], None)
            else:
                raise Unknown('constructor statement %s' % ast.unparse(st)[:50])
        elif isinstance(st, ast.Expr) and isinstance(st.value, ast.Call) and isinstance(st.value.func, ast.Attribute):
            c = st.value
            if c.func.attr == 'reset':
                calls_reset = True
            elif c.func.attr == 'append' and ('self.' + getattr(c.func.value, 'attr', '')) in listbuf and isinstance(c.args[0], ast.Call):
                nm = 'self.' + c.func.value.attr
                M = [it.aff(kw.value, env) for kw in c.args[0].keywords if kw.arg == 'maxlen']
                env['%s[%d]' % (nm, listbuf[nm])] = ('deque', M[0], None)
                listbuf[nm] += 1
            else:
                raise Unknown('constructor statement %s' % ast.unparse(st)[:50])
        else:
            raise Unknown('constructor statement %s' % ast.unparse(st)[:50])
    if not calls_reset:
        raise Unknown('constructor does not prefill the buffers through reset()')
    # reset: prefill
    for st in reset.node.body:
        if isinstance(st, ast.Assign) and len(st.targets) == 1 and isinstance(st.targets[0], ast.Name):
            # a local of reset() (`size = self.end + 1`)
            try:
                env[st.targets[0].id] = it.aff(st.value, env)
                continue
            except Unknown:
                raise Unknown('reset statement %s' % ast.unparse(st)[:40])
        if isinstance(st, ast.Expr) and isinstance(st.value, ast.Call) and isinstance(st.value.func, ast.Attribute) and st.value.func.attr == 'extend' \
                and len(st.value.args) == 1 and isinstance(st.value.args[0], (ast.BinOp, ast.ListComp)):
            # buffer.extend([c] * M)
            pd = it.const_list(st.value.args[0], env)
            tgt = _bufname(st.value.func.value)
            dv = env.get(tgt)
            if pd is None or not (isinstance(dv, tuple) and dv[0] == 'deque'):
                raise Unknown('reset statement %s' % ast.unparse(st)[:40])
            if not (pd[2] == dv[1]):
                raise Unknown('ring buffer %s of length %r is refilled with %r values' % (tgt, dv[1], pd[2]))
            env[tgt] = ('deque', dv[1], ('c', pd[1][1]))
            continue
        if isinstance(st, ast.For):
            rng = it.range_of(st.iter, env)
            if rng is None:
                raise Unknown('reset loop')
            count = rng[1] - rng[0] + Aff.const(1)
            consts = {}
            for s in st.body:
                if isinstance(s, ast.Assign) and isinstance(s.targets[0], ast.Name) and O.const_of(s.value) is not None:
                    consts[s.targets[0].id] = O.const_of(s.value)
                elif isinstance(s, ast.Expr) and isinstance(s.value, ast.Call) and s.value.func.attr == 'append':
                    tgt = _bufname(s.value.func.value)
                    a0 = s.value.args[0]
                    c = O.const_of(a0) or (consts.get(a0.id) if isinstance(a0, ast.Name) else None)
                    dv = env.get(tgt)
                    if c is None or not (isinstance(dv, tuple) and dv[0] == 'deque'):
                        raise Unknown('reset statement %s' % ast.unparse(s)[:40])
                    if not (count == dv[1]):
                        raise Unknown('ring buffer %s of length %r is refilled with %r values' % (tgt, dv[1], count))
                    env[tgt] = ('deque', dv[1], ('c', c[1]))
                else:
                    raise Unknown('reset statement %s' % ast.unparse(s)[:40])
    # update: one step at time t
    t = Aff.sym('t')
    ups = [a.arg for a in upd.node.args.args[1:]]
    srcs = {p: it.operand(i) for i, p in enumerate(ups)}
    e2 = dict(env)
    e2['#facts'] = [t, Aff.sym('n') - Aff.const(1) - t]
    out = None
    shortcuts = []
    for s in upd.node.body:
        if isinstance(s, ast.Expr) and isinstance(s.value, ast.Constant):
            continue
        if isinstance(s, ast.Expr) and isinstance(s.value, ast.Call) and isinstance(s.value.func, ast.Attribute) and s.value.func.attr == 'append':
            tgt = _bufname(s.value.func.value)
            dv = e2.get(tgt)
            a0 = s.value.args[0]
            if not (isinstance(dv, tuple) and dv[0] == 'deque' and isinstance(a0, ast.Name) and a0.id in srcs):
                raise Unknown('update statement %s' % ast.unparse(s)[:40])
            _, M, fill = dv
            if fill is None:
                raise Unknown('ring buffer %s is not prefilled' % tgt)
            src = srcs[a0.id]

            def elem(kk, src=src, M=M, fill=fill):
                return _with_fill(src.elem(t - (M - Aff.const(1)) + kk), low=fill)
            e2[tgt] = Seq(M, elem, 'ring(%s)' % tgt)
            continue
        if isinstance(s, ast.Assign) and len(s.targets) == 1 and isinstance(s.targets[0], ast.Name) and isinstance(s.value, (ast.GeneratorExp, ast.ListComp)):
            # a comprehension bound to a name and reduced later: evaluated where it is consumed
            e2[s.targets[0].id] = ('gen', s.value)
            continue
        if isinstance(s, ast.Assign) and len(s.targets) == 1 and isinstance(s.targets[0], ast.Name):
            # a parameter name may be reused as a temporary afterwards
            try:
                e2[s.targets[0].id] = it.term(s.value, e2)
            except Unknown:
                e2[s.targets[0].id] = it.aff(s.value, e2)
            continue
        if isinstance(s, ast.For):
            it.run_loop(s, e2)
            continue
        if isinstance(s, ast.Return):
            out = it.term(s.value, e2)
            break
        # saturation shortcut:  if sample == +-inf: return sample.  +inf absorbs max, -inf absorbs min -- for a window that contains the newest sample
        sat = _saturation_shortcut(s, ups)
        if sat is not None:
            shortcuts.append(sat + (s.lineno,))
            continue
        raise Unknown('update statement %s' % ast.unparse(s)[:50])
    if out is None:
        raise Unknown('update returns nothing')
    res = canonical(out)
    for (param, sign, lineno) in shortcuts:
        ok = False
        if res[0] == 'red' and res[5][0] == 'leaf' and res[5][2].coeff(res[2]) == 1:
            op, lo, hi = res[1], res[3], res[4]
            rest = res[5][2] - Aff.sym(res[2])        # leaf index = t + var + rest
            absorbing = (op == 'max' and sign > 0) or (op == 'min' and sign < 0)
            # offset 0 (the newest sample) inside [lo + rest, hi + rest]
            it.require(-(lo + rest), 'the newest sample lies in the window (the early result for a saturated sample is the window\'s value only then)', lineno, e2['#facts'])
            it.require(hi + rest, 'the newest sample lies in the window (the early result for a saturated sample is the window\'s value only then)', lineno, e2['#facts'])
            ok = absorbing
        if not ok:
            it.obligations.append(('the early return for a saturated sample returns the absorbing element of the reduction over a window that contains the newest sample', False, lineno))
    return res, it


def _saturation_shortcut(s, params):
    """`if P == float('inf'): return P`  ->  (P, +1);  with -float('inf')  ->  (P, -1)"""
    if not (isinstance(s, ast.If) and not s.orelse and isinstance(s.test, ast.Compare) and len(s.test.ops) == 1 and isinstance(s.test.ops[0], ast.Eq)):
        return None
    l, r = s.test.left, s.test.comparators[0]
    if not (isinstance(l, ast.Name) and l.id in params):
        return None
    c = O.const_of(r)
    if c is None or c[1] not in ('inf', '-inf'):
        return None
    body = [x for x in s.body if not (isinstance(x, ast.Expr) and isinstance(x.value, ast.Constant))]
    if len(body) == 1 and isinstance(body[0], ast.Return) and isinstance(body[0].value, ast.Name) and body[0].value.id == l.id:
        return (l.id, 1 if c[1] == 'inf' else -1)
    return None


def _bufname(e):
    if isinstance(e, ast.Subscript) and isinstance(e.slice, ast.Constant):
        return '%s[%d]' % (ast.unparse(e.value), e.slice.value)
    return ast.unparse(e)
