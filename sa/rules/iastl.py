"""Rules for the interface-aware semantics (C06): family tables over the 16 IA variants, verdict tables,
shape of the tested verdict, in_vars/out_vars propagation, no io influence under STANDARD."""
import ast

from sa.index import AnalysisError, ClassInfo
from sa import dispatch as D, model as M, opsum as O
from sa.rules import exh

SEM_ENUM = {'OutputRobustness': 'OUTPUT_ROBUSTNESS', 'InputRobustness': 'INPUT_ROBUSTNESS',
            'OutputVacuity': 'OUTPUT_VACUITY', 'InputVacuity': 'INPUT_VACUITY'}
WANT_REL = {'EQ': '==', 'NEQ': '!=', 'GEQ': '>=', 'GREATER': '>', 'LEQ': '<=', 'LESS': '<'}
FLIP = {'<': '>', '>': '<', '<=': '>=', '>=': '<=', '==': '==', '!=': '!='}
OPS = {ast.Eq: '==', ast.NotEq: '!=', ast.Lt: '<', ast.LtE: '<=', ast.Gt: '>', ast.GtE: '>='}


def want_attr(sem):
    return 'out_vars' if sem.startswith('Output') else 'in_vars'


def want_kind(sem):
    return 'inf' if sem.endswith('Robustness') else 'zero'


def _is_inf(e, sign):
    c = O.const_of(e)
    return c == (O.INF if sign > 0 else O.NINF)


def _is_zero(e):
    c = O.const_of(e)
    return c is not None and c[1] not in ('inf', '-inf', 'nan') and float(c[1]) == 0.0



def canon_result_form(fnode, result='__result'):
    """bring a handler into the single-result form the table rules read (on a copy):
         if C: return A                      if C: r = A
         <rest> return B            ->       else: <rest> r = B
                                             return r
       and a test on the truth of `node.X` / `len(node.X) > 0` is turned round: `if not node.X: <else arm> else: <then arm>`;
       `r = [c] * len(S)` is the loop `for _ in S: r.append(c)`."""
    import copy
    fn = copy.deepcopy(fnode)

    def to_assign(stmts):
        out = []
        for x in stmts:
            if isinstance(x, ast.Return) and x.value is not None:
                out.append(ast.copy_location(ast.Assign(targets=[ast.Name(id=result, ctx=ast.Store())], value=x.value), x))
            elif isinstance(x, ast.If):
                x.body = to_assign(x.body)
                x.orelse = to_assign(x.orelse)
                out.append(x)
            else:
                out.append(x)
        return out
    for k, st in enumerate(fn.body):
        if isinstance(st, ast.If):
            rest = fn.body[k + 1:]
            if not st.orelse and st.body and isinstance(st.body[-1], ast.Return) and rest and isinstance(rest[-1], ast.Return) \
                    and not any(isinstance(n, ast.Return) for x in rest[:-1] for n in ast.walk(x)):
                st.orelse = rest
                st.body = to_assign(st.body)
                st.orelse = to_assign(st.orelse)
                ret = ast.copy_location(ast.Return(value=ast.Name(id=result, ctx=ast.Load())), rest[-1])
                fn.body = fn.body[:k] + [st, ret]
            t = st.test
            positive = None
            if isinstance(t, ast.Attribute):
                positive = t
            elif isinstance(t, ast.Compare) and len(t.ops) == 1 and isinstance(t.left, ast.Call) and getattr(t.left.func, 'id', None) == 'len' and len(t.left.args) == 1 \
                    and ((isinstance(t.ops[0], (ast.Gt, ast.NotEq)) and ast.unparse(t.comparators[0]) == '0') or (isinstance(t.ops[0], ast.GtE) and ast.unparse(t.comparators[0]) == '1')):
                positive = t.left.args[0]
            if positive is not None and st.orelse:
                st.test = ast.copy_location(ast.UnaryOp(op=ast.Not(), operand=positive), t)
                st.body, st.orelse = st.orelse, st.body
            break
    # r = [c] * len(S)  ->  r = []; for _ in S: r.append(c)
    class Rep(ast.NodeTransformer):
        def visit_Assign(self, n):
            v = n.value
            if len(n.targets) == 1 and isinstance(n.targets[0], ast.Name) and isinstance(v, ast.BinOp) and isinstance(v.op, ast.Mult):
                l, r = v.left, v.right
                if isinstance(r, ast.List):
                    l, r = r, l
                if isinstance(l, ast.List) and len(l.elts) == 1 and isinstance(r, ast.Call) and getattr(r.func, 'id', None) == 'len' and len(r.args) == 1:
                    comp = ast.ListComp(elt=l.elts[0], generators=[ast.comprehension(target=ast.Name(id='_', ctx=ast.Store()), iter=r.args[0], ifs=[], is_async=0)])
                    return ast.copy_location(ast.Assign(targets=n.targets, value=comp), n)
            return n
    fn = Rep().visit(fn)
    ast.fix_missing_locations(fn)
    return fn


def subst_kind(stmts):
    """what value a list of statements substitutes: ('inf', verdict expr) | ('zero',) | None"""
    for n in ast.walk(ast.Module(body=list(stmts), type_ignores=[])):
        if isinstance(n, ast.IfExp) and _is_inf(n.body, +1) and _is_inf(n.orelse, -1):
            t = n.test
            if isinstance(t, ast.Compare) and len(t.ops) == 1 and isinstance(t.ops[0], (ast.Eq, ast.Is)) and isinstance(t.comparators[0], ast.Constant) \
                    and t.comparators[0].value is True:
                return ('inf', t.left)
            return ('inf', t)
        if isinstance(n, ast.IfExp) and _is_inf(n.body, -1) and _is_inf(n.orelse, +1):
            return ('inverted', n.test)
        # the same choice written as a statement: if verdict: <emit +inf> else: <emit -inf>
        if isinstance(n, ast.If) and len(n.body) == 1 and len(n.orelse) == 1:
            def emitted(st):
                if isinstance(st, ast.Expr) and isinstance(st.value, ast.Call) and isinstance(st.value.func, ast.Attribute) and st.value.func.attr == 'append' and st.value.args:
                    a_ = st.value.args[0]
                    return a_.elts[1] if isinstance(a_, (ast.List, ast.Tuple)) and len(a_.elts) == 2 else a_
                if isinstance(st, ast.Assign) and len(st.targets) == 1 and isinstance(st.targets[0], ast.Name):
                    return st.value
                return None
            eb, eo = emitted(n.body[0]), emitted(n.orelse[0])
            if eb is not None and eo is not None:
                t = n.test
                if isinstance(t, ast.Compare) and len(t.ops) == 1 and isinstance(t.ops[0], (ast.Eq, ast.Is)) and isinstance(t.comparators[0], ast.Constant) \
                        and t.comparators[0].value is True:
                    t = t.left
                if _is_inf(eb, +1) and _is_inf(eo, -1):
                    return ('inf', t)
                if _is_inf(eb, -1) and _is_inf(eo, +1):
                    return ('inverted', t)
    for n in ast.walk(ast.Module(body=list(stmts), type_ignores=[])):
        if isinstance(n, ast.Call) and isinstance(n.func, ast.Attribute) and n.func.attr == 'append' and n.args:
            a = n.args[0]
            v = a.elts[1] if isinstance(a, (ast.List, ast.Tuple)) and len(a.elts) == 2 else a
            if isinstance(v, ast.Name):
                # resolve one assignment back
                for s in stmts:
                    for q in ast.walk(s):
                        if isinstance(q, ast.Assign) and isinstance(q.targets[0], ast.Name) and q.targets[0].id == v.id:
                            v = q.value
            if _is_zero(v):
                return ('zero',)
        if isinstance(n, ast.Assign) and isinstance(n.targets[0], ast.Name) and n.targets[0].id in ('out_sample',) and _is_zero(n.value):
            return ('zero',)
    return None


def list_elem_shape(func_node, list_name):
    """'scalar' or 'pair': shape of what is appended to list_name in func"""
    shapes = set()
    for n in ast.walk(func_node):
        if isinstance(n, ast.Call) and isinstance(n.func, ast.Attribute) and n.func.attr == 'append' and isinstance(n.func.value, ast.Name) \
                and n.func.value.id == list_name and n.args:
            a = n.args[0]
            shapes.add('pair' if isinstance(a, (ast.List, ast.Tuple)) and len(a.elts) == 2 else 'scalar')
    if len(shapes) == 1:
        return shapes.pop()
    return None


def returned_names(func_node):
    for n in ast.walk(func_node):
        if isinstance(n, ast.Return) and n.value is not None:
            if isinstance(n.value, ast.Tuple):
                return [e.id if isinstance(e, ast.Name) else None for e in n.value.elts]
            if isinstance(n.value, ast.Name):
                return [n.value.id]
    return []


# ------------------------------------------------------------------------------------------------- verdict tables
def relation_of(e, lname, rname, dname):
    """normalise a verdict expression to a relation between left and right"""
    if isinstance(e, ast.IfExp) and isinstance(e.body, ast.Constant) and isinstance(e.orelse, ast.Constant):
        inner = relation_of(e.test, lname, rname, dname)
        if inner is None:
            return None
        if e.body.value is True and e.orelse.value is False:
            return inner
        if e.body.value is False and e.orelse.value is True:
            return {'==': '!=', '!=': '==', '<': '>=', '>=': '<', '>': '<=', '<=': '>'}[inner]
        return None
    if isinstance(e, ast.Compare) and len(e.ops) == 1 and type(e.ops[0]) in OPS:
        op = OPS[type(e.ops[0])]
        l, r = ast.unparse(e.left).replace(' ', ''), ast.unparse(e.comparators[0]).replace(' ', '')
        if l == lname and r == rname:
            return op
        if l == rname and r == lname:
            return FLIP[op]
        zero = r in ('0', '0.0')
        if dname and l == dname and zero:
            return op  # d = left - right
        if dname and l == 'abs(%s)' % dname and zero and op == '>':
            return '!='
        if dname and l == 'abs(%s)' % dname and zero and op in ('==', '<='):
            return '=='
    return None


def verdict_table(func_node, verdict_var, lname, rname, dname):
    """{comparison key: relation} from the if/elif chain assigning verdict_var"""
    def scan(var):
        table = {}
        for n in ast.walk(func_node):
            if isinstance(n, ast.If):
                keys = O.comparison_key(n.test)
                if keys is None:
                    continue
                for st in n.body:
                    if isinstance(st, ast.Assign) and isinstance(st.targets[0], ast.Name) and (st.targets[0].id == var if var else isinstance(st.value, (ast.Compare, ast.IfExp))):
                        rel = relation_of(st.value, lname, rname, dname)
                        for k in keys:
                            if O.canon_cmp(k) not in table:            # Python takes the first arm that names an operator
                                table[O.canon_cmp(k)] = rel if rel is not None else ('?' + ast.unparse(st.value)[:40])
        return table
    table = scan(verdict_var)
    if not table:
        # the verdict is whatever Boolean-valued local the arms of the chain assign: its name is the author's business
        table = scan(None)
    return table


def check_verdict_table(rep, f, verdict_var, lname, rname, dname, slot):
    tab = verdict_table(f.node, verdict_var, lname, rname, dname)
    rep.analysed(f)
    rep.unit(f.module.rel)
    if set(tab) != set(WANT_REL):
        rep.fail('R-SAT', f.module.rel, f.qual, slot + ':keys', 'verdict table covers %s, expected the six comparison operators' % sorted(tab), f.node.lineno)
        return
    for k in sorted(WANT_REL):
        if tab[k] == WANT_REL[k]:
            rep.ok('R-SAT', f.module.rel, f.qual, '%s:%s' % (slot, k), 'verdict of %s is left %s right' % (k, WANT_REL[k]), f.node.lineno)
        else:
            rep.fail('R-SAT', f.module.rel, f.qual, '%s:%s' % (slot, k), 'Boolean verdict of comparison %s is computed as `left %s right`, expected `left %s right`: '
                     'the +-inf substituted for an insensitive predicate has the wrong sign on some inputs' % (k, tab[k], WANT_REL[k]), f.node.lineno)


# ------------------------------------------------------------------------------------------------- offline visitors
def check_offline_variant(ix, rep, mon):
    cls = mon.visitor
    sem = mon.sem
    f = ix.resolve_method(cls, 'visitPredicate')
    rep.analysed(f)
    rep.unit(f.module.rel)
    slot = '%s/%s' % (mon.kind, sem)
    if mon.kind.startswith('dense'):
        check_pair_source(rep, f, f.qual, slot, ix=ix)
    nodep = f.node.args.args[1].arg
    # call to the shared base that returns (values, verdicts)
    base_call = None
    for st in f.node.body:
        if isinstance(st, ast.Assign) and isinstance(st.targets[0], ast.Tuple) and isinstance(st.value, ast.Call):
            g = D._delegation(ix, cls, f.owner, st.value)
            if g is not None:
                base_call = (st, g)
    if base_call is None:
        raise AnalysisError('%s: no call to the shared IA predicate base' % f.where)
    st, basef = base_call
    valname, satname = [e.id for e in st.targets[0].elts]
    fbody = canon_result_form(f.node).body
    the_if = [s for s in fbody if isinstance(s, ast.If)]
    if len(the_if) != 1:
        raise AnalysisError('%s: expected exactly one sensitivity test' % f.where)
    the_if = the_if[0]
    # `out = [E for s in S]` in an arm is the loop `for s in S: out.append(E)` (on a copy)
    import copy as _copy
    the_if = _copy.deepcopy(the_if)
    for field in ('body', 'orelse'):
        new_body = []
        for q in getattr(the_if, field):
            if isinstance(q, ast.Assign) and len(q.targets) == 1 and isinstance(q.targets[0], ast.Name) and isinstance(q.value, ast.ListComp) \
                    and len(q.value.generators) == 1 and not q.value.generators[0].ifs:
                g_ = q.value.generators[0]
                app = ast.Expr(value=ast.Call(func=ast.Attribute(value=ast.Name(id=q.targets[0].id, ctx=ast.Load()), attr='append', ctx=ast.Load()), args=[q.value.elt], keywords=[]))
                lp = ast.For(target=g_.target, iter=g_.iter, body=[app], orelse=[])
                ast.copy_location(lp, q)
                ast.fix_missing_locations(lp)
                new_body.append(lp)
            else:
                new_body.append(q)
        setattr(the_if, field, new_body)
    t = the_if.test
    attr = None
    if isinstance(t, ast.UnaryOp) and isinstance(t.op, ast.Not) and isinstance(t.operand, ast.Attribute) and ast.unparse(t.operand.value) == nodep:
        attr = t.operand.attr
    elif isinstance(t, ast.Compare) and isinstance(t.ops[0], ast.Eq) and ast.unparse(t.comparators[0]) == '0' and isinstance(t.left, ast.Call) \
            and getattr(t.left.func, 'id', None) == 'len' and isinstance(t.left.args[0], ast.Attribute) and ast.unparse(t.left.args[0].value) == nodep:
        attr = t.left.args[0].attr
    if attr == want_attr(sem):
        rep.ok('R-IATABLE', f.module.rel, f.qual, slot + ':sensitivity', 'tests `not node.%s`' % attr, the_if.lineno)
    else:
        rep.fail('R-IATABLE', f.module.rel, f.qual, slot + ':sensitivity', '%s semantics must test `not node.%s`, the visitor tests `%s`'
                 % (sem, want_attr(sem), ast.unparse(t)), the_if.lineno)
    sk = subst_kind(the_if.body)
    wk = want_kind(sem)
    if sk is None or sk[0] != wk:
        rep.fail('R-IATABLE', f.module.rel, f.qual, slot + ':substitute', '%s semantics must substitute %s for an insensitive predicate, the visitor substitutes %s'
                 % (sem, '+inf/-inf by the Boolean verdict' if wk == 'inf' else '0', sk[0] if sk else 'something else'), the_if.lineno)
    else:
        rep.ok('R-IATABLE', f.module.rel, f.qual, slot + ':substitute', '+-inf by verdict' if wk == 'inf' else '0', the_if.lineno)
    # loop runs over the verdict list; for dense time the time-stamps come from the value list
    if wk == 'inf' and sk and sk[0] == 'inf':
        loopvar = None
        for s in the_if.body:
            if isinstance(s, ast.For):
                it = s.iter
                src = None
                if isinstance(it, ast.Call) and getattr(it.func, 'id', None) == 'enumerate' and isinstance(s.target, ast.Tuple):
                    loopvar = s.target.elts[1].id
                    src = ast.unparse(it.args[0])
                elif isinstance(it, ast.Call) and getattr(it.func, 'id', None) == 'zip' and isinstance(s.target, ast.Tuple) and len(it.args) == len(s.target.elts):
                    # for value_sample, verdict_sample in zip(values, verdicts): the verdict component is the one paired with the verdict list
                    for tg, a_ in zip(s.target.elts, it.args):
                        if ast.unparse(a_) == satname and isinstance(tg, ast.Name):
                            loopvar = tg.id
                            src = satname
                    if src is None:
                        src = ast.unparse(it)
                elif isinstance(s.target, ast.Name):
                    loopvar = s.target.id
                    src = ast.unparse(it)
                if src is None:
                    raise AnalysisError('%s: loop over `%s` is not interpreted' % (f.where, ast.unparse(it)[:40]))
                if src != satname:
                    rep.fail('R-IATABLE', f.module.rel, f.qual, slot + ':verdict-source', 'the loop runs over `%s`, not the verdict list `%s`' % (src, satname), s.lineno)
        rets = returned_names(basef.node)
        shape = list_elem_shape(basef.node, rets[1]) if len(rets) == 2 and rets[1] else None
        tested = ast.unparse(sk[1]).replace(' ', '')
        want_t = loopvar if shape == 'scalar' else '%s[1]' % loopvar
        if shape is None:
            raise AnalysisError('%s: cannot infer the element shape of the verdict list' % basef.where)
        if tested == want_t:
            rep.ok('R-SHAPE', f.module.rel, f.qual, slot + ':verdict-shape', 'tests the Boolean verdict (%s elements)' % shape, the_if.lineno)
        else:
            rep.fail('R-SHAPE', f.module.rel, f.qual, slot + ':verdict-shape', 'the verdict list holds %s elements but the visitor tests `%s == True`: %s'
                     % ('[time, verdict] pairs' if shape == 'pair' else 'Booleans', tested,
                        'a pair never equals True, so a holding insensitive predicate yields -inf' if shape == 'pair' else 'wrong component'), the_if.lineno)
    # else branch: numeric robustness unchanged
    okelse = False
    for s in the_if.orelse:
        if isinstance(s, ast.Assign) and isinstance(s.value, ast.Name) and s.value.id == valname:
            okelse = True
    if okelse:
        rep.ok('R-IATABLE', f.module.rel, f.qual, slot + ':sensitive', 'a sensitive predicate keeps its numeric robustness', the_if.lineno)
    else:
        rep.fail('R-IATABLE', f.module.rel, f.qual, slot + ':sensitive', 'a sensitive predicate does not keep the numeric robustness returned by the base', the_if.lineno)
    return basef


def check_offline_base(ix, rep, basef, time, ref_table):
    """shared base: value table = standard predicate table, verdict table consistent with the comparison operator"""
    rep.analysed(basef)
    rets = returned_names(basef.node)
    if len(rets) != 2:
        raise AnalysisError('%s: base predicate does not return (values, verdicts)' % basef.where)
    if time == 'discrete':
        lname = rname = None
        for st in basef.node.body:
            if isinstance(st, ast.Assign) and isinstance(st.targets[0], ast.Name):
                k = O.visit_child_index(st.value)
                if k == 0:
                    lname = st.targets[0].id
                if k == 1:
                    rname = st.targets[0].id
        idx = None
        for n in ast.walk(basef.node):
            if isinstance(n, ast.For) and isinstance(n.target, ast.Name):
                idx = n.target.id
        check_verdict_table(rep, basef, 'sat_val', '%s[%s]' % (lname, idx), '%s[%s]' % (rname, idx), None, 'discrete-offline')
    else:
        loopv = None
        for n in ast.walk(basef.node):
            if isinstance(n, ast.For) and isinstance(n.target, ast.Tuple):
                loopv = n.target.elts[1].id           # for i, sample in enumerate(S)
            elif isinstance(n, ast.For) and isinstance(n.target, ast.Name) and loopv is None:
                loopv = n.target.id                     # for sample in S
        if loopv is None:
            raise AnalysisError('%s: no loop over the samples of the difference signal' % basef.where)
        check_verdict_table(rep, basef, 'sat_val', None, None, '%s[1]' % loopv, 'dense-offline')


# ------------------------------------------------------------------------------------------------- online operations
SEMANTICS = ('STANDARD', 'OUTPUT_ROBUSTNESS', 'INPUT_ROBUSTNESS', 'INPUT_VACUITY', 'OUTPUT_VACUITY')


class _Unknown(Exception):
    pass


def _truth(e, world, env):
    """truth value of a condition in a world {'sem': X, 'in_vars': empty?, 'out_vars': empty?}; locals bound once to such conditions are
    followed.  Atoms: self.semantics == / != / is Semantics.X, self.semantics in (..), truthiness / len() of self.in_vars, self.out_vars"""
    if isinstance(e, ast.BoolOp):
        vals = [_truth(v, world, env) for v in e.values]
        return all(vals) if isinstance(e.op, ast.And) else any(vals)
    if isinstance(e, ast.UnaryOp) and isinstance(e.op, ast.Not):
        return not _truth(e.operand, world, env)
    if isinstance(e, ast.Name) and e.id in env:
        return _truth(env[e.id], world, env)
    if isinstance(e, ast.Constant) and isinstance(e.value, bool):
        return e.value
    if isinstance(e, ast.Attribute) and isinstance(e.value, ast.Name) and e.value.id == 'self' and e.attr in ('in_vars', 'out_vars'):
        return not world[e.attr]
    if isinstance(e, ast.Call) and isinstance(e.func, ast.Name) and e.func.id == 'bool' and len(e.args) == 1:
        return _truth(e.args[0], world, env)
    if isinstance(e, ast.Compare) and len(e.ops) == 1:
        l, op, r = e.left, e.ops[0], e.comparators[0]

        def sem_of(x):
            if isinstance(x, ast.Attribute) and ast.unparse(x.value) == 'Semantics' and x.attr in SEMANTICS:
                return x.attr
            return None
        is_sem = lambda x: isinstance(x, ast.Attribute) and isinstance(x.value, ast.Name) and x.value.id == 'self' and x.attr == 'semantics'
        if is_sem(l) and sem_of(r) and isinstance(op, (ast.Eq, ast.Is)):
            return world['sem'] == sem_of(r)
        if is_sem(l) and sem_of(r) and isinstance(op, (ast.NotEq, ast.IsNot)):
            return world['sem'] != sem_of(r)
        if is_sem(r) and sem_of(l) and isinstance(op, (ast.Eq, ast.Is)):
            return world['sem'] == sem_of(l)
        if is_sem(l) and isinstance(op, (ast.In, ast.NotIn)) and isinstance(r, (ast.Tuple, ast.List, ast.Set)) and all(sem_of(x) for x in r.elts):
            inside = world['sem'] in [sem_of(x) for x in r.elts]
            return inside if isinstance(op, ast.In) else not inside
        # len(self.x) == 0 / > 0 / self.x == []
        def var_of(x):
            if isinstance(x, ast.Call) and isinstance(x.func, ast.Name) and x.func.id == 'len' and len(x.args) == 1:
                x = x.args[0]
                if isinstance(x, ast.Attribute) and isinstance(x.value, ast.Name) and x.value.id == 'self' and x.attr in ('in_vars', 'out_vars'):
                    return x.attr
            return None
        v = var_of(l)
        if v and isinstance(r, ast.Constant) and r.value == 0:
            if isinstance(op, ast.Eq):
                return world[v]
            if isinstance(op, (ast.Gt, ast.NotEq)):
                return not world[v]
        if v and isinstance(r, ast.Constant) and r.value == 1 and isinstance(op, ast.GtE):
            return not world[v]
        if isinstance(l, ast.Attribute) and isinstance(l.value, ast.Name) and l.value.id == 'self' and l.attr in ('in_vars', 'out_vars') and isinstance(r, ast.List) and not r.elts:
            if isinstance(op, ast.Eq):
                return world[l.attr]
            if isinstance(op, ast.NotEq):
                return not world[l.attr]
    raise _Unknown(ast.unparse(e)[:60])


def _worlds():
    for sem in SEMANTICS:
        for i in (True, False):
            for o in (True, False):
                yield {'sem': sem, 'in_vars': i, 'out_vars': o}


def _reference_arm(w):
    """the interface-aware table: which substitution applies to a predicate in this world"""
    if (w['sem'] == 'OUTPUT_ROBUSTNESS' and w['out_vars']) or (w['sem'] == 'INPUT_ROBUSTNESS' and w['in_vars']):
        return 'inf'
    if (w['sem'] == 'INPUT_VACUITY' and w['in_vars']) or (w['sem'] == 'OUTPUT_VACUITY' and w['out_vars']):
        return 'zero'
    return 'default'


def _show_world(w):
    return '%s, %s input variables, %s output variables' % (w['sem'], 'no' if w['in_vars'] else 'some', 'no' if w['out_vars'] else 'some')


def _sem_conditions(test):
    """(Semantics.X and not self.attr) or (...) -> set of (X, attr)"""
    out = set()
    parts = test.values if isinstance(test, ast.BoolOp) and isinstance(test.op, ast.Or) else [test]
    for p in parts:
        if not (isinstance(p, ast.BoolOp) and isinstance(p.op, ast.And) and len(p.values) == 2):
            return None
        sem = attr = None
        for v in p.values:
            if isinstance(v, ast.Compare) and isinstance(v.ops[0], ast.Eq) and isinstance(v.comparators[0], ast.Attribute) \
                    and ast.unparse(v.comparators[0].value) == 'Semantics':
                sem = v.comparators[0].attr
            if isinstance(v, ast.UnaryOp) and isinstance(v.op, ast.Not) and isinstance(v.operand, ast.Attribute) and ast.unparse(v.operand.value) == 'self':
                attr = v.operand.attr
        if sem is None or attr is None:
            return None
        out.add((sem, attr))
    return out


def check_online_operation(ix, rep, opc, time):
    f = opc.methods.get('update')
    if f is None:
        raise AnalysisError('%s has no update' % opc.qual)
    rep.analysed(f)
    rep.unit(f.module.rel)
    slot = '%s-online' % time
    if time == 'dense':
        check_pair_source(rep, f, '%s.update' % opc.name, slot, ix=ix)
    # update() is executed over the 20 worlds (5 semantics x input variables empty? x output variables empty?): tests on the semantics and on the
    # two variable lists are decided by the world (through locals bound to conditions), tests on the data are followed both ways.  Whatever the
    # code looks like -- one if/elif chain, flags and an early return, a test inside the sample loop -- what a world substitutes has to be the
    # entry of the interface-aware table.
    base_names = set()
    for st in ast.walk(f.node):
        if isinstance(st, ast.Assign) and isinstance(st.value, ast.Call) and isinstance(st.value.func, ast.Attribute) and st.value.func.attr == 'update' \
                and isinstance(st.targets[0], ast.Name):
            base_names.add(st.targets[0].id)

    def run(stmts, w, env, eff):
        """-> returned expression (or None when the block falls through)"""
        for st in stmts:
            if isinstance(st, ast.Expr) and isinstance(st.value, ast.Constant):
                continue
            if isinstance(st, ast.Return):
                if st.value is not None and not isinstance(st.value, ast.Name):
                    eff.append(ast.copy_location(ast.Assign(targets=[ast.Name(id='__returned', ctx=ast.Store())], value=st.value), st))
                return ('ret', st.value)
            if isinstance(st, ast.Assign) and len(st.targets) == 1 and isinstance(st.targets[0], ast.Name):
                env[st.targets[0].id] = st.value
                eff.append(st)
                continue
            if isinstance(st, ast.If):
                try:
                    t = _truth(st.test, w, env)
                except _Unknown:
                    t = None
                if t is None:
                    # a test on the data: both arms belong to what this world does
                    eff.append(st)
                    continue
                r = run(st.body if t else st.orelse, w, env, eff)
                if r is not None:
                    return r
                continue
            if isinstance(st, (ast.For, ast.While)):
                r = run(st.body, w, env, eff)
                if r is not None:
                    raise AnalysisError('%s: return inside a loop of update()' % f.where)
                continue
            eff.append(st)
        return None

    def outcome(w):
        env, eff = {}, []
        r = run(f.node.body, w, env, eff)
        sk = subst_kind(eff)
        if sk is not None:
            return sk[0], sk, eff
        ret = r[1] if r is not None else None
        if ret is not None and _is_zero(ret):
            return 'zero', None, eff
        if isinstance(ret, ast.Name):
            if isinstance(env.get(ret.id), ast.Name) and env[ret.id].id in base_names:
                return 'default', None, eff
            if ret.id in base_names and isinstance(env.get(ret.id), ast.Call):
                return 'default', None, eff
            if ret.id in env and _is_zero(env[ret.id]):
                return 'zero', None, eff
        return 'other', None, eff
    seen = {}
    wrong = {}
    try:
        for w in _worlds():
            taken, sk, eff = outcome(w)
            if taken in ('inf', 'zero', 'inverted') and taken not in seen:
                line = min([getattr(x, 'lineno', f.node.lineno) for x in eff[-3:]] or [f.node.lineno])
                seen[taken] = (None, sk, ast.copy_location(ast.Pass(), ast.Pass(lineno=line, col_offset=0)))
            want = _reference_arm(w)
            if taken != want and not (taken == 'inverted' and want == 'inf'):
                wrong.setdefault(want, []).append((w, taken))
    except _Unknown as e:
        raise AnalysisError('%s: semantics condition `%s` not understood' % (f.where, e))
    for kind in ('inf', 'zero', 'default'):
        label = {'inf': '+-inf by verdict', 'zero': '0', 'default': 'nothing (the standard robustness)'}[kind]
        if kind in wrong:
            w, taken = wrong[kind][0]
            rep.fail('R-IATABLE', f.module.rel, '%s.update' % opc.name, '%s:%s' % (slot, kind), 'for a predicate with (%s) the table substitutes %s, update() substitutes %s'
                     ' (%d of 20 cases differ)' % (_show_world(w), label, {'inf': '+-inf', 'zero': '0', 'default': 'nothing', 'other': 'something else', None: 'nothing'}.get(taken, taken),
                                                  sum(len(v) for v in wrong.values())), (seen[kind][2].lineno if kind in seen else f.node.lineno))
        else:
            rep.ok('R-IATABLE', f.module.rel, '%s.update' % opc.name, '%s:%s' % (slot, kind), 'substituted in exactly the worlds of the table (20 worlds executed)',
                   (seen[kind][2].lineno if kind in seen else f.node.lineno))
    if 'inverted' in seen:
        rep.fail('R-IATABLE', f.module.rel, '%s.update' % opc.name, slot + ':sign', 'a holding insensitive predicate is mapped to -inf', f.node.lineno)
    if 'default' not in wrong:
        rep.ok('R-IATABLE', f.module.rel, '%s.update' % opc.name, slot + ':sensitive', 'a sensitive predicate keeps the robustness of the standard operation', f.node.lineno)
    # shape of the verdict
    sat = ix.resolve_method(opc, 'sat')
    rep.analysed(sat)
    rn = returned_names(sat.node)
    shape = list_elem_shape(sat.node, rn[0]) if rn and rn[0] else None
    if shape is None:
        shape = 'scalar'  # discrete: returns the Boolean itself
    if 'inf' in seen and seen['inf'][1] and seen['inf'][1][0] == 'inf':
        tested = ast.unparse(seen['inf'][1][1]).replace(' ', '')
        # `for stamp, verdict in <verdict list>`: the second name of the unpacking is the Boolean
        unpacked = {n.target.elts[1].id for n in ast.walk(f.node) if isinstance(n, ast.For) and isinstance(n.target, ast.Tuple) and len(n.target.elts) == 2
                    and isinstance(n.target.elts[1], ast.Name) and not (isinstance(n.iter, ast.Call) and getattr(n.iter.func, 'id', None) == 'enumerate')}
        if (shape == 'pair' and (tested.endswith('[1]') or tested in unpacked)) or (shape == 'scalar' and not tested.endswith(']')):
            rep.ok('R-SHAPE', f.module.rel, '%s.update' % opc.name, slot + ':verdict-shape', 'tests the Boolean verdict (%s)' % shape, f.node.lineno)
        else:
            rep.fail('R-SHAPE', f.module.rel, '%s.update' % opc.name, slot + ':verdict-shape', 'sat() yields %s values but update tests `%s == True`' % (shape, tested), f.node.lineno)
    # constructor stores its parameters under the names update() reads
    init = opc.methods.get('__init__')
    params = [a.arg for a in init.node.args.args[1:]]
    stores = {}
    for st in init.node.body:
        if isinstance(st, ast.Assign) and isinstance(st.targets[0], ast.Attribute) and isinstance(st.value, ast.Name):
            stores[st.targets[0].attr] = st.value.id
    for a in ('semantics', 'in_vars', 'out_vars'):
        if stores.get(a) == a and a in params:
            rep.ok('R-IATABLE', init.module.rel, '%s.__init__' % opc.name, '%s:ctor:%s' % (slot, a), 'stored under its own name', init.node.lineno)
        else:
            rep.fail('R-IATABLE', init.module.rel, '%s.__init__' % opc.name, '%s:ctor:%s' % (slot, a), 'constructor stores `%s` in self.%s' % (stores.get(a), a), init.node.lineno)
    return params, sat


def check_online_visitor(ix, rep, mon, params):
    f = ix.resolve_method(mon.visitor, 'visitPredicate')
    rep.analysed(f)
    rep.unit(f.module.rel)
    slot = '%s/%s' % (mon.kind, mon.sem)
    nodep = f.node.args.args[1].arg
    call = None
    for st in exh._construct_sites(f):
        if isinstance(st.value, ast.Call):
            call = st.value
    if call is None:
        raise AnalysisError('%s: no operator construction' % f.where)
    args = dict(zip(params, [ast.unparse(a) for a in call.args]))
    for kw in call.keywords:
        args[kw.arg] = ast.unparse(kw.value)
    # `self.X` with X a class-level constant (never assigned in a method): the value the concrete visitor class gives it
    import re as _re
    for k, txt in list(args.items()):
        m_ = _re.match(r'^(self|type\(self\)|self\.__class__)\.(\w+)$', txt or '')
        if m_:
            attr = m_.group(2)
            assigned_in_method = False
            val = None
            for c in ix.mro(mon.visitor):
                if not hasattr(c, 'node'):
                    continue
                for st in c.node.body:
                    if isinstance(st, ast.FunctionDef) and any(isinstance(n, ast.Attribute) and isinstance(n.ctx, ast.Store) and n.attr == attr for n in ast.walk(st)):
                        assigned_in_method = True
                    if val is None and isinstance(st, ast.Assign) and any(isinstance(t, ast.Name) and t.id == attr for t in st.targets):
                        val = ast.unparse(st.value)
                if val is not None:
                    break
            if val is not None and not assigned_in_method:
                args[k] = val
    want = {'semantics': 'Semantics.' + SEM_ENUM[mon.sem], 'in_vars': nodep + '.in_vars', 'out_vars': nodep + '.out_vars'}
    for k, v in want.items():
        if args.get(k) == v:
            rep.ok('R-IATABLE', f.module.rel, f.qual, '%s:%s' % (slot, k), v, call.lineno)
        else:
            rep.fail('R-IATABLE', f.module.rel, f.qual, '%s:%s' % (slot, k), 'the %s visitor passes %s=%s, expected %s' % (mon.sem, k, args.get(k), v), call.lineno)


# ------------------------------------------------------------------------------------------------- factories
def check_factories(ix, rep):
    n = 0
    for modn, fn in (('rtamt.spec.stl.discrete_time.specification', 'StlDiscreteTimeSpecification'),
                     ('rtamt.spec.stl.dense_time.specification', 'StlDenseTimeSpecification')):
        m = ix.module(modn)
        f = m.functions.get(fn)
        if f is None:
            raise AnalysisError('%s.%s vanished' % (modn, fn))
        rep.analysed(f)
        rep.unit(m.rel)
        chains_ = [s for s in f.node.body if isinstance(s, ast.If)]
        if not chains_:
            raise AnalysisError('%s: the interpreters are not selected by an if/elif chain over Semantics (a table or another form is not interpreted)' % f.where)
        chain = chains_[0]
        node = chain
        seen = set()
        while True:
            t = node.test
            sem = None
            for c in ast.walk(t):
                if isinstance(c, ast.Compare) and isinstance(c.comparators[0], ast.Attribute) and ast.unparse(c.comparators[0].value) == 'Semantics':
                    sem = c.comparators[0].attr
            call = None
            for s in node.body:
                if isinstance(s, ast.Assign) and isinstance(s.value, ast.Call):
                    call = s.value
            if sem and call and len(call.args) >= 3:
                off, on = [ast.unparse(a.func) if isinstance(a, ast.Call) else ast.unparse(a) for a in call.args[1:3]]
                camel = ''.join(p.capitalize() for p in sem.split('_'))
                seen.add(sem)
                n += 1
                slot = '%s:%s' % (fn, sem)
                if sem == 'STANDARD':
                    ok = 'IAStl' not in off and 'IAStl' not in on and 'Offline' in off and 'Online' in on
                else:
                    ok = camel in off and camel in on and 'Offline' in off and 'Online' in on
                if ok:
                    rep.ok('R-IATABLE', m.rel, fn, slot, '%s / %s' % (off, on), node.lineno)
                else:
                    rep.fail('R-IATABLE', m.rel, fn, slot, 'Semantics.%s builds offline `%s` and online `%s`: both must be the %s interpreters'
                             % (sem, off, on, camel if sem != 'STANDARD' else 'standard'), node.lineno)
            if len(node.orelse) == 1 and isinstance(node.orelse[0], ast.If):
                node = node.orelse[0]
            else:
                break
        if not seen:
            raise AnalysisError('%s: the interpreters are not selected by an if/elif chain over Semantics (a table or another form is not interpreted)' % f.where)
        if seen != {'STANDARD', 'OUTPUT_ROBUSTNESS', 'INPUT_ROBUSTNESS', 'OUTPUT_VACUITY', 'INPUT_VACUITY'}:
            rep.fail('R-IATABLE', m.rel, fn, fn + ':branches', 'factory handles %s' % sorted(seen), f.node.lineno)
    return n


# ------------------------------------------------------------------------------------------------- in_vars / out_vars
def _union_terms(e, attr):
    """children whose `<child>.<attr>` the expression unites, for expressions that again yield a *list* (every other node concatenates its
    children's lists with `+`: a set or a tuple there raises TypeError in the parent).  + on lists, | / union() on sets, conversions between
    them, copies.  None as soon as an operator can drop a variable (^, &, -, a filter) or the result is no list."""
    r = _union_typed(e, attr)
    if r is None or r[1] != 'list':
        return None
    return r[0]


def _union_typed(e, attr):
    if isinstance(e, ast.Attribute) and e.attr == attr and isinstance(e.value, ast.Name):
        return {e.value.id}, 'list'
    if isinstance(e, ast.BinOp) and isinstance(e.op, (ast.Add, ast.BitOr)):
        l, r = _union_typed(e.left, attr), _union_typed(e.right, attr)
        want = 'list' if isinstance(e.op, ast.Add) else 'set'
        if l is None or r is None or l[1] != want or r[1] != want:
            return None
        return l[0] | r[0], want
    if isinstance(e, ast.Call) and isinstance(e.func, ast.Name) and len(e.args) == 1 and not e.keywords:
        inner = _union_typed(e.args[0], attr)
        if inner is None:
            return None
        if e.func.id in ('list', 'sorted'):
            return inner[0], 'list'
        if e.func.id in ('set', 'frozenset'):
            return inner[0], 'set'
        return None
    if isinstance(e, ast.Call) and isinstance(e.func, ast.Attribute) and e.func.attr == 'union':
        parts = [_union_typed(e.func.value, attr)] + [_union_typed(a, attr) for a in e.args]
        if any(p is None for p in parts) or parts[0][1] != 'set':
            return None
        return set().union(*[p[0] for p in parts]), 'set'
    if isinstance(e, ast.Call) and isinstance(e.func, ast.Attribute) and e.func.attr == 'copy' and not e.args:
        return _union_typed(e.func.value, attr)
    if isinstance(e, ast.Subscript) and isinstance(e.slice, ast.Slice) and e.slice.lower is None and e.slice.upper is None and e.slice.step is None:
        return _union_typed(e.value, attr)
    if isinstance(e, ast.List) and not e.elts:
        return set(), 'list'
    return None


def _variable_leaf_ok(fnode):
    """Variable.__init__ under iotype == 'input' and under any other io type: the variable is listed in in_vars in the first world only and in
    out_vars in the second only"""
    params = [a.arg for a in fnode.args.args[1:]]
    if not params:
        return False
    var = params[0]
    io = next((p for p in params if 'io' in p.lower()), None)
    if io is None:
        return False

    def truth(t, world):
        if isinstance(t, ast.UnaryOp) and isinstance(t.op, ast.Not):
            v = truth(t.operand, world)
            return None if v is None else not v
        if isinstance(t, ast.Compare) and len(t.ops) == 1:
            l, r = t.left, t.comparators[0]
            if isinstance(r, ast.Name) and r.id == io:
                l, r = r, l
            if isinstance(l, ast.Name) and l.id == io:
                if isinstance(r, ast.Constant) and isinstance(t.ops[0], (ast.Eq, ast.NotEq)):
                    v = (world == r.value)
                    return v if isinstance(t.ops[0], ast.Eq) else not v
                if isinstance(r, (ast.Tuple, ast.List, ast.Set)) and isinstance(t.ops[0], (ast.In, ast.NotIn)) and all(isinstance(x, ast.Constant) for x in r.elts):
                    v = world in [x.value for x in r.elts]
                    return v if isinstance(t.ops[0], ast.In) else not v
        return None

    def run(stmts, world, got):
        for st in stmts:
            if isinstance(st, ast.If):
                v = truth(st.test, world)
                if v is None:
                    run(st.body, world, got)
                    run(st.orelse, world, got)
                else:
                    run(st.body if v else st.orelse, world, got)
            elif isinstance(st, ast.Assign) and len(st.targets) == 1 and isinstance(st.targets[0], ast.Attribute) and isinstance(st.targets[0].value, ast.Name) \
                    and st.targets[0].value.id == 'self' and st.targets[0].attr in ('in_vars', 'out_vars'):
                v = st.value
                holds = isinstance(v, (ast.List, ast.Tuple)) and len(v.elts) == 1 and isinstance(v.elts[0], (ast.Name, ast.Attribute)) \
                    and ast.unparse(v.elts[0]) in (var, 'self.' + var)
                empty = isinstance(v, (ast.List, ast.Tuple)) and not v.elts
                got[st.targets[0].attr] = 'var' if holds else 'empty' if empty else 'other'
            elif isinstance(st, ast.Assign) and len(st.targets) == 1 and isinstance(st.targets[0], ast.Name):
                # a local that names one of the two lists: `side = self.in_vars if iotype == 'input' else self.out_vars`
                v = st.value
                if isinstance(v, ast.IfExp):
                    tv = truth(v.test, world)
                    v = v.body if tv else v.orelse if tv is False else None
                if isinstance(v, ast.Attribute) and isinstance(v.value, ast.Name) and v.value.id == 'self' and v.attr in ('in_vars', 'out_vars'):
                    alias[st.targets[0].id] = v.attr
            elif isinstance(st, ast.Expr) and isinstance(st.value, ast.Call) and isinstance(st.value.func, ast.Attribute) and st.value.func.attr == 'append' and len(st.value.args) == 1:
                # in-place: the base constructor left both lists empty
                tgt = st.value.func.value
                which = alias.get(tgt.id) if isinstance(tgt, ast.Name) else (tgt.attr if isinstance(tgt, ast.Attribute) and isinstance(tgt.value, ast.Name) and tgt.value.id == 'self' else None)
                if which in ('in_vars', 'out_vars') and ast.unparse(st.value.args[0]) in (var, 'self.' + var) and got.get(which, 'empty') == 'empty':
                    got[which] = 'var'
    alias = {}
    res = {}
    for world in ('input', 'output'):
        got = {}
        alias.clear()
        run(fnode.body, world, got)
        res[world] = got
    return res['input'].get('in_vars') == 'var' and res['input'].get('out_vars', 'empty') == 'empty' \
        and res['output'].get('out_vars') == 'var' and res['output'].get('in_vars', 'empty') == 'empty'


def check_iovars(ix, rep):
    binary = ix.find_class('rtamt.syntax.node.binary_node', 'BinaryNode')
    unary = ix.find_class('rtamt.syntax.node.unary_node', 'UnaryNode')
    n = 0
    for nc in D.node_classes(ix):
        init = ix.resolve_method(nc, '__init__')
        rep.analysed(init)
        rep.unit(init.module.rel)
        params = [a.arg for a in init.node.args.args[1:]]
        k = 2 if ix.is_subclass(nc, binary) else 1 if ix.is_subclass(nc, unary) else 0
        if k == 0:
            if nc.name == 'Variable':
                ok = _variable_leaf_ok(init.node)
                (rep.ok if ok else rep.fail)('R-IOVARS', nc.module.rel, nc.name + '.__init__', 'leaf', 'in_vars/out_vars from the io type' if ok else
                                             'Variable does not set in_vars/out_vars from its io type', init.node.lineno)
                n += 1
            continue
        kids = params[:k]
        n += 1
        for attr in ('in_vars', 'out_vars'):
            got = None
            for st in init.node.body:
                if isinstance(st, ast.Assign) and isinstance(st.targets[0], ast.Attribute) and st.targets[0].attr == attr \
                        and isinstance(st.targets[0].value, ast.Name) and st.targets[0].value.id == 'self':
                    got = ast.unparse(st.value).replace(' ', '')
            want = '+'.join('%s.%s' % (c, attr) for c in kids)
            gexpr = None
            for st in init.node.body:
                if isinstance(st, ast.Assign) and isinstance(st.targets[0], ast.Attribute) and st.targets[0].attr == attr \
                        and isinstance(st.targets[0].value, ast.Name) and st.targets[0].value.id == 'self':
                    gexpr = st.value
            if got == want or (gexpr is not None and _union_terms(gexpr, attr) == set(kids)):
                rep.ok('R-IOVARS', nc.module.rel, nc.name + '.__init__', attr, want, init.node.lineno)
            else:
                rep.fail('R-IOVARS', nc.module.rel, nc.name + '.__init__', attr,
                         '%s sets %s = %s; it must be the concatenation over all children (%s), otherwise every predicate above it looks insensitive'
                         % (nc.name, attr, got if got else '<nothing: stays []>', want), init.node.lineno)
    return n


def check_standard_taint(ix, rep):
    """nothing reachable from the four standard interpreters reads the io declarations"""
    forbidden = ('in_vars', 'out_vars', 'io_type', 'var_io_dict')
    n = 0
    for mon in M.standard_monitors(ix):
        classes = [c for c in ix.mro(mon.cls) if isinstance(c, ClassInfo)]
        if mon.mode == 'online':
            classes += list(set(exh.constructed_operations(ix, mon).values()))
            extra = []
            for c in classes:
                extra += [x for x in ix.mro(c) if isinstance(x, ClassInfo)]
            classes = list({id(c): c for c in classes + extra}.values())
        hits = []
        for c in classes:
            for f in c.methods.values():
                n += 1
                rep.analysed(f)
                for a in ast.walk(f.node):
                    if isinstance(a, ast.Attribute) and a.attr in forbidden:
                        hits.append((f, a))
        if hits:
            for f, a in hits[:5]:
                rep.fail('R-TAINT', f.module.rel, f.qual, '%s:%s' % (mon.kind, a.attr), 'the standard %s monitor reads `%s`: input/output declarations '
                         'would influence Semantics.STANDARD' % (mon.kind, ast.unparse(a)), a.lineno)
        else:
            rep.ok('R-TAINT', mon.cls.module.rel, mon.cls.name, mon.kind + ':io', 'no method on the MRO or in any operation reads in_vars/out_vars/io_type/var_io_dict', mon.cls.node.lineno)
    # helper modules of the dense offline visitor
    for modn in ('rtamt.semantics.stl.dense_time.offline.intersection', 'rtamt.semantics.stl.dense_time.online.intersection',
                 'rtamt.semantics.stl.dense_time.offline.ast_visitor'):
        m = ix.module(modn)
        for f in m.functions.values():
            n += 1
            for a in ast.walk(f.node):
                if isinstance(a, ast.Attribute) and a.attr in forbidden:
                    rep.fail('R-TAINT', m.rel, f.qual, 'helper:%s' % a.attr, 'helper reads `%s`' % ast.unparse(a), a.lineno)
    return n


def _co_built(ix, f, a, b):
    """a and b are unpacked from one call whose callee appends to both result lists in the same blocks with the same time expression"""
    if ix is None:
        return False
    for st in ast.walk(f.node):
        if isinstance(st, ast.Assign) and isinstance(st.targets[0], ast.Tuple) and isinstance(st.value, ast.Call):
            names = [e.id for e in st.targets[0].elts if isinstance(e, ast.Name)]
            if a in names and b in names and len(names) == len(st.targets[0].elts):
                g = None
                if f.owner is not None:
                    g = D._delegation(ix, f.owner, f.owner, st.value)
                if g is None:
                    ent = ix.resolve_expr(f.module, st.value.func) if isinstance(st.value.func, (ast.Name, ast.Attribute)) else None
                    g = ent if hasattr(ent, 'node') and isinstance(getattr(ent, 'node', None), ast.FunctionDef) else None
                if g is None:
                    return False
                rets = [r for r in ast.walk(g.node) if isinstance(r, ast.Return) and isinstance(r.value, ast.Tuple)]
                if len(rets) != 1:
                    return False
                rn = [e.id for e in rets[0].value.elts if isinstance(e, ast.Name)]
                if len(rn) != len(names):
                    return False
                la, lb = rn[names.index(a)], rn[names.index(b)]

                def appends(block, nm):
                    return [c for s2 in block if isinstance(s2, ast.Expr) and isinstance(s2.value, ast.Call) for c in [s2.value]
                            if isinstance(c.func, ast.Attribute) and c.func.attr == 'append' and isinstance(c.func.value, ast.Name) and c.func.value.id == nm]
                total_a = total_b = 0
                for blk_owner in ast.walk(g.node):
                    for field in ('body', 'orelse'):
                        blk = getattr(blk_owner, field, None)
                        if isinstance(blk, list) and blk and isinstance(blk[0], ast.stmt):
                            xa, xb = appends(blk, la), appends(blk, lb)
                            total_a += len(xa)
                            total_b += len(xb)
                            if len(xa) != len(xb):
                                return False
                            for ca, cb in zip(xa, xb):
                                ea, eb = ca.args[0], cb.args[0]
                                if not (isinstance(ea, ast.List) and isinstance(eb, ast.List) and ea.elts and eb.elts and ast.unparse(ea.elts[0]) == ast.unparse(eb.elts[0])):
                                    return False
                return total_a > 0 and total_a == total_b
    return False


def check_pair_source(rep, f, sym, slot, rule='R-SHAPE', ix=None):
    """every [time, value] sample built inside a loop over a list L takes its time-stamp from the element of L the loop is at:
    two lists derived from the same operands need not have the same length (verdicts and values are thinned independently)"""
    n = 0
    for lp in ast.walk(f.node):
        if not isinstance(lp, ast.For):
            continue
        it = lp.iter
        idx = elem = lst = None
        if isinstance(it, ast.Call) and isinstance(it.func, ast.Name) and it.func.id == 'range' and len(it.args) == 1 \
                and isinstance(it.args[0], ast.Call) and getattr(it.args[0].func, 'id', None) == 'len' and isinstance(it.args[0].args[0], ast.Name) and isinstance(lp.target, ast.Name):
            idx, lst = lp.target.id, it.args[0].args[0].id
        elif isinstance(it, ast.Call) and isinstance(it.func, ast.Name) and it.func.id == 'enumerate' and isinstance(it.args[0], ast.Name) and isinstance(lp.target, ast.Tuple) \
                and len(lp.target.elts) == 2 and all(isinstance(e, ast.Name) for e in lp.target.elts):
            idx, elem, lst = lp.target.elts[0].id, lp.target.elts[1].id, it.args[0].id
        elif isinstance(it, ast.Name) and isinstance(lp.target, ast.Name):
            elem, lst = lp.target.id, it.id
        else:
            continue
        for c in ast.walk(lp):
            if isinstance(c, ast.Call) and isinstance(c.func, ast.Attribute) and c.func.attr == 'append' and c.args and isinstance(c.args[0], ast.List) and len(c.args[0].elts) == 2:
                t = c.args[0].elts[0]
                src = None
                if isinstance(t, ast.Subscript) and isinstance(t.slice, ast.Constant) and t.slice.value == 0:
                    b = t.value
                    if isinstance(b, ast.Subscript) and isinstance(b.value, ast.Name) and isinstance(b.slice, ast.Name) and b.slice.id == idx:
                        src = b.value.id
                    elif isinstance(b, ast.Name) and b.id == elem:
                        src = lst
                if src is None:
                    continue
                n += 1
                if src == lst:
                    rep.ok(rule, f.module.rel, sym, '%s:time-of:%s' % (slot, lst), 'the time-stamp comes from the element of `%s` the loop is at' % lst, c.lineno)
                elif _co_built(ix, f, src, lst):
                    rep.ok(rule, f.module.rel, sym, '%s:time-of:%s' % (slot, lst), '`%s` and `%s` are built together, sample by sample, by the same call' % (src, lst), c.lineno)
                else:
                    rep.fail(rule, f.module.rel, sym, '%s:time-of:%s' % (slot, lst), 'the loop runs over `%s` but the emitted sample takes its time-stamp from `%s[%s]`: the two lists are '
                             'thinned independently (equal consecutive values are dropped) and need not have the same length, so verdicts get the time-stamps of other samples'
                             % (lst, src, idx), c.lineno)
    return n
