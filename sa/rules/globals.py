"""R-GLOBAL (no function writes module-/class-level mutable state; no mutable default argument) and
R-SETITER (no order-sensitive iteration over a set; no ordering by hash()/id())."""
import ast

from sa.effects import MUTATORS

IMMUTABLE_CALLS = ('int', 'float', 'str', 'bool', 'tuple', 'frozenset', 'bytes', 'complex', 'Fraction', 'Decimal')
MUTABLE_CALLS = ('list', 'dict', 'set', 'deque', 'defaultdict', 'OrderedDict', 'bytearray')
ORDER_FREE_CONSUMERS = ('sorted', 'len', 'set', 'frozenset', 'sum', 'min', 'max', 'any', 'all')


def _is_mutable_expr(e):
    if isinstance(e, (ast.List, ast.Dict, ast.Set, ast.ListComp, ast.DictComp, ast.SetComp)):
        return True
    if isinstance(e, ast.Call):
        f = e.func
        name = f.id if isinstance(f, ast.Name) else (f.attr if isinstance(f, ast.Attribute) else None)
        return name in MUTABLE_CALLS
    return False


def scan_module_global(tree, rel):
    """-> [(slot, line, message, symbol)]"""
    out = []
    mod_mut = {}
    mod_names = set()
    for st in tree.body:
        if isinstance(st, ast.Assign):
            for t in st.targets:
                if isinstance(t, ast.Name):
                    mod_names.add(t.id)
                    if _is_mutable_expr(st.value):
                        mod_mut[t.id] = st
    funcs = []
    for n in ast.walk(tree):
        if isinstance(n, (ast.FunctionDef, ast.AsyncFunctionDef)):
            funcs.append(n)
    for fn in funcs:
        # mutable defaults
        for d in list(fn.args.defaults) + [k for k in fn.args.kw_defaults if k is not None]:
            if _is_mutable_expr(d):
                out.append(('default:%s' % fn.name, fn.lineno, 'mutable default argument `%s` is shared by all calls' % ast.unparse(d), fn.name))
            elif isinstance(d, ast.Call):
                # an object constructed once, when the function is defined, and handed to every call that omits the argument
                f_ = d.func
                cname = f_.id if isinstance(f_, ast.Name) else (f_.attr if isinstance(f_, ast.Attribute) else None)
                if cname not in IMMUTABLE_CALLS:
                    out.append(('default:%s' % fn.name, fn.lineno, 'default argument `%s` is one object built when the function is defined and shared by every call that omits the '
                                'argument: monitors created that way share their state' % ast.unparse(d), fn.name))
        # a memoising decorator turns "returns a new object" into "returns the one object built at the first call": a hidden module-level singleton
        for dec in fn.decorator_list:
            dn = ast.unparse(dec.func if isinstance(dec, ast.Call) else dec)
            if dn.split('.')[-1] in ('lru_cache', 'cache', 'cached', 'memoize', 'singleton'):
                rets = [r.value for r in ast.walk(fn) if isinstance(r, ast.Return) and r.value is not None]
                defs_ = {}
                for a_ in ast.walk(fn):
                    if isinstance(a_, ast.Assign) and len(a_.targets) == 1 and isinstance(a_.targets[0], ast.Name):
                        defs_[a_.targets[0].id] = a_.value
                builds = False
                for r in rets:
                    v = defs_.get(r.id, r) if isinstance(r, ast.Name) else r
                    if _is_mutable_expr(v):
                        builds = True
                    elif isinstance(v, ast.Call):
                        f_ = v.func
                        cname = f_.id if isinstance(f_, ast.Name) else (f_.attr if isinstance(f_, ast.Attribute) else None)
                        if cname not in IMMUTABLE_CALLS and not (cname or '').endswith('_factory'):
                            builds = True        # X(...) / factory(V)(): an object; a bare factory(V) returns a class and may be cached
                if builds:
                    out.append(('cached:%s' % fn.name, fn.lineno, '`@%s` on a function that builds and returns an object: every caller gets the same object (one interpreter for all '
                                'specifications created through it -- the second specification\'s set_ast() replaces the first one\'s tree)' % dn, fn.name))
        local = {a.arg for a in fn.args.args + fn.args.kwonlyargs}
        for n in ast.walk(fn):
            if isinstance(n, ast.Name) and isinstance(n.ctx, ast.Store):
                local.add(n.id)
        globs = set()
        for n in ast.walk(fn):
            if isinstance(n, ast.Global):
                globs |= set(n.names)
        for g in sorted(globs):
            if any(isinstance(n, ast.Name) and isinstance(n.ctx, ast.Store) and n.id == g for n in ast.walk(fn)):
                out.append(('global:%s' % g, fn.lineno, 'function rebinds module-level name `%s` (state shared by all specifications)' % g, fn.name))
        for n in ast.walk(fn):
            tgt = None
            if isinstance(n, ast.Subscript) and isinstance(n.ctx, (ast.Store, ast.Del)) and isinstance(n.value, ast.Name):
                tgt = n.value.id
            if isinstance(n, ast.Call) and isinstance(n.func, ast.Attribute) and n.func.attr in MUTATORS and isinstance(n.func.value, ast.Name):
                tgt = n.func.value.id
            if isinstance(n, ast.AugAssign) and isinstance(n.target, ast.Name) and n.target.id in globs:
                tgt = n.target.id
            if tgt and tgt in mod_mut and (tgt not in local or tgt in globs):
                out.append(('modstate:%s' % tgt, n.lineno, 'function mutates module-level object `%s`' % tgt, fn.name))
    # an object constructed in a class body is one object for all instances: used through self it is state shared by every operator / monitor of that class
    for cd in [n for n in ast.walk(tree) if isinstance(n, ast.ClassDef)]:
        for st in cd.body:
            if isinstance(st, ast.Assign) and isinstance(st.value, ast.Call) and not _is_mutable_expr(st.value):
                f_ = st.value.func
                cname = f_.id if isinstance(f_, ast.Name) else (f_.attr if isinstance(f_, ast.Attribute) else None)
                if cname in IMMUTABLE_CALLS or cname in ('property', 'staticmethod', 'classmethod', 'namedtuple', 'TypeVar', 'Enum', 'auto', 'compile', 'getLogger'):
                    continue
                for t in st.targets:
                    if isinstance(t, ast.Name):
                        used = [n for fn in cd.body if isinstance(fn, ast.FunctionDef) for n in ast.walk(fn)
                                if isinstance(n, ast.Attribute) and n.attr == t.id and isinstance(n.value, ast.Name) and n.value.id in ('self', 'cls', cd.name)]
                        assigned = any(isinstance(n, ast.Attribute) and isinstance(n.ctx, ast.Store) and n.attr == t.id and isinstance(n.value, ast.Name) and n.value.id == 'self'
                                       for fn in cd.body if isinstance(fn, ast.FunctionDef) for n in ast.walk(fn))
                        if used and not assigned:
                            out.append(('clsobj:%s.%s' % (cd.name, t.id), st.lineno, 'the class body builds one `%s` object (`%s`) that every instance of %s uses through self: what it remembers '
                                        '(operand buffers, last output) is shared by all operators of that class in the process' % (cname, t.id, cd.name), '%s.%s' % (cd.name, t.id)))
    # class-level mutable attributes mutated through self/cls
    for cd in [n for n in ast.walk(tree) if isinstance(n, ast.ClassDef)]:
        cls_mut = {}
        for st in cd.body:
            if isinstance(st, ast.Assign) and _is_mutable_expr(st.value):
                for t in st.targets:
                    if isinstance(t, ast.Name):
                        cls_mut[t.id] = st
        if not cls_mut:
            continue
        inst_assigned = set()
        for fn in [s for s in cd.body if isinstance(s, ast.FunctionDef)]:
            for n in ast.walk(fn):
                if isinstance(n, ast.Attribute) and isinstance(n.ctx, ast.Store) and isinstance(n.value, ast.Name) and n.value.id == 'self':
                    inst_assigned.add(n.attr)
        for fn in [s for s in cd.body if isinstance(s, ast.FunctionDef)]:
            for n in ast.walk(fn):
                a = None
                if isinstance(n, ast.Subscript) and isinstance(n.ctx, (ast.Store, ast.Del)) and isinstance(n.value, ast.Attribute) \
                        and isinstance(n.value.value, ast.Name) and n.value.value.id in ('self', 'cls', cd.name):
                    a = n.value.attr
                if isinstance(n, ast.Call) and isinstance(n.func, ast.Attribute) and n.func.attr in MUTATORS and isinstance(n.func.value, ast.Attribute) \
                        and isinstance(n.func.value.value, ast.Name) and n.func.value.value.id in ('self', 'cls', cd.name):
                    a = n.func.value.attr
                if a in cls_mut and a not in inst_assigned:
                    out.append(('clsstate:%s.%s' % (cd.name, a), n.lineno, 'method mutates class-level object `%s.%s`, shared by all instances' % (cd.name, a), '%s.%s' % (cd.name, fn.name)))
    return out


def set_typed_attrs(ix_or_tree):
    """attribute names assigned ``set()`` / a set display in some __init__"""
    names = set()
    trees = [m.tree for m in ix_or_tree.modules.values()] if hasattr(ix_or_tree, 'modules') else [ix_or_tree]
    for tree in trees:
        for n in ast.walk(tree):
            if isinstance(n, ast.Assign) and isinstance(n.value, (ast.Call, ast.Set)):
                is_set = isinstance(n.value, ast.Set) or (isinstance(n.value.func, ast.Name) and n.value.func.id in ('set', 'frozenset'))
                if is_set:
                    for t in n.targets:
                        if isinstance(t, ast.Attribute):
                            names.add(t.attr)
    # a name that some other class assigns a list/dict to is ambiguous: it only counts on an `...ast.<name>` receiver
    amb = set()
    for tree in trees:
        for n in ast.walk(tree):
            if isinstance(n, ast.Assign) and isinstance(n.value, (ast.List, ast.Dict, ast.ListComp)) or \
                    (isinstance(n, ast.Assign) and isinstance(n.value, ast.Call) and isinstance(n.value.func, ast.Name) and n.value.func.id in ('list', 'dict')):
                for t in n.targets:
                    if isinstance(t, ast.Attribute) and t.attr in names:
                        amb.add(t.attr)
    return names, amb


def _keyed_stores_only(loop):
    """every statement of the loop body is `<container>[<loop variable>] = <expression over the loop variable and loop-invariant names>`"""
    v = loop.target.id
    if loop.orelse:
        return False
    assigned = {v}
    for st in loop.body:
        if not (isinstance(st, ast.Assign) and len(st.targets) == 1 and isinstance(st.targets[0], ast.Subscript) and isinstance(st.targets[0].slice, ast.Name)
                and st.targets[0].slice.id == v):
            return False
        # the value must not read the container being written (no accumulation across iterations)
        cont = ast.unparse(st.targets[0].value)
        if any(ast.unparse(x) == cont for x in ast.walk(st.value) if isinstance(x, (ast.Attribute, ast.Name))):
            return False
    return bool(loop.body)


def scan_module_setiter(tree, rel, set_attrs):
    set_attrs, ambiguous = set_attrs
    out = []

    def is_set_expr(e):
        if isinstance(e, (ast.Set, ast.SetComp)):
            return True
        if isinstance(e, ast.Call) and isinstance(e.func, ast.Name) and e.func.id in ('set', 'frozenset'):
            return True
        if isinstance(e, ast.Attribute) and e.attr in set_attrs:
            if e.attr in ambiguous:
                return isinstance(e.value, ast.Attribute) and e.value.attr == 'ast' or (isinstance(e.value, ast.Name) and e.value.id == 'ast')
            return True
        if isinstance(e, ast.Call) and isinstance(e.func, ast.Attribute) and e.func.attr in ('union', 'intersection', 'difference', 'symmetric_difference'):
            return is_set_expr(e.func.value)
        if isinstance(e, ast.BinOp) and isinstance(e.op, (ast.BitOr, ast.BitAnd, ast.Sub, ast.BitXor)):
            return is_set_expr(e.left) or is_set_expr(e.right)
        if isinstance(e, ast.Call) and isinstance(e.func, ast.Attribute) and e.func.attr == 'fromkeys' and e.args:
            return is_set_expr(e.args[0])
        return False
    parents = {}
    for p in ast.walk(tree):
        for c in ast.iter_child_nodes(p):
            parents[id(c)] = p

    def fname(n):
        while id(n) in parents:
            n = parents[id(n)]
            if isinstance(n, ast.FunctionDef):
                return n.name
        return '<module>'
    for n in ast.walk(tree):
        it = None
        if isinstance(n, ast.For):
            it = n.iter
        elif isinstance(n, ast.comprehension):
            it = n.iter
        if it is not None and is_set_expr(it):
            # a comprehension feeding an order-free consumer is harmless
            p = parents.get(id(n))
            gp = parents.get(id(p)) if p is not None else None
            if isinstance(n, ast.comprehension) and isinstance(p, (ast.SetComp,)):
                continue
            if isinstance(n, ast.comprehension) and isinstance(gp, ast.Call) and isinstance(gp.func, ast.Name) and gp.func.id in ORDER_FREE_CONSUMERS:
                continue
            if isinstance(n, ast.For) and isinstance(n.target, ast.Name) and _keyed_stores_only(n):
                continue      # d[x] = f(x) for every x of the set: the iterations are independent, their order is invisible
            if isinstance(n, ast.comprehension) and isinstance(n.target, ast.Name) and not n.ifs and isinstance(p, (ast.GeneratorExp, ast.ListComp)) \
                    and len(p.generators) == 1 and isinstance(p.elt, ast.Tuple) and len(p.elt.elts) == 2 and isinstance(p.elt.elts[0], ast.Name) \
                    and p.elt.elts[0].id == n.target.id and isinstance(gp, ast.Call) and isinstance(gp.func, ast.Attribute) and gp.func.attr == 'update' \
                    and len(gp.args) == 1 and gp.args[0] is p and not gp.keywords \
                    and not any(ast.unparse(x) == ast.unparse(gp.func.value) for x in ast.walk(p.elt.elts[1]) if isinstance(x, (ast.Attribute, ast.Name))):
                continue      # d.update((x, f(x)) for x in S): the same keyed stores, written as pairs
            out.append(('setiter:%s' % ast.unparse(it)[:40], it.lineno, 'iteration over the set `%s`: its order depends on the hash seed'
                        % ast.unparse(it)[:40], fname(n)))
        if isinstance(n, ast.Call) and isinstance(n.func, ast.Name) and n.func.id in ('list', 'tuple') and n.args and is_set_expr(n.args[0]):
            out.append(('setiter:%s' % ast.unparse(n)[:40], n.lineno, '`%s` materialises a set in hash order' % ast.unparse(n)[:40], fname(n)))
        # the other consumers that walk their argument in order: sep.join(S), enumerate / zip / iter / map / filter / str of S, S.pop()
        if isinstance(n, ast.Call) and isinstance(n.func, ast.Attribute) and n.func.attr == 'join' and n.args and is_set_expr(n.args[0]):
            out.append(('setiter:%s' % ast.unparse(n)[:40], n.lineno, '`%s` concatenates the elements of a set in hash order: the text depends on the hash seed' % ast.unparse(n)[:50], fname(n)))
        if isinstance(n, ast.Call) and isinstance(n.func, ast.Name) and n.func.id in ('enumerate', 'zip', 'iter', 'map', 'filter', 'str', 'repr', 'next') \
                and any(is_set_expr(a) for a in n.args):
            p_ = parents.get(id(n))
            if not (isinstance(p_, ast.Call) and isinstance(p_.func, ast.Name) and p_.func.id in ORDER_FREE_CONSUMERS):
                out.append(('setiter:%s' % ast.unparse(n)[:40], n.lineno, '`%s` walks a set in hash order' % ast.unparse(n)[:50], fname(n)))
        if isinstance(n, ast.Call) and isinstance(n.func, ast.Attribute) and n.func.attr == 'pop' and not n.args and is_set_expr(n.func.value):
            out.append(('setiter:%s' % ast.unparse(n)[:40], n.lineno, '`%s` takes an arbitrary element of a set' % ast.unparse(n)[:50], fname(n)))
        if isinstance(n, ast.Call) and isinstance(n.func, (ast.Name, ast.Attribute)) and \
                (getattr(n.func, 'id', None) in ('sorted', 'min', 'max') or getattr(n.func, 'attr', None) == 'sort'):
            for kw in n.keywords:
                if kw.arg == 'key' and isinstance(kw.value, ast.Name) and kw.value.id in ('id', 'hash'):
                    out.append(('order-by-%s' % kw.value.id, n.lineno, 'ordering by %s() depends on memory layout / hash seed' % kw.value.id, fname(n)))
    return out


def run_global(ix, rep, prefix='rtamt', rule='R-GLOBAL'):
    n = 0
    for m in sorted(ix.modules.values(), key=lambda m: m.name):
        if m.name.startswith('rtamt.antlr.parser') or not m.name.startswith(prefix):
            continue  # generated code: the serialized ATN helpers are module-level by construction and never written
        n += 1
        rep.unit(m.rel)
        hits = scan_module_global(m.tree, m.rel)
        if hits:
            for (slot, line, msg, sym) in hits:
                rep.fail(rule, m.rel, sym, slot, msg, line)
        else:
            rep.ok(rule, m.rel, '<module>', 'no-shared-state', 'no function writes module-/class-level mutable state; no mutable default', 1)
    n += _inherited_class_state(ix, rep, prefix, rule)
    return n


def _inherited_class_state(ix, rep, prefix, rule):
    """a mutable container built in a class body (`table = dict()`) and filled through `self.table[k] = v` by a *subclass* in another module --
    with no class on the way giving the instance its own container -- is one container for every instance in the process"""
    from sa.index import ClassInfo
    n = 0
    level = {}      # id(ClassInfo) -> {attr: lineno}
    classes = [c for m in ix.modules.values() for c in m.classes.values()]
    for c in classes:
        for st in c.node.body:
            if isinstance(st, ast.Assign) and _is_mutable_expr(st.value):
                for t in st.targets:
                    if isinstance(t, ast.Name):
                        level.setdefault(id(c), {})[t.id] = st.lineno
    if not level:
        return 0
    reported = set()
    # a class that is only ever used as a part of classes assembled at run time (the Ast: AbstractAst + parser visitor through ast_factory): no MRO
    # links the class that owns the container with the class that fills it.  If nobody in the package ever gives an instance its own
    # `self.<attr> = ...` and somebody fills `self.<attr>[..]`, the class-level container is the only one there is.
    def _rebinds(k, a):
        return any(isinstance(x, ast.Attribute) and isinstance(x.ctx, ast.Store) and x.attr == a and isinstance(x.value, ast.Name) and x.value.id == 'self'
                   for g in k.methods.values() for x in ast.walk(g.node))

    def _related(k):
        out = [q for q in ix.mro(k) if isinstance(q, ClassInfo)]
        out += [q for q in classes if k in [r for r in ix.mro(q) if isinstance(r, ClassInfo)]]
        return out
    for c in classes:
        if not c.module.name.startswith(prefix):
            continue
        for a, ln in level.get(id(c), {}).items():
            if any(_rebinds(k, a) for k in _related(c)):
                continue
            filler = None
            for fc in classes:
                if fc is c or '/antlr/' in fc.module.rel:
                    continue
                if any(_rebinds(k, a) for k in _related(fc)):
                    continue          # that class family has instance containers of its own under this name
                for g in fc.methods.values():
                    for x in ast.walk(g.node):
                        if isinstance(x, ast.Subscript) and isinstance(x.ctx, (ast.Store, ast.Del)) and isinstance(x.value, ast.Attribute) and x.value.attr == a \
                                and isinstance(x.value.value, ast.Name) and x.value.value.id == 'self':
                            filler = (fc, g)
                        if isinstance(x, ast.Call) and isinstance(x.func, ast.Attribute) and x.func.attr in MUTATORS and isinstance(x.func.value, ast.Attribute) \
                                and x.func.value.attr == a and isinstance(x.func.value.value, ast.Name) and x.func.value.value.id == 'self':
                            filler = (fc, g)
            # the owner class filling it itself is the plain clsstate case (scan_module_global)
            if filler is not None and (id(c), a) not in reported:
                reported.add((id(c), a))
                n += 1
                rep.fail(rule, c.module.rel, '%s.%s' % (c.name, a), 'clsstate:%s.%s' % (c.name, a), 'the class body of %s builds one `%s` container, no class of its family gives an instance '
                         'its own (`self.%s = ...`), and %s.%s() -- a class that has no `%s` of its own either -- fills it through self: every object assembled from the two shares '
                         'the one container, the table of the specification parsed last answers for all of them' % (c.name, a, a, filler[0].name, filler[1].node.name, a), ln)
    # the monitor classes assembled by the factories (interpreter base + semantic visitor): the visitor's methods run with the interpreter's attributes
    from sa import model as _M
    assembled = []
    try:
        assembled = [m_.cls for m_ in _M.monitors(ix)]
    except Exception:
        assembled = []
    for c in classes + assembled:
        if not c.module.name.startswith(prefix) and c not in assembled:
            continue
        mro = [k for k in ix.mro(c) if isinstance(k, ClassInfo)]
        owners = {}
        for k in mro:
            for a, ln in level.get(id(k), {}).items():
                owners.setdefault(a, (k, ln))
        if not owners:
            continue
        own_store = set()
        for k in mro:
            for f in k.methods.values():
                for x in ast.walk(f.node):
                    if isinstance(x, ast.Attribute) and isinstance(x.ctx, ast.Store) and isinstance(x.value, ast.Name) and x.value.id == 'self':
                        own_store.add(x.attr)
        for f in ([g for k in mro for g in k.methods.values()] if c in assembled else list(c.methods.values())):
            for x in ast.walk(f.node):
                a = None
                if isinstance(x, ast.Subscript) and isinstance(x.ctx, (ast.Store, ast.Del)) and isinstance(x.value, ast.Attribute) \
                        and isinstance(x.value.value, ast.Name) and x.value.value.id == 'self':
                    a = x.value.attr
                if isinstance(x, ast.Call) and isinstance(x.func, ast.Attribute) and x.func.attr in MUTATORS and isinstance(x.func.value, ast.Attribute) \
                        and isinstance(x.func.value.value, ast.Name) and x.func.value.value.id == 'self':
                    a = x.func.value.attr
                if a in owners and a not in own_store and (owners[a][0] is not c or c in assembled) and owners[a][0] is not getattr(f, 'owner', None):
                    k, ln = owners[a]
                    key = (id(k), a)
                    if key in reported:
                        continue
                    reported.add(key)
                    n += 1
                    rep.fail(rule, k.module.rel, '%s.%s' % (k.name, a), 'clsstate:%s.%s' % (k.name, a), 'the class body of %s builds one `%s` container; %s.%s fills it through self and no '
                             'class on the way gives the instance a container of its own: every instance in the process -- two monitors, two specifications -- writes into the '
                             'same one' % (k.name, a, c.name, f.node.name), ln)
    return n


def run_setiter(ix, rep, rule='R-SETITER'):
    sets = set_typed_attrs(ix)
    n = 0
    for m in sorted(ix.modules.values(), key=lambda m: m.name):
        if m.name.startswith('rtamt.antlr.parser'):
            continue
        n += 1
        hits = scan_module_setiter(m.tree, m.rel, sets)
        if hits:
            for (slot, line, msg, sym) in hits:
                rep.fail(rule, m.rel, sym, slot, msg, line)
        else:
            rep.ok(rule, m.rel, '<module>', 'no-set-order', 'no order-sensitive iteration over a set', 1)
    return n, sets[0]


def fixture_selfcheck(rep):
    """the zero-expected rules must fire on the positive fixture on every run"""
    import os
    from sa.index import AnalysisError
    p = os.path.join(os.path.dirname(os.path.dirname(os.path.abspath(__file__))), 'fixtures', 'global_state.py')
    tree = ast.parse(open(p).read())
    g = scan_module_global(tree, 'fixture')
    s = scan_module_setiter(tree, 'fixture', set_typed_attrs(tree))
    want_g = {'modstate:CACHE', 'global:COUNTER', 'default:collect', 'clsstate:Shared.table', 'cached:the_interpreter', 'clsobj:TimedSince.andop'}
    if any(h[0] == 'cached:the_interpreter_class' for h in g):
        raise AnalysisError('negative fixture matched: a cached class factory was reported')
    want_s = {'setiter:self.free_vars', 'order-by-id'}
    got_g = {h[0] for h in g}
    got_s = {h[0] for h in s}
    if not want_g <= got_g or not want_s <= got_s:
        raise AnalysisError('positive fixture not matched: R-GLOBAL %s, R-SETITER %s' % (sorted(want_g - got_g), sorted(want_s - got_s)))
    rep.note('positive fixture matched: %d R-GLOBAL and %d R-SETITER constructs' % (len(g), len(s)))
    return len(g) + len(s)
