"""R-ASTPURE -- evaluation code never writes into the objects it is handed.

reset() (and a second monitor built from the same specification, and a second evaluate()) derive everything from the parsed
nodes again: bounds, units, names, children.  That is only the same derivation if nothing executed between parse() and
reset() stored into a node.  In rtamt/semantics, rtamt/explanation and rtamt/spec the only objects written are `self` and
locals built by the function itself; a store through a parameter (``node.begin = b``, ``node.children[0].x = ...``,
``node.in_vars.append(..)``), directly or through a local alias of something reached from a parameter, is reported.

Recognised as not a store through a parameter: a parameter re-bound to a fresh value first (``sample = list(sample)``),
stores into ``self...`` (owned state; the ast publication slots are judged by R-STATE), and the sample lists that dense-time
operations exchange, which are plain subscripts of a parameter without an attribute step (``out[0] = ...``; judged by C11's
aliasing rules, not here).
"""
import ast
from sa.index import before as _before

MUTATORS = {'append', 'extend', 'insert', 'pop', 'remove', 'clear', 'update', 'popleft', 'appendleft', 'sort', 'reverse',
            'setdefault', 'add', 'discard', 'popitem'}


def _root(n):
    """(root Name id or None, passes an attribute step?)"""
    attr = False
    while isinstance(n, (ast.Attribute, ast.Subscript, ast.Starred)):
        if isinstance(n, ast.Attribute):
            attr = True
        n = n.value
    return (n.id if isinstance(n, ast.Name) else None), attr


def _reached_from(e, tainted):
    """is the value of expression e (no calls) an object reachable from a tainted name"""
    if isinstance(e, ast.Name):
        return e.id in tainted
    if isinstance(e, (ast.Attribute, ast.Subscript)):
        r, _ = _root(e)
        return r in tainted
    if isinstance(e, ast.IfExp):
        return _reached_from(e.body, tainted) or _reached_from(e.orelse, tainted)
    return False


def stores_through_params(fnode):
    """[(lineno, text, param)] -- flow-insensitive over aliases, flow-sensitive only for 'parameter re-bound before use'"""
    params = [a.arg for a in fnode.args.args + fnode.args.kwonlyargs + fnode.args.posonlyargs if a.arg not in ('self', 'cls')]
    if fnode.args.vararg:
        params.append(fnode.args.vararg.arg)
    if fnode.args.kwarg:
        params.append(fnode.args.kwarg.arg)
    tainted = {p: p for p in params}
    # a parameter whose first statement-level use is a re-binding to a call result is a local from then on
    for st in fnode.body:
        if isinstance(st, ast.Assign) and len(st.targets) == 1 and isinstance(st.targets[0], ast.Name) and st.targets[0].id in tainted \
                and isinstance(st.value, ast.Call):
            tainted.pop(st.targets[0].id)
        elif isinstance(st, ast.Expr) and isinstance(st.value, ast.Constant):
            continue
        else:
            break
    changed = True
    while changed:
        changed = False
        for n in ast.walk(fnode):
            pairs = []
            if isinstance(n, ast.Assign):
                for t in n.targets:
                    if isinstance(t, ast.Name):
                        pairs.append((t.id, n.value))
                    elif isinstance(t, (ast.Tuple, ast.List)) and isinstance(n.value, (ast.Tuple, ast.List)) and len(t.elts) == len(n.value.elts):
                        pairs += [(a.id, b) for a, b in zip(t.elts, n.value.elts) if isinstance(a, ast.Name)]
            elif isinstance(n, (ast.For, ast.comprehension)):
                it = n.iter
                if isinstance(it, ast.Call) and isinstance(it.func, ast.Name) and it.func.id in ('enumerate', 'reversed', 'zip', 'list', 'iter') and it.args:
                    srcs = it.args
                else:
                    srcs = [it]
                for t in ast.walk(n.target):
                    if isinstance(t, ast.Name):
                        for s in srcs:
                            pairs.append((t.id, s))
            elif isinstance(n, ast.NamedExpr) and isinstance(n.target, ast.Name):
                pairs.append((n.target.id, n.value))
            for name, val in pairs:
                if name not in tainted and _reached_from(val, tainted):
                    r, _ = _root(val)
                    tainted[name] = tainted.get(r, r)
                    changed = True
    # attributes of self that are bound to an object reached from a parameter (`self.in_vars = child.in_vars`): the attribute is another
    # name for the caller's object, so `self.in_vars += [...]` / `self.in_vars.append(..)` changes the caller's object
    self_alias = {}
    for n in ast.walk(fnode):
        if isinstance(n, ast.Assign) and len(n.targets) == 1 and isinstance(n.targets[0], ast.Attribute) and isinstance(n.targets[0].value, ast.Name) \
                and n.targets[0].value.id == 'self' and _reached_from(n.value, tainted) and isinstance(n.value, (ast.Attribute, ast.Subscript, ast.Name)):
            r, _ = _root(n.value)
            self_alias[n.targets[0].attr] = (tainted.get(r, r), n)
    out = []
    for n in ast.walk(fnode):
        if self_alias:
            if isinstance(n, ast.AugAssign) and isinstance(n.target, ast.Attribute) and isinstance(n.target.value, ast.Name) and n.target.value.id == 'self' \
                    and n.target.attr in self_alias and _before(self_alias[n.target.attr][1], n) and isinstance(n.op, (ast.Add, ast.BitOr, ast.Mult)):
                out.append((n.lineno, ast.unparse(n), self_alias[n.target.attr][0]))
            if isinstance(n, ast.Call) and isinstance(n.func, ast.Attribute) and n.func.attr in MUTATORS and isinstance(n.func.value, ast.Attribute) \
                    and isinstance(n.func.value.value, ast.Name) and n.func.value.value.id == 'self' and n.func.value.attr in self_alias \
                    and _before(self_alias[n.func.value.attr][1], n):
                out.append((n.lineno, ast.unparse(n), self_alias[n.func.value.attr][0]))
    for n in ast.walk(fnode):
        tg = []
        if isinstance(n, ast.Assign):
            tg = n.targets
        elif isinstance(n, (ast.AugAssign, ast.AnnAssign)):
            tg = [n.target]
        elif isinstance(n, ast.Delete):
            tg = n.targets
        elif isinstance(n, ast.Call) and isinstance(n.func, ast.Attribute) and n.func.attr in MUTATORS:
            r, has_attr = _root(n.func.value)
            if r in tainted and has_attr:
                out.append((n.lineno, ast.unparse(n), tainted[r]))
            continue
        elif isinstance(n, ast.Call) and isinstance(n.func, ast.Name) and n.func.id in ('setattr', 'delattr') and n.args:
            if _reached_from(n.args[0], tainted):
                out.append((n.lineno, ast.unparse(n), tainted[_root(n.args[0])[0]]))
            continue
        for t in tg:
            for y in (t.elts if isinstance(t, (ast.Tuple, ast.List)) else [t]):
                if isinstance(y, ast.Name):
                    continue
                r, has_attr = _root(y)
                if r in tainted and (has_attr or r != tainted[r]):
                    # p.attr = .. / p.attr[k] = .. / alias-of-something-inside-p[k] = ..
                    out.append((n.lineno, ast.unparse(n), tainted[r]))
    return out


def check_modules(ix, rep, prefixes, label, rule='R-ASTPURE'):
    n = 0
    for mod in sorted(ix.modules.values(), key=lambda m: m.rel):
        if not any(mod.rel.startswith(p) for p in prefixes) or '/antlr/' in mod.rel:
            continue
        rep.unit(mod.rel)
        for fn in ast.walk(mod.tree):
            if not isinstance(fn, (ast.FunctionDef, ast.AsyncFunctionDef)):
                continue
            n += 1
            bad = stores_through_params(fn)
            owner = _owner(mod.tree, fn)
            sym = '%s.%s' % (owner, fn.name) if owner else fn.name
            if bad:
                for (ln, text, p) in bad:
                    rep.fail(rule, mod.rel, sym, '%s:param:%s' % (label, p),
                             'stores into an object it was handed (`%s`, reached from parameter `%s`): the specification nodes, and everything else '
                             'a caller passes in, are re-read by reset(), by the next evaluate() and by every other monitor of the same '
                             'specification, which then start from the altered value' % (text[:90], p), ln)
            else:
                rep.ok(rule, mod.rel, sym, '%s:no-store-through-parameters' % label, '', fn.lineno)
    return n


_OWN = {}


def _owner(tree, fn):
    key = id(tree)
    if key not in _OWN:
        m = {}
        for c in ast.walk(tree):
            if isinstance(c, ast.ClassDef):
                for s in c.body:
                    if isinstance(s, (ast.FunctionDef, ast.AsyncFunctionDef)):
                        m[id(s)] = c.name
        _OWN[key] = m
    return _OWN[key].get(id(fn))


POSITIVE = '''
def time_unit_transformer(self, node):
    b = node.begin * 2
    node.begin = b
    first = node.children[0]
    first.flag = True
    for c in node.children:
        c.names.append(1)
    return b
'''
NEGATIVE = '''
def update(self, sample, out):
    sample = list(sample)
    sample.append(1)
    out[0] = 3
    self.buf.append(sample)
    tmp = []
    tmp.append(out)
    return tmp
'''


def self_test():
    p = stores_through_params(ast.parse(POSITIVE).body[0])
    q = stores_through_params(ast.parse(NEGATIVE).body[0])
    return len(p) == 3 and not q
