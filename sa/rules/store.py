"""R-STORE -- every visit publishes the value it returns under results[node]; names map to nodes."""
import ast

from sa.index import AnalysisError, ClassInfo
from sa import flow, dispatch as D, model as M
from sa import effects as E
from sa.rules import ownrule


def _stores_results(st, nodep):
    """statement ``<...>.results[<nodep>] = <name>`` -> name"""
    if isinstance(st, ast.Assign) and len(st.targets) == 1 and isinstance(st.targets[0], ast.Subscript):
        t = st.targets[0]
        if isinstance(t.value, ast.Attribute) and t.value.attr == 'results' and ast.unparse(t.slice) == nodep:
            return ast.unparse(st.value)
    return None


def _records_subtree(ix, uv, v, stmts, nodep):
    """the statements call a method of the visitor that stores results[<its node>] and walks <its node>.children calling itself (or loop over
    the children here and do so)"""
    for st in stmts:
        for c in ast.walk(st):
            if isinstance(c, ast.Call) and isinstance(c.func, ast.Attribute) and isinstance(c.func.value, ast.Name) and c.func.value.id == 'self' \
                    and c.args and isinstance(c.args[0], ast.Name) and c.args[0].id == nodep:
                g = ix.resolve_method(uv, c.func.attr)
                if g is None or len(g.node.args.args) < 2:
                    continue
                gp = g.node.args.args[1].arg
                stores = any(_stores_results(x, gp) for x in ast.walk(g.node) if isinstance(x, ast.Assign))
                recurses = False
                for lp in ast.walk(g.node):
                    if isinstance(lp, ast.For) and ast.unparse(lp.iter).replace(' ', '') == '%s.children' % gp and isinstance(lp.target, ast.Name):
                        for cc in ast.walk(lp):
                            if isinstance(cc, ast.Call) and isinstance(cc.func, ast.Attribute) and cc.func.attr == g.node.name and cc.args \
                                    and isinstance(cc.args[0], ast.Name) and cc.args[0].id == lp.target.id:
                                recurses = True
                if stores and recurses:
                    return True
    return False


def returns_are_stored(rep, f, rule, slot):
    """on every path to a ``return X`` the statement results[node] = X has been executed (dominance)"""
    nodep = f.node.args.args[1].arg
    cfg = flow.CFG(f.node)
    dom = cfg.dominators()
    rets = [n for n in cfg.nodes() if isinstance(cfg.stmt[n], ast.Return) and n in cfg.reachable()]
    if not rets:
        rep.fail(rule, f.module.rel, f.qual, slot, 'no return', f.node.lineno)
        return False
    ok = True
    for r in rets:
        val = ast.unparse(cfg.stmt[r].value) if cfg.stmt[r].value is not None else None
        good = False
        for d in dom[r]:
            st = cfg.stmt[d]
            if st is not None and _stores_results(st, nodep) == val:
                # the stored name must not be reassigned between the store and the return
                good = True
            if st is not None and _stores_results(st, nodep) is not None and val == ast.unparse(st.targets[0]):
                # results[node] = <value>; return results[node]: the entry just written is what is returned
                good = True
        if not good:
            ok = False
            rep.fail(rule, f.module.rel, f.qual, slot, 'a path returns `%s` without having stored it in results[%s]: get_value() of that '
                     'sub-formula would be stale or missing' % (val, nodep), cfg.stmt[r].lineno)
    if ok:
        rep.ok(rule, f.module.rel, f.qual, slot, 'every returned value is stored under results[node] first', f.node.lineno)
    return ok


def check_store(ix, rep, rule='R-STORE'):
    n = 0
    for mon in M.standard_monitors(ix):
        if mon.mode == 'offline' or mon.kind == 'dense-online':
            # the semantic visitor wraps the dispatching visit
            d = D.dispatch_of(ix, mon.cls)
            if mon.mode == 'offline':
                if not d.wrappers:
                    rep.fail(rule, mon.visitor.module.rel, mon.visitor.name, '%s:visit-wrapper' % mon.kind,
                             'the offline visitor has no visit() wrapper storing results[node]', mon.visitor.node.lineno)
                for w in d.wrappers:
                    rep.analysed(w)
                    rep.unit(w.module.rel)
                    returns_are_stored(rep, w, rule, '%s:visit' % mon.kind)
                    n += 1
        if mon.mode == 'online':
            uv = ownrule._update_visitor(ix, mon)
            for meth in ('visitBinary', 'visitUnary', 'visitLeaf'):
                f = ix.resolve_method(uv, meth)
                rep.analysed(f)
                rep.unit(f.module.rel)
                returns_are_stored(rep, f, rule, '%s:%s' % (mon.kind, meth))
                n += 1
            v = ix.resolve_method(uv, 'visit')
            if v is not None and v.owner.name != 'AbstractAstVisitor':
                # memoising visit: the hit path must also record results[node]; the miss path delegates to handlers that do
                rep.analysed(v)
                nodep = v.node.args.args[1].arg
                from sa.rules import step as _step
                for st in _step._normalise_visit(v.node).body:
                    if isinstance(st, ast.If) and any(isinstance(s, ast.Return) for s in st.body):
                        stored = any(_stores_results(s, nodep) for s in st.body)
                        if stored or _records_subtree(ix, uv, v, st.body, nodep):
                            rep.ok(rule, v.module.rel, v.qual, '%s:memo-hit' % mon.kind, 'a memo hit records results[node] for the node that shares the operator', st.lineno)
                            # ... and for everything below it: the operands of the second occurrence are not visited, and the name table may
                            # point at one of them (phi_name_to_node_dict[v] is the Variable node parsed last)
                            if _records_subtree(ix, uv, v, st.body, nodep):
                                rep.ok(rule, v.module.rel, v.qual, '%s:memo-hit:subtree' % mon.kind, 'the nodes below a memo hit are given their results too', st.lineno)
                            else:
                                rep.fail(rule, v.module.rel, v.qual, '%s:memo-hit:subtree' % mon.kind, 'a memo hit records results[node] for the node itself only: the operands of the second '
                                         'occurrence are never visited and get no entry -- `p = (a >= 2); out = (a >= 2) and p`: the name `a` is bound to the Variable node parsed last, '
                                         'which lies below the memo hit, and get_value(\'a\') raises KeyError', st.lineno)
                        else:
                            rep.fail(rule, v.module.rel, v.qual, '%s:memo-hit' % mon.kind, 'a memo hit returns without recording results[node]: '
                                     'get_value() of the second occurrence has no entry', st.lineno)
                        n += 1
            # publication
            upd = ix.resolve_method(mon.cls, 'update')
            rep.analysed(upd)
            pub = [s for s in ast.walk(upd.node) if isinstance(s, ast.Assign) and ast.unparse(s.targets[0]) == 'self.ast.results'
                   and ast.unparse(s.value) == 'self.updateVisitor.results']
            if pub:
                rep.ok(rule, upd.module.rel, upd.qual, '%s:publish' % mon.kind, 'update() publishes the visitor results as ast.results', pub[0].lineno)
            else:
                rep.fail(rule, upd.module.rel, upd.qual, '%s:publish' % mon.kind, 'update() does not publish updateVisitor.results as ast.results', upd.node.lineno)
            n += 1
    return n


def check_name_table(ix, rep, rule='R-NAMES'):
    """parser: every node built is registered under its printed name; assertions under their identifier; get_value reads both tables"""
    ltl, stl = M.parser_visitors(ix)
    nodes = set(D.node_classes(ix))
    n = 0
    for c in (ltl, stl):
        for f in c.methods.values():
            built = []
            for st in f.node.body:
                for sub in ast.walk(st):
                    if isinstance(sub, ast.Assign) and isinstance(sub.value, ast.Call) and isinstance(sub.value.func, ast.Name):
                        ent = ix.resolve_expr(f.module, sub.value.func)
                        if isinstance(ent, ClassInfo) and ent in nodes and isinstance(sub.targets[0], ast.Name):
                            built.append((sub.targets[0].id, ent.name, sub))
            if not built:
                continue
            rep.analysed(f)
            rep.unit(f.module.rel)
            # the node returned by the method must be registered: phi_name_to_node_dict[X.name] = X
            regs = set()
            for sub in ast.walk(f.node):
                if isinstance(sub, ast.Assign) and isinstance(sub.targets[0], ast.Subscript) and isinstance(sub.targets[0].value, ast.Attribute) \
                        and sub.targets[0].value.attr == 'phi_name_to_node_dict':
                    k = ast.unparse(sub.targets[0].slice)
                    v = ast.unparse(sub.value)
                    if k == v + '.name':
                        regs.add(v)
                # the same store spelled as a call: table.update({X.name: X}) / table.setdefault(X.name, X) / table.__setitem__(X.name, X)
                if isinstance(sub, ast.Call) and isinstance(sub.func, ast.Attribute) and isinstance(sub.func.value, ast.Attribute) \
                        and sub.func.value.attr == 'phi_name_to_node_dict':
                    pairs = []
                    if sub.func.attr == 'update' and len(sub.args) == 1 and isinstance(sub.args[0], ast.Dict):
                        pairs = list(zip(sub.args[0].keys, sub.args[0].values))
                    elif sub.func.attr == '__setitem__' and len(sub.args) == 2:
                        pairs = [(sub.args[0], sub.args[1])]
                    for k_, v_ in pairs:
                        if k_ is not None and ast.unparse(k_) == ast.unparse(v_) + '.name':
                            regs.add(ast.unparse(v_))
            # a node built in the return statement itself has no name to register it under
            for r_ in ast.walk(f.node):
                if isinstance(r_, ast.Return) and isinstance(r_.value, ast.Call) and isinstance(r_.value.func, ast.Name):
                    ent = ix.resolve_expr(f.module, r_.value.func)
                    if isinstance(ent, ClassInfo) and ent in nodes and ent.name == 'Variable':
                        n += 1
                        rep.fail(rule, f.module.rel, f.qual, 'register:return', 'the Variable node built in the return statement of %s is not registered in phi_name_to_node_dict '
                                 'under its name: get_value() of an input variable finds nothing' % (f.name,), r_.lineno)
            # every store into the table is under the stored node's own name (visitAssertion: the assertion identifier): a node stored under
            # another node's name replaces what get_value() of that name returns
            for sub in ast.walk(f.node):
                kv = []
                if isinstance(sub, ast.Assign) and isinstance(sub.targets[0], ast.Subscript) and isinstance(sub.targets[0].value, ast.Attribute) \
                        and sub.targets[0].value.attr == 'phi_name_to_node_dict':
                    kv = [(sub.targets[0].slice, sub.value)]
                elif isinstance(sub, ast.Call) and isinstance(sub.func, ast.Attribute) and isinstance(sub.func.value, ast.Attribute) \
                        and sub.func.value.attr == 'phi_name_to_node_dict':
                    if sub.func.attr == 'update' and len(sub.args) == 1 and isinstance(sub.args[0], ast.Dict):
                        kv = [(k_, v_) for k_, v_ in zip(sub.args[0].keys, sub.args[0].values) if k_ is not None]
                    elif sub.func.attr in ('__setitem__', 'setdefault') and len(sub.args) == 2:
                        kv = [(sub.args[0], sub.args[1])]
                    elif sub.func.attr in ('update', '__setitem__', 'setdefault', 'pop', 'clear', 'popitem'):
                        raise AnalysisError('%s: `%s` changes the name table in a form that is not interpreted' % (f.where, ast.unparse(sub)[:60]))
                for k_, v_ in kv:
                    if f.name == 'visitAssertion':
                        continue
                    n += 1
                    if ast.unparse(k_) == ast.unparse(v_) + '.name':
                        rep.ok(rule, f.module.rel, f.qual, 'own-key:%s' % ast.unparse(v_)[:20], 'stored under its own name', sub.lineno)
                    else:
                        rep.fail(rule, f.module.rel, f.qual, 'own-key:%s' % ast.unparse(v_)[:20], 'the node `%s` is stored in phi_name_to_node_dict under `%s`, which is not its own '
                                 'name: the entry of that name -- a variable, an assertion -- now points to this node and get_value() returns its value instead'
                                 % (ast.unparse(v_)[:30], ast.unparse(k_)[:40]), sub.lineno)
            rets = [s for s in ast.walk(f.node) if isinstance(s, ast.Return) and isinstance(s.value, ast.Name)]
            returned = {r.value.id for r in rets}
            # registration is judged per construction: the store that follows the constructor call on its path (a later statement of the same
            # block or of an enclosing block), not a store in a sibling branch
            parent = {}
            for p_ in ast.walk(f.node):
                for fld in ('body', 'orelse', 'finalbody', 'handlers'):
                    lst = getattr(p_, fld, None)
                    if isinstance(lst, list):
                        for i_, c_ in enumerate(lst):
                            parent[id(c_)] = (p_, lst, i_)

            def registered_after(stmt, name):
                cur = stmt
                while id(cur) in parent:
                    p_, lst, i_ = parent[id(cur)]
                    for later in lst[i_ + 1:]:
                        for x in ast.walk(later):
                            if isinstance(x, ast.Assign) and isinstance(x.targets[0], ast.Subscript) and isinstance(x.targets[0].value, ast.Attribute) \
                                    and x.targets[0].value.attr == 'phi_name_to_node_dict' and ast.unparse(x.targets[0].slice) == name + '.name' and ast.unparse(x.value) == name:
                                return True
                            if isinstance(x, ast.Call) and isinstance(x.func, ast.Attribute) and isinstance(x.func.value, ast.Attribute) \
                                    and x.func.value.attr == 'phi_name_to_node_dict' and ('%s.name' % name) in ast.unparse(x) and name in [ast.unparse(a) for a in ast.walk(x) if isinstance(a, ast.Name)]:
                                return True
                        if isinstance(later, ast.Return):
                            return False
                    cur = p_
                    if isinstance(cur, (ast.FunctionDef,)):
                        break
                return False
            for (bname, bcls, bstmt) in built:
                if bcls != 'Variable' or bname not in returned:
                    continue
                n += 1
                if registered_after(bstmt, bname):
                    rep.ok(rule, f.module.rel, f.qual, 'register-variable', 'the Variable node is registered under its name on the path that builds it', bstmt.lineno)
                else:
                    rep.fail(rule, f.module.rel, f.qual, 'register-variable', 'the Variable node built by %s is not registered in phi_name_to_node_dict under node.name on the '
                             'path that builds it: get_value() of an input variable finds nothing' % f.name, bstmt.lineno)
            for name in sorted(returned & {b[0] for b in built}):
                n += 1
                classes = {b[1] for b in built if b[0] == name}
                if name in regs:
                    rep.ok(rule, f.module.rel, f.qual, 'register:%s' % name, 'built node is registered under its printed name', f.node.lineno)
                elif 'Variable' in classes:
                    # get_value(v) of an input variable finds the variable through this entry (its printed name is the variable name)
                    rep.fail(rule, f.module.rel, f.qual, 'register:%s' % name, 'the Variable node built and returned by %s is not registered in '
                             'phi_name_to_node_dict under node.name: get_value() of an input variable finds nothing' % f.name, f.node.lineno)
                else:
                    # an operator node is reachable by its printed text only (an extra the property does not ask for): assertion and
                    # sub-specification names are registered by visitAssertion
                    rep.undecided(rule, f.module.rel, f.qual, 'register:%s' % name, 'operator node not registered under its printed text; not required for assertion, '
                                  'sub-specification and variable names', f.node.lineno)
    # assertion name -> root node
    f = ix.resolve_method(stl, 'visitAssertion')
    reg = [s for s in f.node.body if isinstance(s, ast.Assign) and 'phi_name_to_node_dict[' in ast.unparse(s.targets[0])]
    if reg and ast.unparse(reg[0].value) in ('out',) and reg[0] in f.node.body:
        rep.ok(rule, f.module.rel, f.qual, 'assertion-name', 'assertion name (or implicit `out`) maps to the root node', reg[0].lineno)
    else:
        rep.fail(rule, f.module.rel, f.qual, 'assertion-name', 'visitAssertion does not map the assertion name to its root node unconditionally', f.node.lineno)
    # get_value
    absast = ix.find_class('rtamt.syntax.ast.parser.abstract_ast_parser', 'AbstractAst')
    g = absast.methods.get('get_value')
    src = ast.unparse(g.node) if g else ''
    if g and 'phi_name_to_node_dict[' in src and 'results[' in src:
        rep.ok(rule, g.module.rel, g.qual, 'get_value', 'get_value(name) = results[phi_name_to_node_dict[name]]', g.node.lineno)
    else:
        rep.fail(rule, absast.module.rel, 'AbstractAst.get_value', 'get_value', 'get_value does not read results through phi_name_to_node_dict', absast.node.lineno)
    return n + 2


def check_pastifier_remap(ix, rep, rule='R-REMAP'):
    """Stl/LtlPastifier.visit re-points every phi_name_to_node_dict entry of the visited node to the rewritten node"""
    n = 0
    for modn, cn in (('rtamt.pastifier.stl.pastifier', 'StlPastifier'), ('rtamt.pastifier.ltl.pastifier', 'LtlPastifier')):
        cls = ix.find_class(modn, cn)
        f = cls.methods.get('visit')
        if f is None:
            rep.fail(rule, cls.module.rel, cn, 'visit', 'pastifier has no visit() wrapper re-pointing the name table', cls.node.lineno)
            continue
        rep.analysed(f)
        rep.unit(f.module.rel)
        nodep = f.node.args.args[1].arg
        src = ast.unparse(f.node)
        out_names = [s.targets[0].id for s in f.node.body if isinstance(s, ast.Assign) and isinstance(s.targets[0], ast.Name)
                     and isinstance(s.value, ast.Call) and D._delegation(ix, cls, cls, s.value) is not None]
        selects = any(isinstance(c, (ast.ListComp, ast.DictComp)) and any(isinstance(x, ast.Compare) and nodep in ast.unparse(x) for g in c.generators for x in g.ifs)
                      for c in ast.walk(f.node))
        updates = any(isinstance(c, ast.Call) and isinstance(c.func, ast.Attribute) and c.func.attr == 'update'
                      and 'phi_name_to_node_dict' in ast.unparse(c.func.value) for c in ast.walk(f.node)) or \
            any(isinstance(s, ast.Assign) and isinstance(s.targets[0], ast.Subscript) and 'phi_name_to_node_dict' in ast.unparse(s.targets[0].value)
                for s in ast.walk(f.node))
        ret = [s for s in f.node.body if isinstance(s, ast.Return)]
        if out_names and selects and updates and ret and isinstance(ret[0].value, ast.Name) and ret[0].value.id == out_names[0]:
            rep.ok(rule, f.module.rel, f.qual, 'remap', 'names bound to the visited node are re-pointed to the rewritten node', f.node.lineno)
        else:
            rep.fail(rule, f.module.rel, f.qual, 'remap', 'visit() does not re-point phi_name_to_node_dict entries of the visited node to the '
                     'rewritten node: get_value(name) after pastify() would read the old tree', f.node.lineno)
        # the rewritten node depends on the remaining look-ahead passed as argument: visit() must dispatch on every call
        cfg = flow.CFG(f.node)
        dom = cfg.dominators()
        deleg = [n_ for n_ in cfg.nodes() if cfg.stmt[n_] is not None and not isinstance(cfg.stmt[n_], (ast.If, ast.For, ast.While))
                 and any(isinstance(c, ast.Call) and D._delegation(ix, cls, cls, c) is not None for c in ast.walk(cfg.stmt[n_]))]
        rets = [n_ for n_ in cfg.nodes() if isinstance(cfg.stmt[n_], ast.Return) and n_ in cfg.reachable()]
        early = [r for r in rets if not any(d_ in dom[r] for d_ in deleg)]
        if early:
            rep.fail(rule, f.module.rel, f.qual, 'dispatch-every-call', 'visit() can return without dispatching (line %d): the rewritten node depends on the remaining look-ahead '
                     'given as argument, so a result remembered per node is wrong for a second occurrence that needs a different delay' % cfg.stmt[early[0]].lineno, cfg.stmt[early[0]].lineno)
        else:
            rep.ok(rule, f.module.rel, f.qual, 'dispatch-every-call', 'every call rewrites the node for its own remaining look-ahead', f.node.lineno)
        n += 1
    return n


def check_identity_keys(ix, rep, rule='R-STORE'):
    """the result stores (ast.results, the update visitor's results, the pastifier's and the horizon's tables) are dictionaries keyed by the
    node *object*.  That is one entry per node as long as nodes compare and hash by identity: a class on the MRO of a node class (the
    Interval mix-in of the timed nodes included) that defines __eq__ or __hash__ merges the entries of different nodes that happen to
    compare equal -- the value stored last is read back for both."""
    n = 0
    for nc in sorted(D.node_classes(ix), key=lambda c: c.name):
        bad = None
        for k in ix.mro(nc):
            if not isinstance(k, ClassInfo):
                continue
            for m in ('__eq__', '__hash__', '__ne__', '__lt__', '__le__'):
                if m in k.methods and m in ('__eq__', '__hash__'):
                    bad = (k, m)
            for st in k.node.body:
                if isinstance(st, ast.Assign) and any(isinstance(t, ast.Name) and t.id in ('__eq__', '__hash__') for t in st.targets):
                    bad = (k, st.targets[0].id)
            decos = [ast.unparse(d) for d in k.node.decorator_list]
            if any('dataclass' in d or 'total_ordering' in d for d in decos):
                bad = (k, '@' + decos[0])
        n += 1
        if bad:
            k, m = bad
            rep.fail(rule, k.module.rel, nc.name, 'identity-key', '%s (on the MRO of node class %s) defines %s: node objects are the keys of ast.results / updateVisitor.results, and two '
                     'different nodes that compare equal now share one entry -- get_value() of one returns the value of the other' % (k.name, nc.name, m),
                     k.methods[m].node.lineno if m in k.methods else k.node.lineno)
        else:
            rep.ok(rule, nc.module.rel, nc.name, 'identity-key', 'no class on the MRO overrides equality or hashing', nc.node.lineno)
    return n


def check_spec_forest_writers(ix, rep, rule='R-STORE'):
    """`ast.specs` is the forest every consumer walks: evaluate() returns its last entry, reset() resets every entry, and pastify() binds each
    assertion name to the rewrite of the entry it was registered with.  Who may write it: the constructor (empty list), visitAssertion (append,
    one per assertion, in text order) and pastify() (the list of rewritten entries).  Anything else -- a remove() when a sub-specification is
    referenced, an insert at another position, a sort -- changes what the names and the output stand for."""
    n = 0
    allowed = {('__init__', 'assign'), ('visitAssertion', 'append'), ('visitAssertion', 'augassign'), ('visitAssertion', 'extend'), ('pastify', 'assign'), ('parse', 'assign'),
               ('reset', 'assign')}
    for mod in sorted(ix.modules.values(), key=lambda m: m.rel):
        if '/antlr/' in mod.rel or ix.unimportable(mod):
            continue
        for fn in ast.walk(mod.tree):
            if not isinstance(fn, ast.FunctionDef):
                continue
            for x in ast.walk(fn):
                kind = where = None
                if isinstance(x, ast.Assign) and any(isinstance(t, ast.Attribute) and t.attr == 'specs' for t in x.targets):
                    kind, where = 'assign', x
                elif isinstance(x, (ast.AugAssign,)) and isinstance(x.target, ast.Attribute) and x.target.attr == 'specs':
                    kind, where = 'augassign', x
                elif isinstance(x, ast.Call) and isinstance(x.func, ast.Attribute) and isinstance(x.func.value, ast.Attribute) and x.func.value.attr == 'specs' \
                        and x.func.attr in ('append', 'remove', 'pop', 'insert', 'clear', 'sort', 'reverse', 'extend', '__setitem__', '__delitem__'):
                    kind, where = x.func.attr, x
                elif isinstance(x, (ast.Delete,)) and any(isinstance(t, ast.Subscript) and isinstance(t.value, ast.Attribute) and t.value.attr == 'specs' for t in x.targets):
                    kind, where = 'del', x
                elif isinstance(x, ast.Assign) and any(isinstance(t, ast.Subscript) and isinstance(t.value, ast.Attribute) and t.value.attr == 'specs' for t in x.targets):
                    kind, where = 'item-assign', x
                if kind is None:
                    continue
                n += 1
                rep.unit(mod.rel)
                slot = 'specs:%s:%s' % (fn.name, kind)
                if (fn.name, kind) in allowed:
                    rep.ok(rule, mod.rel, fn.name, slot, 'the spec forest is written where it is built', where.lineno)
                else:
                    rep.fail(rule, mod.rel, fn.name, slot, '`%s` in %s() changes ast.specs outside the places that build it (constructor, visitAssertion append, pastify): the entries are what '
                             'evaluate() returns the last of, what reset() walks and what pastify() binds the assertion names to -- a sub-specification taken out of the forest is '
                             'pastified only as part of its referrer, and get_value() of its name returns the delayed copy' % (ast.unparse(where)[:60], fn.name), where.lineno)
    return n
