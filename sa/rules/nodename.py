"""R-NAME -- the printed name of a node determines the node.

The online monitors keep one operator per *name* (online_operator_dict[node.name]) and memoise one value per name and update;
get_value() and the sub-specification tables are keyed by name as well.  Two nodes that mean different things and print alike share
one operator: whichever is built last serves both.  So the name has to be an injective rendering of what the constructor was given:

  * every child contributes its own name;
  * every scalar the constructor takes (constant value, variable and field, comparison operator; begin, end and both units of an
    interval) is a part of the name, rendered by str() or used as the string it is -- a rendering with a finite precision or a
    rounding (``'%.12g' % v``, ``round``, ``int``, a format spec) maps different values to one text;
  * the literal skeleton (the fixed text around the parts) together with the arity tells the node classes apart.

Parameters that are not part of the formula are listed in EXEMPT with the reason.
"""
import ast
import copy

from sa import dispatch as D
from sa.index import AnalysisError, ClassInfo

EXEMPT = {
    'is_pure_python': 'implementation switch (C++ back end), not part of the formula',
    'iotype': 'a function of the variable name: a variable is declared input or output once',
}
INTERVAL_FIELDS = ('begin', 'end', 'begin_unit', 'end_unit')


def _concat(e):
    """flatten a str-building expression into parts: ('lit', text) | ('val', expr, lossy-reason|None)"""
    if isinstance(e, ast.BinOp) and isinstance(e.op, ast.Add):
        return _concat(e.left) + _concat(e.right)
    if isinstance(e, ast.Constant) and isinstance(e.value, str):
        return [('lit', e.value)]
    if isinstance(e, ast.JoinedStr):
        out = []
        for v in e.values:
            if isinstance(v, ast.Constant):
                out.append(('lit', v.value))
            else:
                lossy = None
                if v.format_spec is not None and ast.unparse(v.format_spec) not in ("f''", "f's'"):
                    lossy = 'format spec %s' % ast.unparse(v.format_spec)
                out += [_val(v.value, lossy)]
        return out
    if isinstance(e, ast.Call) and isinstance(e.func, ast.Attribute) and e.func.attr == 'format' and isinstance(e.func.value, ast.Constant) \
            and isinstance(e.func.value.value, str) and not e.keywords:
        import string
        out = []
        auto = 0
        try:
            for lit, field, spec, conv in string.Formatter().parse(e.func.value.value):
                if lit:
                    out.append(('lit', lit))
                if field is None:
                    continue
                if field == '':
                    idx = auto
                    auto += 1
                elif field.isdigit():
                    idx = int(field)
                else:
                    raise AnalysisError('format field {%s}' % field)
                out.append(_val(e.args[idx], ('format spec :%s' % spec) if spec and spec != 's' else None))
        except (IndexError, ValueError) as ex:
            raise AnalysisError('cannot read format string %r (%s)' % (e.func.value.value, ex))
        return out
    if isinstance(e, ast.BinOp) and isinstance(e.op, ast.Mod) and isinstance(e.left, ast.Constant) and isinstance(e.left.value, str):
        import re
        fmt = e.left.value
        args = list(e.right.elts) if isinstance(e.right, ast.Tuple) else [e.right]
        out = []
        pos = 0
        k = 0
        for m in re.finditer(r'%(?:\(\w+\))?[-#0 +]*\d*(?:\.\d+)?[a-zA-Z%]', fmt):
            if m.start() > pos:
                out.append(('lit', fmt[pos:m.start()]))
            pos = m.end()
            if m.group(0) == '%%':
                out.append(('lit', '%'))
                continue
            if k >= len(args):
                raise AnalysisError('cannot read %% format %r' % fmt)
            out.append(_val(args[k], None if m.group(0) in ('%s', '%r') else 'conversion %s' % m.group(0)))
            k += 1
        if pos < len(fmt):
            out.append(('lit', fmt[pos:]))
        return out
    return [_val(e, None)]


def _val(e, lossy):
    # strip str(): the exact rendering of numbers, fractions and enum members
    while isinstance(e, ast.Call) and isinstance(e.func, ast.Name) and e.func.id in ('str', 'repr') and len(e.args) == 1 and not e.keywords:
        e = e.args[0]
    if lossy is None:
        # anything computed from the value rather than the value itself
        if isinstance(e, ast.Call):
            lossy = 'passes through %s(...)' % ast.unparse(e.func)
        elif isinstance(e, ast.BinOp) and not (isinstance(e.op, ast.Add)):
            lossy = 'is computed (`%s`)' % ast.unparse(e)[:40]
        elif isinstance(e, (ast.Subscript, ast.IfExp)):
            lossy = 'is `%s`' % ast.unparse(e)[:40]
    return ('val', e, lossy)


def _sources(cls_init, ix, cls):
    """ctor params -> the self attributes they are stored in ({attr: param-ish text}); children; interval param"""
    params = [a.arg for a in cls_init.node.args.args[1:]]
    stored = {}     # self.attr -> source text
    children = []
    interval_param = None
    for st in ast.walk(cls_init.node):
        if isinstance(st, ast.Assign) and len(st.targets) == 1 and isinstance(st.targets[0], ast.Attribute) and isinstance(st.targets[0].value, ast.Name) \
                and st.targets[0].value.id == 'self' and isinstance(st.value, ast.Name) and st.value.id in params:
            stored[st.targets[0].attr] = st.value.id
        if isinstance(st, ast.Call) and isinstance(st.func, ast.Attribute) and st.func.attr == '__init__' and ast.unparse(st.func.value) == 'Interval':
            args = st.args[1:]
            for fld, a in zip(INTERVAL_FIELDS, args):
                if isinstance(a, ast.Attribute) and isinstance(a.value, ast.Name) and a.value.id in params and a.attr == fld:
                    interval_param = a.value.id
                    stored[fld] = '%s.%s' % (a.value.id, fld)
                elif isinstance(a, ast.Name) and a.id in params:
                    stored[fld] = a.id
        if isinstance(st, ast.Call) and isinstance(st.func, ast.Attribute) and st.func.attr in ('__init__', 'add_child') and st.args:
            owner = ast.unparse(st.func.value)
            if owner in ('UnaryNode', 'BinaryNode', 'self') or owner.startswith('super('):
                for a in st.args:
                    if isinstance(a, ast.Name) and a.id in params and a.id not in children and a.id != 'self':
                        children.append(a.id)
    return params, stored, children, interval_param


def check(ix, rep, label, only_fields=None, rule='R-NAME'):
    n = 0
    skeletons = {}
    for cls in sorted(D.node_classes(ix), key=lambda c: c.name):
        init = cls.methods.get('__init__')
        if init is None:
            continue
        rep.analysed(init)
        rep.unit(cls.module.rel)
        params, stored, children, interval_param = _sources(init, ix, cls)
        is_timed = any(getattr(b, 'name', None) == 'Interval' for b in ix.mro(cls))
        assigns = [st for st in ast.walk(init.node) if isinstance(st, ast.Assign) and len(st.targets) == 1 and ast.unparse(st.targets[0]) == 'self.name']
        if not assigns:
            rep.fail(rule, cls.module.rel, cls.name, '%s:name' % label, 'the constructor does not assign self.name: the node is stored under the empty name', init.node.lineno)
            continue
        required = []
        for c in children:
            required.append(('child', c))
        for p in params:
            if p in children or p == interval_param or p in EXEMPT:
                continue
            required.append(('param', p))
        if is_timed:
            for fld in INTERVAL_FIELDS:
                required.append(('field', fld))
        # `self.name = A if c else B` is the two assignments of `if c: self.name = A / else: self.name = B`
        expanded = []
        for st in assigns:
            if isinstance(st.value, ast.IfExp):
                for val, in_body in ((st.value.body, True), (st.value.orelse, False)):
                    cp = ast.copy_location(ast.Assign(targets=st.targets, value=val), st)
                    cp._ifexp_test = (st.value.test, in_body)
                    expanded.append(cp)
            else:
                expanded.append(st)
        assigns = expanded
        # locals bound once to a string-building expression are part of the name they are spliced into
        local_defs = {}
        for q in ast.walk(init.node):
            if isinstance(q, ast.Assign) and len(q.targets) == 1 and isinstance(q.targets[0], ast.Name):
                local_defs.setdefault(q.targets[0].id, []).append(q.value)

        # a local that is first bound to the rendering and then, under a condition, given a literal prefix / suffix (`name = '+' + name`) is the
        # rendering for this rule; that the decorated names collide with nothing is the leaf-range clause's business (evaluated on the values)
        for k_, defs_ in list(local_defs.items()):
            if len(defs_) > 1:
                def _self_update(v_):
                    if isinstance(v_, ast.BinOp) and isinstance(v_.op, ast.Add):
                        a_, b_ = v_.left, v_.right
                        return (isinstance(a_, ast.Constant) and isinstance(a_.value, str) and isinstance(b_, ast.Name) and b_.id == k_) or \
                               (isinstance(b_, ast.Constant) and isinstance(b_.value, str) and isinstance(a_, ast.Name) and a_.id == k_)
                    return False
                if all(_self_update(v_) for v_ in defs_[1:]):
                    local_defs[k_] = defs_[:1]

        class _Inline(ast.NodeTransformer):
            def visit_Name(self, n_):
                if isinstance(n_.ctx, ast.Load) and n_.id not in params and len(local_defs.get(n_.id, [])) == 1 \
                        and isinstance(local_defs[n_.id][0], (ast.BinOp, ast.JoinedStr, ast.Call)):
                    return ast.copy_location(self.visit(copy.deepcopy(local_defs[n_.id][0])), n_)
                return n_
        for st in assigns:
            try:
                st_value = _Inline().visit(copy.deepcopy(st.value))
                parts = _concat(st_value)
            except AnalysisError as e:
                raise AnalysisError('%s: %s' % (init.where, e))
            got = {}
            for p in parts:
                if p[0] != 'val':
                    continue
                e, lossy = p[1], p[2]
                src = None
                inner = e
                # look through a lossy wrapper for the source it was computed from (for the message)
                names = [x for x in ast.walk(inner)]
                for x in names:
                    if isinstance(x, ast.Attribute) and x.attr == 'name' and isinstance(x.value, ast.Name) and x.value.id in children:
                        src = ('child', x.value.id)
                    elif isinstance(x, ast.Attribute) and isinstance(x.value, ast.Name) and x.value.id == 'self' and x.attr in stored:
                        s = stored[x.attr]
                        src = ('field', x.attr) if x.attr in INTERVAL_FIELDS and is_timed else ('param', s)
                    elif isinstance(x, ast.Attribute) and isinstance(x.value, ast.Name) and x.value.id == interval_param and x.attr in INTERVAL_FIELDS:
                        src = ('field', x.attr)
                    elif isinstance(x, ast.Name) and x.id in params and x.id not in children and x.id != interval_param:
                        src = ('param', x.id)
                    if src:
                        break
                if src is not None and (src not in got or got[src] is not None):
                    got[src] = lossy
            # a branch that leaves a parameter out is fine when the branch condition says the parameter is empty (Variable.field)
            cond_absent = set()
            par = _parent_if(init.node, st)
            if getattr(st, '_ifexp_test', None) is not None:
                par = st._ifexp_test
            if par is not None:
                t, in_body = par
                for x in ast.walk(t):
                    neg = isinstance(t, ast.UnaryOp) and isinstance(t.op, ast.Not)
                    if isinstance(x, ast.Attribute) and isinstance(x.value, ast.Name) and x.value.id == 'self' and x.attr in stored:
                        if (neg and in_body) or (not neg and not in_body):
                            cond_absent.add(('param', stored[x.attr]))
                    # the same test on the constructor parameter itself (`name = var + '.' + field if field else var`)
                    if isinstance(x, ast.Name) and x.id in params and (t is x or (neg and t.operand is x)):
                        if (neg and in_body) or (not neg and not in_body):
                            cond_absent.add(('param', x.id))
            for req in required:
                if only_fields is not None and not (req[0] == 'field' and req[1] in only_fields):
                    continue
                n += 1
                slot = '%s:%s:%s' % (label, req[0], req[1])
                if req in cond_absent and req not in got:
                    rep.ok(rule, cls.module.rel, cls.name, slot, 'left out only on the branch where it is empty', st.lineno)
                elif req not in got:
                    what = {'child': 'the name of operand `%s`', 'param': 'the constructor argument `%s`', 'field': 'the interval\'s `%s`'}[req[0]] % req[1]
                    rep.fail(rule, cls.module.rel, cls.name, slot, '%s is not part of the node\'s name `%s`: two %s nodes that differ only there print alike, and the online monitors keep '
                             'one operator and one memo entry per name -- the node built last serves both' % (what, ast.unparse(st.value)[:90], cls.name), st.lineno)
                elif got[req] is not None:
                    rep.fail(rule, cls.module.rel, cls.name, slot, '`%s` enters the name through a rendering that is not one-to-one (%s): different values print alike and then share one '
                             'online operator and one memo entry' % (req[1], got[req]), st.lineno)
                else:
                    rep.ok(rule, cls.module.rel, cls.name, slot, 'rendered one-to-one in the name', st.lineno)
            if only_fields is None:
                skel = (tuple(p[1] for p in parts if p[0] == 'lit'), len(children), is_timed)
                skeletons.setdefault(skel, []).append((cls, st))
    if only_fields is None:
        for skel, owners in sorted(skeletons.items(), key=lambda kv: kv[1][0][0].name):
            classes = sorted({c.name for c, _ in owners})
            n += 1
            c0, st0 = owners[0]
            if len(classes) > 1 and any(skel[0]):
                rep.fail(rule, c0.module.rel, c0.name, '%s:skeleton' % label, 'node classes %s print with the same fixed text %r: different operators over the same operands share a name'
                         % (classes, ''.join(skel[0])), st0.lineno)
            elif len(classes) > 1:
                # leaves: Variable and Constant consist of one part only.  They are told apart by the alphabets of identifiers and numerals -- which
                # has to be checked: str() of a float is a numeral (first character a digit or '-') except for the three non-finite values
                _leaf_ranges(ix, rep, owners, label, rule)
            else:
                rep.ok(rule, c0.module.rel, c0.name, '%s:skeleton' % label, 'fixed text %r is used by this class only' % ''.join(skel[0]), st0.lineno)
    return n


def _parent_if(fnode, st):
    for n in ast.walk(fnode):
        if isinstance(n, ast.If):
            if any(st is x for x in n.body):
                return (n.test, True)
            if any(st is x for x in n.orelse):
                return (n.test, False)
    return None


def _identifier_alphabets(ix):
    """(first characters, later characters) of the lexer's Identifier token, read from the grammar"""
    from sa import grammar as G
    lx = G.load(ix.repo)['LtlLexer']

    def chars_of(elem, seen):
        out = set()
        if elem.kind == 'lit':
            v = G._unquote(elem.value)
            if v:
                out.add(v[0])
        elif elem.kind == 'set':
            body = elem.value.strip()[1:-1]
            i = 0
            while i < len(body):
                if i + 2 < len(body) and body[i + 1] == '-':
                    out.update(chr(c) for c in range(ord(body[i]), ord(body[i + 2]) + 1))
                    i += 3
                else:
                    out.add(body[i])
                    i += 1
        elif elem.kind in ('token', 'rule'):
            out |= rule_chars(elem.value, seen)
        elif elem.kind == 'group':
            for alt in elem.value:
                if alt:
                    out |= chars_of(alt[0], seen)
        return out

    def rule_chars(name, seen):
        if name in seen or name not in lx.rules:
            return set()
        seen = seen | {name}
        out = set()
        for alt in lx.rules[name]:
            if alt.elems:
                out |= chars_of(alt.elems[0], seen)
        return out
    first = rule_chars('IdentifierStart', frozenset())
    part = rule_chars('IdentifierPart', frozenset())
    return first, part


def _leaf_ranges(ix, rep, owners, label, rule):
    from sa import worlds as W
    from sa.index import AnalysisError
    by = {c.name: (c, st) for c, st in owners}
    if set(by) != {'Constant', 'Variable'}:
        c0, st0 = owners[0]
        rep.fail(rule, c0.module.rel, '+'.join(sorted(by)), '%s:skeleton' % label, 'node classes %s print without any fixed text: nothing tells their names apart' % sorted(by), st0.lineno)
        return
    first, part = _identifier_alphabets(ix)
    if not first:
        raise AnalysisError('the alphabet of the Identifier token could not be read from the lexer grammar')
    cc, cst = by['Constant']
    init = cc.methods.get('__init__')
    bad = []
    for v in (float('inf'), float('-inf'), float('nan'), 1.0, -2.5, 1e300):
        ev = W.Evaluator(init.node, module_body=cc.module.tree.body, class_bodies=[cc.node.body])
        try:
            _, env = ev.run({init.node.args.args[1].arg: W.Const(v)})
        except W.Unknown as e:
            raise AnalysisError('%s: the name of a Constant is not computed in an interpreted form (%s)' % (init.where, e))
        except W.Raised as e:
            raise AnalysisError('%s: Constant(%r) raises %s' % (init.where, v, e.what))
        nm = env.get('self.name')
        if not isinstance(nm, W.Const) or not isinstance(nm.v, str):
            raise AnalysisError('%s: the name of Constant(%r) is not a text the analysis can follow (%r)' % (init.where, v, nm))
        if nm.v and nm.v[0] in first and all(ch in part for ch in nm.v[1:]):
            bad.append((v, nm.v))
    slot = '%s:skeleton:leaf-ranges' % label
    if bad:
        rep.fail(rule, cc.module.rel, 'Constant+Variable', slot, 'Constant(%r) prints as `%s`, which is an identifier of the specification language: a variable of that name and the constant '
                 '(`%s >= 1e999`, a declared constant whose value is inf) share one name, so the online monitors give them one operator and one memo entry -- the constant is '
                 'answered with the variable\'s sample' % (bad[0][0], bad[0][1], bad[0][1]), cst.lineno)
    else:
        rep.ok(rule, cc.module.rel, 'Constant+Variable', slot, 'no value of a Constant prints as an identifier (non-finite values included)', cst.lineno)
