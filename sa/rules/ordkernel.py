"""R-ORD -- the Allen-relation merge of two step functions, decided over the finite order domain.

For every weak ordering of the four segment ends p1 < c1, p2 < c2 (13 orderings) the if/elif chain of the merge loop
is evaluated on the ordering: the first true branch must exist (the raising else is unreachable), must emit a sample iff
the two segments overlap with positive length, at time max(p1, p2), with value method(value1, value2) in that argument
order, and must advance the list whose segment ends first.
"""
import ast
import itertools

from sa.index import AnalysisError

SYMS = ('p1', 'c1', 'p2', 'c2')


def orderings():
    """weak orderings (rank assignments) of p1,c1,p2,c2 with p1<c1 and p2<c2"""
    out = set()
    for ranks in itertools.product(range(4), repeat=4):
        used = sorted(set(ranks))
        norm = tuple(used.index(r) for r in ranks)
        d = dict(zip(SYMS, norm))
        if d['p1'] < d['c1'] and d['p2'] < d['c2']:
            out.add(norm)
    return sorted(out)


def _sym_of(e, names):
    """prev_in_sample_1[0] -> 'p1' ..."""
    if isinstance(e, ast.Subscript) and isinstance(e.value, ast.Name) and isinstance(e.slice, ast.Constant) and e.slice.value == 0:
        return names.get(e.value.id)
    return None


def eval_test(t, names, d):
    if isinstance(t, ast.BoolOp):
        vals = [eval_test(v, names, d) for v in t.values]
        return all(vals) if isinstance(t.op, ast.And) else any(vals)
    if isinstance(t, ast.Compare):
        operands = [t.left] + list(t.comparators)
        syms = [_sym_of(o, names) for o in operands]
        if any(s is None for s in syms):
            raise AnalysisError('merge test operand not a segment end: %s' % ast.unparse(t))
        ok = True
        for a, op, b in zip(syms, t.ops, syms[1:]):
            x, y = d[a], d[b]
            r = {ast.Lt: x < y, ast.LtE: x <= y, ast.Gt: x > y, ast.GtE: x >= y, ast.Eq: x == y, ast.NotEq: x != y}.get(type(op))
            if r is None:
                raise AnalysisError('merge test operator %s' % type(op).__name__)
            ok = ok and r
        return ok
    raise AnalysisError('merge test form %s' % ast.unparse(t)[:40])


def branch_actions(body, names):
    """-> dict(emit=(time symbol, [value arg texts]) or None, pops={1,2}, advances consistent)"""
    emit = None
    pops = set()
    reassigned = set()
    val_defs = {}
    for st in body:
        if isinstance(st, ast.Assign) and isinstance(st.targets[0], ast.Name) and isinstance(st.value, ast.Call) \
                and isinstance(st.value.func, ast.Name) and st.value.func.id == 'method':
            val_defs[st.targets[0].id] = [ast.unparse(a) for a in st.value.args]
        if isinstance(st, ast.Assign) and isinstance(st.targets[0], ast.Name) and isinstance(st.value, ast.Name):
            reassigned.add((st.targets[0].id, st.value.id))
        if isinstance(st, ast.Expr) and isinstance(st.value, ast.Call):
            c = st.value
            if isinstance(c.func, ast.Name) and c.func.id == '_append' and len(c.args) == 2 and isinstance(c.args[1], (ast.List, ast.Tuple)):
                tsym = _sym_of(c.args[1].elts[0], names)
                v = c.args[1].elts[1]
                vargs = val_defs.get(v.id) if isinstance(v, ast.Name) else ([ast.unparse(a) for a in v.args] if isinstance(v, ast.Call) else None)
                emit = (tsym, vargs, st.lineno)
            if isinstance(c.func, ast.Attribute) and c.func.attr == 'pop' and isinstance(c.func.value, ast.Name) and c.args \
                    and isinstance(c.args[0], ast.Constant) and c.args[0].value == 0:
                pops.add(c.func.value.id)
        # the same advance spelled `del L[0]` or `L = L[1:]`
        if isinstance(st, ast.Delete) and len(st.targets) == 1 and isinstance(st.targets[0], ast.Subscript) and isinstance(st.targets[0].value, ast.Name) \
                and isinstance(st.targets[0].slice, ast.Constant) and st.targets[0].slice.value == 0:
            pops.add(st.targets[0].value.id)
        if isinstance(st, ast.Assign) and len(st.targets) == 1 and isinstance(st.targets[0], ast.Name) and isinstance(st.value, ast.Subscript) \
                and isinstance(st.value.value, ast.Name) and st.value.value.id == st.targets[0].id and isinstance(st.value.slice, ast.Slice) \
                and st.value.slice.upper is None and st.value.slice.step is None and isinstance(st.value.slice.lower, ast.Constant) and st.value.slice.lower.value == 1:
            pops.add(st.targets[0].id)
    return emit, pops, reassigned


def check_kernel(ix, rep, modname, rule='R-ORD'):
    m = ix.module(modname)
    f = m.functions.get('intersection')
    if f is None:
        raise AnalysisError('%s.intersection vanished' % modname)
    rep.analysed(f)
    rep.unit(m.rel)
    p1n, p2n = [a.arg for a in f.node.args.args[:2]]
    # the main loop: while both lists have a successor
    loop = None
    for st in f.node.body:
        if isinstance(st, ast.While) and isinstance(st.test, ast.BoolOp):
            loop = st
            break
    if loop is None:
        raise AnalysisError('%s: merge loop not found' % f.where)
    # names of the four segment ends inside the loop
    names = {}
    for st in f.node.body:
        if isinstance(st, ast.Assign) and isinstance(st.targets[0], ast.Name) and isinstance(st.value, ast.Subscript) \
                and isinstance(st.value.value, ast.Name) and isinstance(st.value.slice, ast.Constant) and st.value.slice.value == 0:
            names[st.targets[0].id] = 'p1' if st.value.value.id == p1n else 'p2' if st.value.value.id == p2n else None
    chain = None
    cur = {}
    for st in loop.body:
        if isinstance(st, ast.Assign) and isinstance(st.targets[0], ast.Name) and isinstance(st.value, ast.Subscript) \
                and isinstance(st.value.value, ast.Name) and isinstance(st.value.slice, ast.Constant) and st.value.slice.value == 1:
            names[st.targets[0].id] = 'c1' if st.value.value.id == p1n else 'c2' if st.value.value.id == p2n else None
            cur[st.value.value.id] = st.targets[0].id
        if isinstance(st, ast.If):
            chain = st
    if chain is None or set(names.values()) != set(SYMS):
        raise AnalysisError('%s: merge loop shape not recognised (segment ends %s)' % (f.where, names))
    inv = {v: k for k, v in names.items()}
    arms = []
    n = chain
    while True:
        arms.append((n.test, n.body, n.lineno))
        if len(n.orelse) == 1 and isinstance(n.orelse[0], ast.If):
            n = n.orelse[0]
        else:
            default = n.orelse
            break
    slotp = modname.split('.')[-2]
    if not (default and any(isinstance(s, ast.Raise) for s in default)):
        rep.fail(rule, m.rel, 'intersection', '%s:default' % slotp, 'the chain has no raising default arm', chain.lineno)
    ords = orderings()
    used = set()
    v1 = '%s[1]' % inv['p1']
    v2 = '%s[1]' % inv['p2']
    for o in ords:
        d = dict(zip(SYMS, o))
        desc = ' '.join('%s' % s for s in _describe(d))
        first = None
        for i, (t, body, line) in enumerate(arms):
            if eval_test(t, names, d):
                first = i
                break
        slot = '%s:%s' % (slotp, desc)
        if first is None:
            rep.fail(rule, m.rel, 'intersection', slot, 'no branch of the merge handles the ordering %s: the raising default arm is reached' % desc, chain.lineno)
            continue
        used.add(first)
        t, body, line = arms[first]
        emit, pops, reas = branch_actions(body, names)
        overlap = max(d['p1'], d['p2']) < min(d['c1'], d['c2'])
        probs = []
        if overlap and emit is None:
            probs.append('the segments overlap on a non-empty interval but branch %d emits no sample' % (first + 1))
        if not overlap and emit is not None:
            probs.append('the segments do not overlap (or only touch) but branch %d emits a sample' % (first + 1))
        if overlap and emit is not None:
            tsym, vargs, eline = emit
            want_t = max(('p1', 'p2'), key=lambda s: d[s])
            if d[tsym] != d[want_t]:
                probs.append('branch %d emits at %s, the overlap starts at max(p1,p2) = %s' % (first + 1, tsym, want_t))
            if vargs != [v1, v2]:
                probs.append('branch %d emits method(%s); the value on the overlap is method(%s, %s) in (left, right) order'
                             % (first + 1, ', '.join(vargs or ['?']), v1, v2))
        # advance the list whose segment ends first
        want = {p1n} if d['c1'] < d['c2'] else {p2n} if d['c2'] < d['c1'] else None
        if want is not None and pops != want:
            probs.append('branch %d advances %s; the segment of %s ends first' % (first + 1, sorted(pops) or 'nothing', sorted(want)[0]))
        if want is None and len(pops) != 1:
            probs.append('branch %d advances %s; exactly one list must advance when both segments end together' % (first + 1, sorted(pops) or 'nothing'))
        for lst in pops:
            k = '1' if lst == p1n else '2'
            if (inv['p' + k], inv['c' + k]) not in reas:
                probs.append('branch %d pops %s without moving %s to the next sample' % (first + 1, lst, inv['p' + k]))
        if probs:
            for p in probs:
                rep.fail(rule, m.rel, 'intersection', slot, 'ordering %s: %s' % (desc, p), line)
        else:
            rep.ok(rule, m.rel, 'intersection', slot, 'branch %d: %s' % (first + 1, 'emit at max(p1,p2), ' if overlap else 'no emission, ') + 'advance ' + ','.join(sorted(pops)), line)
    check_operand_order(rep, m, f, slotp, rule)
    return len(ords), len(arms), used


def check_operand_order(rep, m, f, slotp, rule='R-ORD'):
    """every application of the slot function anywhere in the kernel (main loop, remainder loops, first sample) is
    method(value of a list-1 sample, value of a list-2 sample)"""
    params = [a.arg for a in f.node.args.args]
    p1n, p2n, meth = params[0], params[1], params[2]
    fam = {p1n: 1, p2n: 2}
    changed = True
    while changed:
        changed = False
        for st in ast.walk(f.node):
            if isinstance(st, ast.Assign) and len(st.targets) == 1 and isinstance(st.targets[0], ast.Name):
                v = st.value
                src = None
                if isinstance(v, ast.Subscript) and isinstance(v.value, ast.Name):
                    src = v.value.id
                elif isinstance(v, ast.Name):
                    src = v.id
                elif isinstance(v, ast.Call) and isinstance(v.func, ast.Name) and v.func.id == 'list' and v.args and isinstance(v.args[0], ast.Name):
                    src = v.args[0].id
                elif isinstance(v, ast.Call) and isinstance(v.func, ast.Attribute) and v.func.attr == 'copy' and isinstance(v.func.value, ast.Name):
                    src = v.func.value.id
                if src in fam:
                    t = st.targets[0].id
                    if fam.get(t) not in (None, fam[src]):
                        fam[t] = 0      # mixed: a name used for both lists
                    elif t not in fam:
                        fam[t] = fam[src]
                        changed = True
    n = 0
    bad = 0
    for c in ast.walk(f.node):
        if isinstance(c, ast.Call) and isinstance(c.func, ast.Name) and c.func.id == meth and len(c.args) == 2:
            n += 1
            fams = []
            for a in c.args:
                if isinstance(a, ast.Subscript) and isinstance(a.value, ast.Name) and isinstance(a.slice, ast.Constant) and a.slice.value == 1:
                    fams.append(fam.get(a.value.id))
                else:
                    fams.append(None)
            if fams != [1, 2]:
                bad += 1
                rep.fail(rule, m.rel, 'intersection', '%s:operand-order:%s' % (slotp, ast.unparse(c)[:70]),
                         'the slot function is applied as %s: its arguments must be the value of a sample of the first list and of the second list, in that order '
                         '(a non-commutative operator -- implies, -, /, pow, <= -- gets its operands swapped)' % ast.unparse(c), c.lineno)
    if n and not bad:
        rep.ok(rule, m.rel, 'intersection', '%s:operand-order' % slotp, '%d applications of the slot function, all (list-1 value, list-2 value)' % n, f.node.lineno)
    return n


def _describe(d):
    groups = {}
    for s, r in d.items():
        groups.setdefault(r, []).append(s)
    out = []
    for r in sorted(groups):
        out.append('='.join(sorted(groups[r])))
    return ['<'.join(out)]


def check_append_helper(ix, rep, modname, rule='R-ORD'):
    """`_append(out, sample)`: the emission step of the merge.  It may merge a sample into its predecessor only when the two *values* are equal
    (the output is a step function: equal consecutive values are one step) and it must never drop anything else: on every path the sample is
    appended when the list is empty or the last value differs; when the last value is equal it may be appended or not."""
    m = ix.module(modname)
    f = m.functions.get('_append')
    if f is None:
        return 0
    rep.analysed(f)
    rep.unit(m.rel)
    ps = [a.arg for a in f.node.args.args]
    if len(ps) != 2:
        raise AnalysisError('%s: _append takes %d parameters' % (f.where, len(ps)))
    L, item = ps
    binds = {}

    def text(e):
        t = ast.unparse(e).replace(' ', '')
        for k_, v_ in binds.items():
            t = t.replace(k_ + '[', '(' + v_ + ')[')
        return t.replace('(%s[-1])' % L, '%s[-1]' % L).replace('%s[len(%s)-1]' % (L, L), '%s[-1]' % L)

    def atom(t):
        """-> ('empty', truth) | ('valdiff', truth) | None"""
        if isinstance(t, ast.UnaryOp) and isinstance(t.op, ast.Not):
            a = atom(t.operand)
            return None if a is None else (a[0], not a[1])
        s_ = text(t)
        if s_ == L:
            return ('empty', False)
        if s_ in ('len(%s)==0' % L, '%s==[]' % L):
            return ('empty', True)
        if s_ in ('len(%s)>0' % L, 'len(%s)!=0' % L, 'len(%s)>=1' % L):
            return ('empty', False)
        last, new = '%s[-1][1]' % L, '%s[1]' % item
        if s_ in ('%s!=%s' % (last, new), '%s!=%s' % (new, last)):
            return ('valdiff', True)
        if s_ in ('%s==%s' % (last, new), '%s==%s' % (new, last)):
            return ('valdiff', False)
        return None
    class _Idx(Exception):
        pass
    opaque = set()

    def ev(t, world):
        if isinstance(t, ast.BoolOp):
            if isinstance(t.op, ast.And):
                for v in t.values:
                    if not ev(v, world):
                        return False
                return True
            for v in t.values:
                if ev(v, world):
                    return True
            return False
        a_ = atom(t)
        if a_ is None:
            # a test on something else (times, lengths, ..): free -- both outcomes are tried
            key = text(t)
            opaque.add(key)
            if ('%s[-1]' % L) in key and world['empty']:
                raise _Idx()
            return world['opaque'].get(key, False)
        if a_[0] == 'empty':
            return world['empty'] == a_[1]
        if world['empty']:
            raise _Idx()
        return world['valdiff'] == a_[1]

    def run(stmts, world):
        """-> appended?"""
        appended = False
        for st in stmts:
            if isinstance(st, ast.Assign) and len(st.targets) == 1 and isinstance(st.targets[0], ast.Name):
                if ('%s[-1]' % L) in text(st.value) and world['empty']:
                    raise _Idx()
                binds[st.targets[0].id] = text(st.value)
                continue
            if isinstance(st, ast.Expr) and isinstance(st.value, ast.Constant) or isinstance(st, ast.Pass):
                continue
            if isinstance(st, ast.Expr) and isinstance(st.value, ast.Call) and text(st.value) == '%s.append(%s)' % (L, item):
                appended = True
                continue
            if isinstance(st, ast.Return):
                return appended, True
            if isinstance(st, ast.If):
                r, done = run(st.body if ev(st.test, world) else st.orelse, world)
                appended = appended or r
                if done:
                    return appended, True
                continue
            raise AnalysisError('%s: statement `%s` of the emission helper is not interpreted' % (f.where, ast.unparse(st)[:60]))
        return appended, False
    bad = None
    for world, must, what in (({'empty': True, 'valdiff': None}, True, 'the first sample'),
                              ({'empty': False, 'valdiff': True}, True, 'a sample whose value differs from the last emitted one'),
                              ({'empty': False, 'valdiff': False}, False, '')):
        import itertools
        opaque.clear()
        world['opaque'] = {}
        binds.clear()
        try:
            run(list(f.node.body), world)          # discovers the free tests
            for vals in itertools.product((False, True), repeat=len(opaque)):
                world['opaque'] = dict(zip(sorted(opaque), vals))
                binds.clear()
                appended, _ = run(list(f.node.body), world)
                if must and not appended:
                    bad = '%s is not appended%s' % (what, (' when `%s`' % ' and '.join('%s%s' % ('' if v else 'not ', k) for k, v in sorted(world['opaque'].items()))) if opaque else '')
                    break
        except _Idx:
            bad = 'the last emitted sample is read while the list is still empty (IndexError on the first sample)'
        if bad:
            break
    if bad:
        rep.fail(rule, m.rel, '_append', 'emit-helper', 'the emission helper of the merge does not keep every change of value: %s' % bad, f.node.lineno)
    else:
        rep.ok(rule, m.rel, '_append', 'emit-helper', 'a sample is appended when the list is empty or its value differs from the last one; equal values may be merged', f.node.lineno)
    return 1


def check_finitary(ix, rep, modname, rule='R-ORD'):
    m = ix.module(modname)
    f = m.functions['intersection']
    p1n, p2n = [a.arg for a in f.node.args.args[:2]]
    ok = 0
    for st in f.node.body:
        if isinstance(st, ast.If):
            src = ast.unparse(st).replace(' ', '')
            for nm in (p1n, p2n):
                ext = "[float('inf'),%s[-1][1]]" % nm
                forms = ("%s.append(%s)" % (nm, ext), "%s=%s+[%s]" % (nm, nm, ext), "%s=list(%s)+[%s]" % (nm, nm, ext), "%s+=[%s]" % (nm, ext), "%s.extend([%s])" % (nm, ext))
                if src.startswith("if%s[-1][0]<float('inf'):" % nm) and any(fm in src for fm in forms):
                    ok += 1
    if ok == 2:
        rep.ok(rule, m.rel, 'intersection', 'finitary-extension', 'both operands are extended with [inf, last value] (last value held)', f.node.lineno)
    else:
        rep.fail(rule, m.rel, 'intersection', 'finitary-extension', 'the last value of an operand is not held to infinity before merging', f.node.lineno)
    # the inputs are copied before being consumed
    copies = [s for s in f.node.body if isinstance(s, ast.Assign) and isinstance(s.value, ast.Call) and getattr(s.value.func, 'id', None) == 'list'
              and isinstance(s.targets[0], ast.Name) and s.targets[0].id in (p1n, p2n)]
    if len(copies) == 2:
        rep.ok(rule, m.rel, 'intersection', 'copies-inputs', 'the operands are copied before pop()', f.node.lineno)
    else:
        rep.fail(rule, m.rel, 'intersection', 'copies-inputs', 'the merge pops from its operand lists without copying them first', f.node.lineno)


# ------------------------------------------------------------------------------------------------- dense-time online untimed since
def check_since_online(ix, rep, cls, rule='R-ORD'):
    """SinceOperation.update merges the two operand buffers itself: per pair of current segments [a_start, a_end) x [b_start, b_end) it compares
    the ends only.  Over the 13 weak orderings: a sample is emitted iff the segments overlap with positive length, at max(a_start, b_start), with
    the value  max(min(l, r), min(l, prev))  (non-strict since), the carried state becomes that value, and the segment that ends first is dropped
    (both when they end together)."""
    from sa import opsum as O
    from sa.rules import opref
    f = cls.methods.get('update')
    if f is None:
        rep.error('%s: no update' % cls.name)
        return 0
    rep.analysed(f)
    rep.unit(f.module.rel)
    loop = None
    for st in f.node.body:
        if isinstance(st, ast.While):
            loop = st
    if loop is None:
        rep.error('%s (%s.update): merge loop not found' % (f.where, cls.name))
        return 0
    params = [a.arg for a in f.node.args.args[1:3]]
    # buffers: a = self.x_buf + sample_left ...
    lists = {}
    for st in f.node.body:
        if isinstance(st, ast.Assign) and isinstance(st.targets[0], ast.Name) and isinstance(st.value, ast.BinOp) and isinstance(st.value.op, ast.Add) \
                and isinstance(st.value.right, ast.Name) and st.value.right.id in params:
            lists[st.targets[0].id] = 1 + params.index(st.value.right.id)
    if sorted(lists.values()) != [1, 2]:
        rep.error('%s (%s.update): operand buffers not recognised (%s)' % (f.where, cls.name, lists))
        return 0
    idx = {}
    for st in f.node.body:
        if isinstance(st, ast.Assign) and all(isinstance(t, ast.Name) for t in st.targets) and isinstance(st.value, ast.Constant) and st.value.value == 1:
            for t in st.targets:
                idx[t.id] = 1
    # names inside the loop
    sym = {}      # local -> ('t', 'p1') | ('v', k, 'cur'|'next')
    for st in loop.body:
        if isinstance(st, ast.Assign) and isinstance(st.targets[0], ast.Name) and isinstance(st.value, ast.Subscript) and isinstance(st.value.value, ast.Subscript) \
                and isinstance(st.value.value.value, ast.Name) and st.value.value.value.id in lists and isinstance(st.value.slice, ast.Constant):
            k = lists[st.value.value.value.id]
            ie = ast.unparse(st.value.value.slice).replace(' ', '')
            which = 'cur' if ie.endswith('-1') else 'next'
            if st.value.slice.value == 0:
                sym[st.targets[0].id] = ('t', ('p' if which == 'cur' else 'c') + str(k))
            else:
                sym[st.targets[0].id] = ('v', k, which)
    need = {('t', 'p1'), ('t', 'c1'), ('t', 'p2'), ('t', 'c2')}
    if not need <= set(sym.values()):
        rep.error('%s (%s.update): segment ends not recognised (%s)' % (f.where, cls.name, sorted(sym.values(), key=str)))
        return 0
    slotp = 'dense-online:Since'
    probs = {}
    n = 0
    listname = {v: k for k, v in lists.items()}

    def num(e, d, env):
        if isinstance(e, ast.Name) and e.id in env:
            return env[e.id]
        if isinstance(e, ast.Name) and e.id in sym and sym[e.id][0] == 't':
            return d[sym[e.id][1]]
        if isinstance(e, ast.Call) and isinstance(e.func, ast.Name) and e.func.id in ('min', 'max') and len(e.args) == 2:
            x, y = num(e.args[0], d, env), num(e.args[1], d, env)
            return min(x, y) if e.func.id == 'min' else max(x, y)
        raise AnalysisError('time expression %s' % ast.unparse(e)[:40])

    def test(t, d, env):
        if isinstance(t, ast.Compare) and len(t.ops) == 1:
            x, y = num(t.left, d, env), num(t.comparators[0], d, env)
            return {ast.Lt: x < y, ast.LtE: x <= y, ast.Gt: x > y, ast.GtE: x >= y, ast.Eq: x == y, ast.NotEq: x != y}[type(t.ops[0])]
        if isinstance(t, ast.BoolOp):
            vals = [test(v, d, env) for v in t.values]
            return all(vals) if isinstance(t.op, ast.And) else any(vals)
        raise AnalysisError('test %s' % ast.unparse(t)[:40])

    val_expr = None
    state_ok = None
    for o in orderings():
        d = dict(zip(SYMS, o))
        n += 1
        env = {}
        pops = set()
        emitted = []
        state_written = []

        def run(stmts):
            nonlocal val_expr
            for st in stmts:
                if isinstance(st, ast.If):
                    run(st.body if test(st.test, d, env) else st.orelse)
                elif isinstance(st, ast.Delete):
                    for t in st.targets:
                        if isinstance(t, ast.Subscript) and isinstance(t.value, ast.Name) and t.value.id in lists:
                            pops.add(lists[t.value.id])
                elif isinstance(st, ast.Expr) and isinstance(st.value, ast.Call) and isinstance(st.value.func, ast.Name) and st.value.func.id == 'del':
                    a0 = st.value.args[0]
                    if isinstance(a0, ast.Subscript) and isinstance(a0.value, ast.Name) and a0.value.id in lists:
                        pops.add(lists[a0.value.id])
                elif isinstance(st, ast.Assign) and isinstance(st.targets[0], ast.Name):
                    nm = st.targets[0].id
                    if nm in sym:
                        continue
                    try:
                        env[nm] = num(st.value, d, env)
                    except AnalysisError:
                        env[nm] = ('expr', st.value)
                elif isinstance(st, ast.Assign) and ast.unparse(st.targets[0]).startswith('self.'):
                    state_written.append((ast.unparse(st.targets[0]), st.value))
                elif isinstance(st, ast.Expr) and isinstance(st.value, ast.Call) and isinstance(st.value.func, ast.Attribute) and st.value.func.attr == 'append':
                    a0 = st.value.args[0]
                    if isinstance(a0, ast.List) and len(a0.elts) == 2:
                        emitted.append((num(a0.elts[0], d, env), a0.elts[1]))
                elif isinstance(st, (ast.Pass,)):
                    pass
        try:
            run(loop.body)
        except AnalysisError as e:
            rep.error('%s (%s.update): %s' % (f.where, cls.name, e))
            return n
        desc = ' '.join(_describe(d))
        overlap = max(d['p1'], d['p2']) < min(d['c1'], d['c2'])
        if overlap and not emitted:
            probs.setdefault('emit', 'ordering %s: the segments overlap but no sample is emitted' % desc)
        if not overlap and emitted:
            probs.setdefault('emit-empty', 'ordering %s: a sample is emitted although the segments do not overlap' % desc)
        for (t, ve) in emitted:
            if t != max(d['p1'], d['p2']):
                probs.setdefault('emit-time', 'ordering %s: the sample is emitted at %s instead of max(a_start, b_start)' % (desc, t))
            vexpr = env.get(ve.id) if isinstance(ve, ast.Name) else ('expr', ve)
            if isinstance(vexpr, tuple) and vexpr[0] == 'expr':
                val_expr = vexpr[1]
            if overlap:
                sw = [v for (k_, v) in state_written if k_ == 'self.prev']
                if not sw or not (isinstance(sw[-1], ast.Name) and isinstance(ve, ast.Name) and sw[-1].id == ve.id):
                    probs.setdefault('state', 'ordering %s: the carried state is not set to the emitted value' % desc)
        want = {1} if d['c1'] < d['c2'] else {2} if d['c2'] < d['c1'] else {1, 2}
        if pops != want:
            probs.setdefault('advance', 'ordering %s: drops the current segment of %s; the segment(s) ending first are %s' % (
                desc, sorted(listname[k] for k in pops) or 'nothing', sorted(listname[k] for k in want)))
    # the emitted value is the non-strict since step
    if val_expr is not None:
        names = {}
        for nm, s_ in sym.items():
            if s_[0] == 'v' and s_[2] == 'cur':
                names[nm] = opref.X0 if s_[1] == 1 else opref.X1
        try:
            sc = O.Scalar(dict(names))
            sc.env['self.prev'] = opref.ST
            term = _scalar_with_self(O, val_expr, names)
        except Exception as e:
            term = None
        want_t = O.mk('max', [O.mk('min', [opref.X0, opref.X1]), O.mk('min', [opref.X0, opref.ST])])
        if term is None:
            rep.error('%s (%s.update): emitted value %s not summarised' % (f.where, cls.name, ast.unparse(val_expr)))
        elif term != want_t:
            probs.setdefault('value', 'the emitted value is %s; the non-strict since step is max(min(l, r), min(l, prev))' % ast.unparse(val_expr))
    # initial state: no witness yet
    init = cls.methods.get('__init__')
    iv = None
    if init is not None:
        for st in init.node.body:
            if isinstance(st, ast.Assign) and ast.unparse(st.targets[0]) == 'self.prev':
                iv = st.value
    if iv is None or ast.unparse(iv).replace(' ', '').replace('"', "'") != "-float('inf')":
        probs.setdefault('init', 'the carried state starts as %s; before any witness the since is -inf' % (ast.unparse(iv) if iv is not None else 'undefined'))
    for key, text in sorted(probs.items()):
        rep.fail(rule, f.module.rel, '%s.update' % cls.name, '%s:%s' % (slotp, key), text, loop.lineno)
    if not probs:
        rep.ok(rule, f.module.rel, '%s.update' % cls.name, slotp, '%d orderings: emit iff overlap, at max(starts), value max(min(l,r),min(l,prev)), state updated, segment ending first dropped' % n, loop.lineno)
    return n


def _scalar_with_self(O, e, names):
    """operator-summary term of a value expression over a_val (x0), b_val (x1), self.prev (st)"""
    from sa.rules import opref
    if isinstance(e, ast.Name) and e.id in names:
        return names[e.id]
    if isinstance(e, ast.Attribute) and ast.unparse(e) == 'self.prev':
        return opref.ST
    if isinstance(e, ast.Call) and isinstance(e.func, ast.Name) and e.func.id in ('min', 'max'):
        return O.mk(e.func.id, [_scalar_with_self(O, a, names) for a in e.args])
    raise AnalysisError('value expression %s' % ast.unparse(e)[:40])


# ------------------------------------------------------------------------------------------------- online kernel: remainder loops
def check_remainder(ix, rep, modname, rule='R-ORD'):
    """After the main merge one operand has only its last sample left (time q, value held from q on, extent unknown) while the other may still
    have segments [p, c).  The two remainder loops emit what is known up to q.  Over the five weak orderings of q against p < c:
        q < p        nothing is known about the overlap: stop, no sample
        q = p        closing sample [q, method(value at p, value at q)]; no list advances past q
        p < q < c    closing sample [q, method(value on [p,c), value at q)]
        q = c        closing sample [q, method(value from c on, value at q)]; the exhausted segment is dropped
        q > c        the segment lies before the other operand's knowledge: drop it, no sample, and no stale closing sample is kept
    the slot function always gets (list-1 value, list-2 value); a loop iteration that does not stop advances the longer list."""
    m = ix.module(modname)
    f = m.functions.get('intersection')
    if f is None:
        raise AnalysisError('%s.intersection vanished' % modname)
    params = [a.arg for a in f.node.args.args]
    p1n, p2n, meth = params[0], params[1], params[2]
    # remainder loops: while <list>[1:] with a single list in the test, after the main loop
    loops = []
    for st in ast.walk(f.node):
        if isinstance(st, ast.While) and isinstance(st.test, ast.Subscript) and isinstance(st.test.value, ast.Name) and st.test.value.id in (p1n, p2n):
            loops.append((st, 1 if st.test.value.id == p1n else 2))
    slotp = modname.split('.')[-2]
    if len(loops) != 2:
        rep.error('%s: expected two remainder loops, found %d' % (f.where, len(loops)))
        return 0
    rep.analysed(f)
    n = 0
    for loop, k in loops:
        other = 2 if k == 1 else 1
        # names: current_in_sample_k = in_samples_k[1]; prev_in_sample_1/2 are bound before
        cur = None
        for st in loop.body:
            if isinstance(st, ast.Assign) and isinstance(st.targets[0], ast.Name) and isinstance(st.value, ast.Subscript) and isinstance(st.value.value, ast.Name) \
                    and st.value.value.id == (p1n if k == 1 else p2n) and isinstance(st.value.slice, ast.Constant) and st.value.slice.value == 1:
                cur = st.targets[0].id
        prevs = {}
        for st in f.node.body:
            if isinstance(st, ast.Assign) and isinstance(st.targets[0], ast.Name) and isinstance(st.value, ast.Subscript) and isinstance(st.value.value, ast.Name) \
                    and isinstance(st.value.slice, ast.Constant) and st.value.slice.value == 0:
                if st.value.value.id == p1n:
                    prevs[1] = st.targets[0].id
                if st.value.value.id == p2n:
                    prevs[2] = st.targets[0].id
        if cur is None or set(prevs) != {1, 2}:
            rep.error('%s: remainder loop over list %d not in the recognised shape' % (f.where, k))
            continue
        chain = [s for s in loop.body if isinstance(s, ast.If)]
        if len(chain) != 1:
            rep.error('%s: remainder loop over list %d has %d if-chains' % (f.where, k, len(chain)))
            continue
        # the loop is entered whenever its list still has a successor: an enclosing guard must say exactly that
        lname = p1n if k == 1 else p2n
        for g in ast.walk(f.node):
            if isinstance(g, ast.If) and (loop in g.body):
                gt = ast.unparse(g.test).replace(' ', '')
                if gt not in ('len(%s)>1' % lname, 'len(%s)>=2' % lname, '%s[1:]' % lname, '1<len(%s)' % lname):
                    rep.fail(rule, m.rel, 'intersection', '%s:remainder:list%d:guard' % (slotp, k), 'the remainder loop over the longer list is guarded by `%s`: it must run whenever that list '
                             'still has a successor, otherwise the closing sample of the update is missing' % ast.unparse(g.test), g.lineno)
        names = {prevs[k]: 'p', cur: 'c', prevs[other]: 'q'}
        probs = {}
        for pos, d in (('q < p', {'q': 0, 'p': 1, 'c': 2}), ('q = p', {'q': 1, 'p': 1, 'c': 2}), ('p < q < c', {'p': 0, 'q': 1, 'c': 2}),
                       ('q = c', {'p': 0, 'q': 2, 'c': 2}), ('q > c', {'p': 0, 'c': 1, 'q': 2})):
            n += 1
            st_ = {'stop': False, 'adv': False, 'last': 'keep', 'emit': [], 'lastval': None}

            def tnum(e):
                if isinstance(e, ast.Subscript) and isinstance(e.value, ast.Name) and e.value.id in names and isinstance(e.slice, ast.Constant) and e.slice.value == 0:
                    return d[names[e.value.id]]
                raise AnalysisError('remainder test operand %s' % ast.unparse(e)[:40])

            def test(t):
                if isinstance(t, ast.Compare):
                    vals = [tnum(x) for x in [t.left] + list(t.comparators)]
                    ok = True
                    for x, op, y in zip(vals, t.ops, vals[1:]):
                        ok = ok and {ast.Lt: x < y, ast.LtE: x <= y, ast.Gt: x > y, ast.GtE: x >= y, ast.Eq: x == y, ast.NotEq: x != y}[type(op)]
                    return ok
                if isinstance(t, ast.BoolOp):
                    vals = [test(v) for v in t.values]
                    return all(vals) if isinstance(t.op, ast.And) else any(vals)
                raise AnalysisError('remainder test %s' % ast.unparse(t)[:40])
            env = {}

            def sample_of(e):
                """[time expr, value expr] list literal or a local bound to one -> (time symbol, (which-1, which-2))"""
                if isinstance(e, ast.Name) and e.id in env:
                    return env[e.id]
                if isinstance(e, ast.List) and len(e.elts) == 2:
                    tt = tnum(e.elts[0])
                    ve = e.elts[1]
                    if isinstance(ve, ast.Name) and ve.id in env:
                        return (tt, env[ve.id])
                    return (tt, call_args(ve))
                return None

            def call_args(ve):
                if isinstance(ve, ast.Call) and isinstance(ve.func, ast.Name) and ve.func.id == meth and len(ve.args) == 2:
                    out = []
                    for a in ve.args:
                        if isinstance(a, ast.Subscript) and isinstance(a.value, ast.Name) and a.value.id in names and isinstance(a.slice, ast.Constant) and a.slice.value == 1:
                            out.append(names[a.value.id])
                        else:
                            out.append('?')
                    return tuple(out)
                return ('?', '?')

            def run(stmts):
                for s2 in stmts:
                    if st_['stop']:
                        return
                    if isinstance(s2, ast.If):
                        run(s2.body if test(s2.test) else s2.orelse)
                    elif isinstance(s2, ast.Break):
                        st_['stop'] = True
                    elif isinstance(s2, ast.Assign) and isinstance(s2.targets[0], ast.Name):
                        nm = s2.targets[0].id
                        if nm == 'last':
                            if isinstance(s2.value, ast.List) and not s2.value.elts:
                                st_['last'] = 'cleared'
                            else:
                                st_['last'] = sample_of(s2.value)
                        elif nm in names and names[nm] == 'p':
                            pass    # prev := current (advance bookkeeping)
                        else:
                            v = s2.value
                            if isinstance(v, ast.Call):
                                env[nm] = call_args(v)
                            elif isinstance(v, ast.List):
                                env[nm] = sample_of(v)
                    elif isinstance(s2, ast.Expr) and isinstance(s2.value, ast.Call):
                        c = s2.value
                        if isinstance(c.func, ast.Attribute) and c.func.attr == 'pop' and isinstance(c.func.value, ast.Name) and c.func.value.id == (p1n if k == 1 else p2n):
                            st_['adv'] = True
                        elif isinstance(c.func, ast.Name) and c.func.id == '_append' and len(c.args) == 2:
                            sm = sample_of(c.args[1])
                            if sm is None and isinstance(c.args[1], ast.Name) and c.args[1].id == 'last':
                                sm = st_['last']
                            st_['emit'].append(sm)
                        elif isinstance(c.func, ast.Attribute) and c.func.attr == 'append':
                            st_['emit'].append(sample_of(c.args[0]))
            try:
                run(chain[0:1])
            except AnalysisError as e:
                rep.error('%s: %s' % (f.where, e))
                return n
            # the value pair (list-1 source, list-2 source) expected at q
            src_k = {'q = p': 'p', 'p < q < c': 'p', 'q = c': 'c'}.get(pos)
            want_pair = None
            if src_k:
                want_pair = (src_k, 'q') if k == 1 else ('q', src_k)
            eff = [x for x in st_['emit'] if x] + ([st_['last']] if isinstance(st_['last'], tuple) else [])
            key = 'list%d:%s' % (k, pos)
            if want_pair is None:
                if eff:
                    probs[key] = 'state %s: a sample is produced although nothing is known there' % pos
                elif pos == 'q < p' and not st_['stop']:
                    probs[key] = 'state %s: the loop does not stop' % pos
                elif pos == 'q > c' and not st_['adv']:
                    probs[key] = 'state %s: the exhausted segment is not dropped (no progress)' % pos
                elif pos == 'q > c' and st_['last'] != 'cleared':
                    probs[key] = 'state %s: a stale closing sample is kept' % pos
            else:
                if not eff:
                    probs[key] = 'state %s: no closing sample at the last commonly known time' % pos
                else:
                    for (tt, pair) in eff:
                        if tt != d['q']:
                            probs[key] = 'state %s: the closing sample is at %s, not at the last sample time of the shorter operand' % (pos, [nm for nm, v in d.items() if v == tt])
                        elif pair != want_pair:
                            probs[key] = 'state %s: the closing sample is method(%s, %s); at that time the operands have the values (%s, %s)  [p/c: current/next sample of the longer list, q: last sample of the other]' % (
                                pos, pair[0], pair[1], want_pair[0], want_pair[1])
                if pos == 'q = c' and not (st_['adv'] or st_['stop']):
                    probs[key] = 'state %s: no progress' % pos
                if pos == 'p < q < c' and not (st_['adv'] or st_['stop']):
                    probs[key] = 'state %s: no progress' % pos
        for key, text in sorted(probs.items()):
            rep.fail(rule, m.rel, 'intersection', '%s:remainder:%s' % (slotp, key), text, loop.lineno)
        if not probs:
            rep.ok(rule, m.rel, 'intersection', '%s:remainder:list%d' % (slotp, k), '5 orderings of the other operand\'s last sample against the current segment: closing sample and progress as the semantics requires', loop.lineno)
    return n
