"""R-ORD -- the Allen-relation merge of two step functions, decided over the finite order domain.

For every weak ordering of the four segment ends p1 < c1, p2 < c2 (13 orderings) the if/elif chain of the merge loop
is evaluated on the ordering: the first true branch must exist (the raising else is unreachable), must emit a sample iff
the two segments overlap with positive length, at time max(p1, p2), with value method(value1, value2) in that argument
order, and must advance the list whose segment ends first.
"""
import ast
import itertools

from sa.index import AnalysisError

SYMS = ('p1', 'c1', 'p2', 'c2')


def orderings():
    """weak orderings (rank assignments) of p1,c1,p2,c2 with p1<c1 and p2<c2"""
    out = set()
    for ranks in itertools.product(range(4), repeat=4):
        used = sorted(set(ranks))
        norm = tuple(used.index(r) for r in ranks)
        d = dict(zip(SYMS, norm))
        if d['p1'] < d['c1'] and d['p2'] < d['c2']:
            out.add(norm)
    return sorted(out)


def _sym_of(e, names):
    """prev_in_sample_1[0] -> 'p1' ..."""
    if isinstance(e, ast.Subscript) and isinstance(e.value, ast.Name) and isinstance(e.slice, ast.Constant) and e.slice.value == 0:
        return names.get(e.value.id)
    return None


def eval_test(t, names, d):
    if isinstance(t, ast.BoolOp):
        vals = [eval_test(v, names, d) for v in t.values]
        return all(vals) if isinstance(t.op, ast.And) else any(vals)
    if isinstance(t, ast.Compare):
        operands = [t.left] + list(t.comparators)
        syms = [_sym_of(o, names) for o in operands]
        if any(s is None for s in syms):
            raise AnalysisError('merge test operand not a segment end: %s' % ast.unparse(t))
        ok = True
        for a, op, b in zip(syms, t.ops, syms[1:]):
            x, y = d[a], d[b]
            r = {ast.Lt: x < y, ast.LtE: x <= y, ast.Gt: x > y, ast.GtE: x >= y, ast.Eq: x == y, ast.NotEq: x != y}.get(type(op))
            if r is None:
                raise AnalysisError('merge test operator %s' % type(op).__name__)
            ok = ok and r
        return ok
    raise AnalysisError('merge test form %s' % ast.unparse(t)[:40])


def branch_actions(body, names):
    """-> dict(emit=(time symbol, [value arg texts]) or None, pops={1,2}, advances consistent)"""
    emit = None
    pops = set()
    reassigned = set()
    val_defs = {}
    for st in body:
        if isinstance(st, ast.Assign) and isinstance(st.targets[0], ast.Name) and isinstance(st.value, ast.Call) \
                and isinstance(st.value.func, ast.Name) and st.value.func.id == 'method':
            val_defs[st.targets[0].id] = [ast.unparse(a) for a in st.value.args]
        if isinstance(st, ast.Assign) and isinstance(st.targets[0], ast.Name) and isinstance(st.value, ast.Name):
            reassigned.add((st.targets[0].id, st.value.id))
        if isinstance(st, ast.Expr) and isinstance(st.value, ast.Call):
            c = st.value
            if isinstance(c.func, ast.Name) and c.func.id == '_append' and len(c.args) == 2 and isinstance(c.args[1], (ast.List, ast.Tuple)):
                tsym = _sym_of(c.args[1].elts[0], names)
                v = c.args[1].elts[1]
                vargs = val_defs.get(v.id) if isinstance(v, ast.Name) else ([ast.unparse(a) for a in v.args] if isinstance(v, ast.Call) else None)
                emit = (tsym, vargs, st.lineno)
            if isinstance(c.func, ast.Attribute) and c.func.attr == 'pop' and isinstance(c.func.value, ast.Name) and c.args \
                    and isinstance(c.args[0], ast.Constant) and c.args[0].value == 0:
                pops.add(c.func.value.id)
    return emit, pops, reassigned


def check_kernel(ix, rep, modname, rule='R-ORD'):
    m = ix.module(modname)
    f = m.functions.get('intersection')
    if f is None:
        raise AnalysisError('%s.intersection vanished' % modname)
    rep.analysed(f)
    rep.unit(m.rel)
    p1n, p2n = [a.arg for a in f.node.args.args[:2]]
    # the main loop: while both lists have a successor
    loop = None
    for st in f.node.body:
        if isinstance(st, ast.While) and isinstance(st.test, ast.BoolOp):
            loop = st
            break
    if loop is None:
        raise AnalysisError('%s: merge loop not found' % f.where)
    # names of the four segment ends inside the loop
    names = {}
    for st in f.node.body:
        if isinstance(st, ast.Assign) and isinstance(st.targets[0], ast.Name) and isinstance(st.value, ast.Subscript) \
                and isinstance(st.value.value, ast.Name) and isinstance(st.value.slice, ast.Constant) and st.value.slice.value == 0:
            names[st.targets[0].id] = 'p1' if st.value.value.id == p1n else 'p2' if st.value.value.id == p2n else None
    chain = None
    cur = {}
    for st in loop.body:
        if isinstance(st, ast.Assign) and isinstance(st.targets[0], ast.Name) and isinstance(st.value, ast.Subscript) \
                and isinstance(st.value.value, ast.Name) and isinstance(st.value.slice, ast.Constant) and st.value.slice.value == 1:
            names[st.targets[0].id] = 'c1' if st.value.value.id == p1n else 'c2' if st.value.value.id == p2n else None
            cur[st.value.value.id] = st.targets[0].id
        if isinstance(st, ast.If):
            chain = st
    if chain is None or set(names.values()) != set(SYMS):
        raise AnalysisError('%s: merge loop shape not recognised (segment ends %s)' % (f.where, names))
    inv = {v: k for k, v in names.items()}
    arms = []
    n = chain
    while True:
        arms.append((n.test, n.body, n.lineno))
        if len(n.orelse) == 1 and isinstance(n.orelse[0], ast.If):
            n = n.orelse[0]
        else:
            default = n.orelse
            break
    slotp = modname.split('.')[-2]
    if not (default and any(isinstance(s, ast.Raise) for s in default)):
        rep.fail(rule, m.rel, 'intersection', '%s:default' % slotp, 'the chain has no raising default arm', chain.lineno)
    ords = orderings()
    used = set()
    v1 = '%s[1]' % inv['p1']
    v2 = '%s[1]' % inv['p2']
    for o in ords:
        d = dict(zip(SYMS, o))
        desc = ' '.join('%s' % s for s in _describe(d))
        first = None
        for i, (t, body, line) in enumerate(arms):
            if eval_test(t, names, d):
                first = i
                break
        slot = '%s:%s' % (slotp, desc)
        if first is None:
            rep.fail(rule, m.rel, 'intersection', slot, 'no branch of the merge handles the ordering %s: the raising default arm is reached' % desc, chain.lineno)
            continue
        used.add(first)
        t, body, line = arms[first]
        emit, pops, reas = branch_actions(body, names)
        overlap = max(d['p1'], d['p2']) < min(d['c1'], d['c2'])
        probs = []
        if overlap and emit is None:
            probs.append('the segments overlap on a non-empty interval but branch %d emits no sample' % (first + 1))
        if not overlap and emit is not None:
            probs.append('the segments do not overlap (or only touch) but branch %d emits a sample' % (first + 1))
        if overlap and emit is not None:
            tsym, vargs, eline = emit
            want_t = max(('p1', 'p2'), key=lambda s: d[s])
            if d[tsym] != d[want_t]:
                probs.append('branch %d emits at %s, the overlap starts at max(p1,p2) = %s' % (first + 1, tsym, want_t))
            if vargs != [v1, v2]:
                probs.append('branch %d emits method(%s); the value on the overlap is method(%s, %s) in (left, right) order'
                             % (first + 1, ', '.join(vargs or ['?']), v1, v2))
        # advance the list whose segment ends first
        want = {p1n} if d['c1'] < d['c2'] else {p2n} if d['c2'] < d['c1'] else None
        if want is not None and pops != want:
            probs.append('branch %d advances %s; the segment of %s ends first' % (first + 1, sorted(pops) or 'nothing', sorted(want)[0]))
        if want is None and len(pops) != 1:
            probs.append('branch %d advances %s; exactly one list must advance when both segments end together' % (first + 1, sorted(pops) or 'nothing'))
        for lst in pops:
            k = '1' if lst == p1n else '2'
            if (inv['p' + k], inv['c' + k]) not in reas:
                probs.append('branch %d pops %s without moving %s to the next sample' % (first + 1, lst, inv['p' + k]))
        if probs:
            for p in probs:
                rep.fail(rule, m.rel, 'intersection', slot, 'ordering %s: %s' % (desc, p), line)
        else:
            rep.ok(rule, m.rel, 'intersection', slot, 'branch %d: %s' % (first + 1, 'emit at max(p1,p2), ' if overlap else 'no emission, ') + 'advance ' + ','.join(sorted(pops)), line)
    check_operand_order(rep, m, f, slotp, rule)
    return len(ords), len(arms), used


def check_operand_order(rep, m, f, slotp, rule='R-ORD'):
    """every application of the slot function anywhere in the kernel (main loop, remainder loops, first sample) is
    method(value of a list-1 sample, value of a list-2 sample)"""
    params = [a.arg for a in f.node.args.args]
    p1n, p2n, meth = params[0], params[1], params[2]
    fam = {p1n: 1, p2n: 2}
    changed = True
    while changed:
        changed = False
        for st in ast.walk(f.node):
            if isinstance(st, ast.Assign) and len(st.targets) == 1 and isinstance(st.targets[0], ast.Name):
                v = st.value
                src = None
                if isinstance(v, ast.Subscript) and isinstance(v.value, ast.Name):
                    src = v.value.id
                elif isinstance(v, ast.Name):
                    src = v.id
                elif isinstance(v, ast.Call) and isinstance(v.func, ast.Name) and v.func.id == 'list' and v.args and isinstance(v.args[0], ast.Name):
                    src = v.args[0].id
                elif isinstance(v, ast.Call) and isinstance(v.func, ast.Attribute) and v.func.attr == 'copy' and isinstance(v.func.value, ast.Name):
                    src = v.func.value.id
                if src in fam:
                    t = st.targets[0].id
                    if fam.get(t) not in (None, fam[src]):
                        fam[t] = 0      # mixed: a name used for both lists
                    elif t not in fam:
                        fam[t] = fam[src]
                        changed = True
    n = 0
    bad = 0
    for c in ast.walk(f.node):
        if isinstance(c, ast.Call) and isinstance(c.func, ast.Name) and c.func.id == meth and len(c.args) == 2:
            n += 1
            fams = []
            for a in c.args:
                if isinstance(a, ast.Subscript) and isinstance(a.value, ast.Name) and isinstance(a.slice, ast.Constant) and a.slice.value == 1:
                    fams.append(fam.get(a.value.id))
                else:
                    fams.append(None)
            if fams != [1, 2]:
                bad += 1
                rep.fail(rule, m.rel, 'intersection', '%s:operand-order:%s' % (slotp, ast.unparse(c)[:70]),
                         'the slot function is applied as %s: its arguments must be the value of a sample of the first list and of the second list, in that order '
                         '(a non-commutative operator -- implies, -, /, pow, <= -- gets its operands swapped)' % ast.unparse(c), c.lineno)
    if n and not bad:
        rep.ok(rule, m.rel, 'intersection', '%s:operand-order' % slotp, '%d applications of the slot function, all (list-1 value, list-2 value)' % n, f.node.lineno)
    return n


def _describe(d):
    groups = {}
    for s, r in d.items():
        groups.setdefault(r, []).append(s)
    out = []
    for r in sorted(groups):
        out.append('='.join(sorted(groups[r])))
    return ['<'.join(out)]


def check_finitary(ix, rep, modname, rule='R-ORD'):
    m = ix.module(modname)
    f = m.functions['intersection']
    p1n, p2n = [a.arg for a in f.node.args.args[:2]]
    ok = 0
    for st in f.node.body:
        if isinstance(st, ast.If):
            src = ast.unparse(st).replace(' ', '')
            for nm in (p1n, p2n):
                if src.startswith("if%s[-1][0]<float('inf'):" % nm) and "%s.append([float('inf'),%s[-1][1]])" % (nm, nm) in src:
                    ok += 1
    if ok == 2:
        rep.ok(rule, m.rel, 'intersection', 'finitary-extension', 'both operands are extended with [inf, last value] (last value held)', f.node.lineno)
    else:
        rep.fail(rule, m.rel, 'intersection', 'finitary-extension', 'the last value of an operand is not held to infinity before merging', f.node.lineno)
    # the inputs are copied before being consumed
    copies = [s for s in f.node.body if isinstance(s, ast.Assign) and isinstance(s.value, ast.Call) and getattr(s.value.func, 'id', None) == 'list'
              and isinstance(s.targets[0], ast.Name) and s.targets[0].id in (p1n, p2n)]
    if len(copies) == 2:
        rep.ok(rule, m.rel, 'intersection', 'copies-inputs', 'the operands are copied before pop()', f.node.lineno)
    else:
        rep.fail(rule, m.rel, 'intersection', 'copies-inputs', 'the merge pops from its operand lists without copying them first', f.node.lineno)
