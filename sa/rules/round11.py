"""Rules written for the round-11 seeded changes: who-may-write / who-may-call restrictions and verbatim-forwarding clauses that are
necessary conditions of several properties.  Each has instances on the pinned tree (floors in the property modules)."""
import ast

from sa.index import AnalysisError, ClassInfo

SPEC_MOD = 'rtamt.spec.abstract_specification'
AST_MOD = 'rtamt.syntax.ast.parser.abstract_ast_parser'


def _all_functions(ix, prefix='rtamt.'):
    for mn, m in sorted(ix.modules.items()):
        if not mn.startswith(prefix) or mn.startswith('rtamt.antlr'):
            continue
        for f in m.functions.values():
            yield f
        for c in m.classes.values():
            for f in c.methods.values():
                yield f


def _self_attr(e, attr=None):
    return isinstance(e, ast.Attribute) and isinstance(e.value, ast.Name) and e.value.id == 'self' and (attr is None or e.attr == attr)


# ------------------------------------------------------------------------------------------------- R-LITERAL (bases)
def check_literal_bases(ix, rep, rule='R-LITERAL'):
    """an integer literal of the grammar carries its base in its prefix (0x.., 0b..): the conversion of its text must let the prefix decide
    (`int(text, 0)`), or apply a fixed base only under a test of that prefix -- `int('0b101', 16)` is 45313, not 5"""
    n = 0
    for f in _all_functions(ix, 'rtamt.syntax.'):
        if not f.name.startswith('literal_to'):
            continue
        parents = {}
        for p in ast.walk(f.node):
            for c in ast.iter_child_nodes(p):
                parents[id(c)] = p
        for c in ast.walk(f.node):
            if isinstance(c, ast.Call) and isinstance(c.func, ast.Name) and c.func.id == 'int' and len(c.args) == 2:
                n += 1
                rep.analysed(f)
                base = c.args[1]
                slot = 'base:%s' % ast.unparse(c)[:30]
                if isinstance(base, ast.Constant) and base.value == 0:
                    rep.ok(rule, f.module.rel, f.qual, slot, 'the prefix of the literal decides the base', c.lineno)
                    continue
                # a fixed base: some enclosing `if` has to look at the prefix of the same text
                guarded = False
                q = c
                while id(q) in parents:
                    q = parents[id(q)]
                    if isinstance(q, ast.If):
                        t = ast.unparse(q.test)
                        if 'startswith' in t or "[:2]" in t or '[1]' in t:
                            guarded = True
                if guarded:
                    rep.ok(rule, f.module.rel, f.qual, slot, 'fixed base under a test of the prefix', c.lineno)
                else:
                    rep.fail(rule, f.module.rel, f.qual, slot, '`%s` applies a fixed base to the text of a literal whose prefix names its base: every binary literal `0b...` is also a '
                             'hexadecimal numeral (0b101 read in base 16 is 45313), so the value depends on which conversion is tried first -- `a >= 0b101` compares with 45313'
                             % ast.unparse(c)[:40], c.lineno)
    return n


# ------------------------------------------------------------------------------------------------- R-TAINT (order of the samples)
def check_sample_order(ix, rep, rule='R-TAINT'):
    """between the caller's data set and the interpreter nothing re-orders the samples: sorted()/.sort()/reversed() on (rows of) the data set
    makes the result depend on the time-stamps (or on the values: whole rows compare by value where time-stamps are equal)"""
    n = 0
    targets = []
    m = ix.module(SPEC_MOD)
    for cn in ('AbstractOfflineSpecification', 'AbstractOnlineSpecification', 'AbstractSpecification'):
        c = m.classes.get(cn)
        if c is not None:
            targets += list(c.methods.values())
    for mn in ('rtamt.semantics.abstract_discrete_time_offline_interpreter', 'rtamt.semantics.abstract_discrete_time_online_interpreter',
               'rtamt.semantics.abstract_dense_time_offline_interpreter', 'rtamt.semantics.abstract_dense_time_online_interpreter',
               'rtamt.semantics.discrete_time_interpreter', 'rtamt.semantics.dense_time_interpreter'):
        mm = ix.modules.get(mn)
        if mm is not None:
            for c in mm.classes.values():
                targets += [f for nm, f in c.methods.items() if nm in ('evaluate', 'update', 'set_variable_to_ast_from_dataset', 'update_final')]
    # helpers of those modules too (a function the wrapper hands the data set to)
    for f in list(targets):
        for c in ast.walk(f.node):
            if isinstance(c, ast.Call):
                nm = c.func.attr if isinstance(c.func, ast.Attribute) else getattr(c.func, 'id', None)
                g = f.module.functions.get(nm) or (f.owner.methods.get(nm) if f.owner is not None else None)
                if g is not None and g not in targets:
                    targets.append(g)
    for f in targets:
        if f.name in ('evaluate', 'update', 'set_variable_to_ast_from_dataset', 'update_final') or f not in targets[:0]:
            n += 1
        rep.analysed(f)
        bad = None
        for c in ast.walk(f.node):
            if isinstance(c, ast.Call):
                nm = c.func.attr if isinstance(c.func, ast.Attribute) else getattr(c.func, 'id', None)
                if nm in ('sorted', 'sort', 'nsmallest', 'nlargest', 'heapify', 'shuffle') or (nm == 'reversed' and f.name in ('evaluate', 'update')):
                    bad = c
        slot = 'sample-order'
        if bad is not None:
            rep.fail(rule, f.module.rel, f.qual, slot, '`%s` re-orders what the caller supplied before it reaches the monitor: the order of the samples is the order of the data set, whatever '
                     'the time-stamps say (rows with equal time-stamps would be ordered by their sample values, a decreasing clock reverses the trace)' % ast.unparse(bad)[:50], bad.lineno)
        else:
            rep.ok(rule, f.module.rel, f.qual, slot, 'the data set reaches the monitor in the order it was given', f.node.lineno)
    return n


# ------------------------------------------------------------------------------------------------- R-CONFIG (who may rebuild the operators)
def check_set_ast_callers(ix, rep, rule='R-CONFIG'):
    """set_ast() of an online interpreter builds a fresh operator table -- every ring buffer and previous value is gone.  Inside the interpreter
    classes only reset() (and set_ast itself, through super) may call it; a configuration setter that does throws the history away between two
    updates while the counters say nothing happened"""
    n = 0
    for mn, m in sorted(ix.modules.items()):
        if not mn.startswith('rtamt.semantics.'):
            continue
        for c in m.classes.values():
            for nm, f in c.methods.items():
                for call in ast.walk(f.node):
                    if isinstance(call, ast.Call) and isinstance(call.func, ast.Attribute) and call.func.attr == 'set_ast' \
                            and (_self_attr(call.func) or (isinstance(call.func.value, ast.Call) and getattr(call.func.value.func, 'id', None) == 'super')):
                        n += 1
                        rep.analysed(f)
                        slot = 'set_ast<-%s' % nm
                        if nm in ('reset', 'set_ast', '__init__'):
                            rep.ok(rule, f.module.rel, f.qual, slot, 'the operators are rebuilt by reset() / the constructor chain only', call.lineno)
                        else:
                            rep.fail(rule, f.module.rel, f.qual, slot, '%s() calls set_ast(): the operator table is built anew, so a monitor that has consumed samples forgets its ring buffers '
                                     'and previous values (while update_counter and the inputs survive): the next update() is no function of the samples fed so far' % nm, call.lineno)
    return n


def check_set_ast_flag_writers(ix, rep, rule='R-CONFIG'):
    """the flag that says "the interpreter has the ast" is cleared by the constructor only (per interpreter): clearing it later makes the next
    update() rebuild every operator"""
    m = ix.module(SPEC_MOD)
    n = 0
    for c in m.classes.values():
        for nm, f in c.methods.items():
            for st in ast.walk(f.node):
                if isinstance(st, ast.Assign) and any(_self_attr(t) and 'set_ast' in t.attr for t in st.targets) and isinstance(st.value, ast.Constant) and st.value.value is False:
                    n += 1
                    rep.analysed(f)
                    slot = 'flag-cleared<-%s' % nm
                    if nm == '__init__':
                        rep.ok(rule, f.module.rel, f.qual, slot, 'cleared by the constructor', st.lineno)
                    else:
                        rep.fail(rule, f.module.rel, f.qual, slot, '%s() clears `%s`: the next update() hands the ast to the interpreter again, which builds a fresh operator table -- a '
                                 'monitor that is already running loses its history (a second, by then no-op, %s() in the middle of a run)' % (nm, ast.unparse(st.targets[0]), nm), st.lineno)
    return n


def check_set_ast_guards(ix, rep, rule='R-CONFIG'):
    """each interpreter of a specification object is handed the ast under a guard of its own: one flag for two interpreters means that the one
    used second never gets the ast (evaluate() then update() on a class that has both)"""
    m = ix.module(SPEC_MOD)
    guards = {}
    sites = {}
    for c in m.classes.values():
        for nm, f in c.methods.items():
            for st in ast.walk(f.node):
                if isinstance(st, ast.If):
                    flags = [x.attr for x in ast.walk(st.test) if _self_attr(x) and not x.attr.endswith('_interpreter')]
                    for call in ast.walk(ast.Module(body=st.body, type_ignores=[])):
                        if isinstance(call, ast.Call) and isinstance(call.func, ast.Attribute) and call.func.attr == 'set_ast' and _self_attr(call.func.value):
                            for fl in flags:
                                guards.setdefault(fl, set()).add(call.func.value.attr)
                                sites.setdefault(fl, (f, st))
    n = 0
    for fl, interps in sorted(guards.items()):
        n += 1
        f, st = sites[fl]
        rep.analysed(f)
        if len(interps) > 1:
            rep.fail(rule, f.module.rel, f.owner.name, 'guard:%s' % fl, 'the one flag `self.%s` guards set_ast() of %s: on a specification that has both (rtamt.StlDiscreteTimeSpecification) the '
                     'interpreter used second never receives the ast -- evaluate() followed by update() raises AttributeError' % (fl, ' and '.join('self.' + i for i in sorted(interps))), st.lineno)
        else:
            rep.ok(rule, f.module.rel, f.owner.name, 'guard:%s' % fl, 'guards %s only' % sorted(interps)[0], st.lineno)
    return n


# ------------------------------------------------------------------------------------------------- R-STORE (sub-specification table)
def check_subspec_table_writers(ix, rep, rule='R-INLINE'):
    """var_subspec_dict is written by visitAssertion (the definition) and pruned by visitSpecification (the output assertion) only: a removal
    anywhere else un-registers a sub-specification, and later references silently become fresh input variables"""
    n = 0
    for f in _all_functions(ix, 'rtamt.syntax.'):
        for c in ast.walk(f.node):
            kind = None
            if isinstance(c, ast.Call) and isinstance(c.func, ast.Attribute) and c.func.attr in ('pop', 'clear', 'popitem') and _self_attr(c.func.value, 'var_subspec_dict'):
                kind = c.func.attr
            if isinstance(c, ast.Delete) and any(isinstance(t, ast.Subscript) and _self_attr(t.value, 'var_subspec_dict') for t in c.targets):
                kind = 'del'
            if kind is None:
                continue
            n += 1
            rep.analysed(f)
            slot = 'var_subspec_dict:%s<-%s' % (kind, f.name)
            if f.name in ('visitSpecification', '__init__'):
                rep.ok(rule, f.module.rel, f.qual, slot, 'the output assertion is taken off the table after the whole text has been read', c.lineno)
            else:
                rep.fail(rule, f.module.rel, f.qual, slot, '%s() removes entries of var_subspec_dict: a sub-specification whose name was not declared is registered by visitAssertion and '
                         'un-registered again by this call, and every later reference becomes an implicitly declared input variable' % f.name, c.lineno)
    return n


# ------------------------------------------------------------------------------------------------- R-STORE (get_value)
def check_get_value(ix, rep, rule='R-STORE'):
    """get_value(n) is results[<the node registered under n>]: no other node (an operand of it, a child) is looked up instead"""
    n = 0
    for modn, cn in ((SPEC_MOD, 'AbstractSpecification'), (AST_MOD, 'AbstractAst')):
        c = ix.module(modn).classes.get(cn)
        f = c.methods.get('get_value') if c is not None else None
        if f is None:
            raise AnalysisError('get_value of %s vanished' % cn)
        n += 1
        rep.analysed(f)
        bad = [x for x in ast.walk(f.node) if isinstance(x, ast.Attribute) and x.attr in ('children', 'begin', 'end')]
        loops = [x for x in ast.walk(f.node) if isinstance(x, (ast.While, ast.For))]
        if bad or loops:
            x = (bad or loops)[0]
            rep.fail(rule, f.module.rel, f.qual, 'get_value', 'get_value() walks from the node registered under the name to another node (`%s`): a named formula whose top operator is '
                     'stepped over reports the value of an operand, not its own' % ast.unparse(x)[:40], x.lineno)
        else:
            rep.ok(rule, f.module.rel, f.qual, 'get_value', 'the value stored for the registered node itself', f.node.lineno)
    return n


# ------------------------------------------------------------------------------------------------- R-ENTRY (specification text)
def check_text_setters(ix, rep, rule='R-EVERYPATH'):
    """the text handed to the recogniser is the text the user set: the setters of `spec` / `modular_spec` store their argument as it is
    (str.strip() removes every Unicode blank -- no-break space, U+2028 ... -- which the lexer would have rejected)"""
    n = 0
    for modn, cn in ((AST_MOD, 'AbstractAst'), (SPEC_MOD, 'AbstractSpecification')):
        c = ix.module(modn).classes.get(cn)
        if c is None:
            continue
        for st in c.node.body:
            if isinstance(st, ast.FunctionDef) and st.name in ('spec', 'modular_spec') and any(ast.unparse(d).endswith('.setter') for d in st.decorator_list):
                n += 1
                param = st.args.args[1].arg
                stores = [x for x in ast.walk(st) if isinstance(x, ast.Assign)]
                ok = bool(stores) and all(isinstance(x.value, ast.Name) and x.value.id == param for x in stores)
                if ok:
                    rep.ok(rule, c.module.rel, '%s.%s' % (cn, st.name), 'setter:%s' % st.name, 'stored as given', st.lineno)
                else:
                    v = [x for x in stores if not (isinstance(x.value, ast.Name) and x.value.id == param)]
                    rep.fail(rule, c.module.rel, '%s.%s' % (cn, st.name), 'setter:%s' % st.name, 'the setter stores `%s`, not the text it was given: characters the lexer does not know '
                             '(a no-break space behind the final ";") are dropped before the lexer can reject them' % (ast.unparse(v[0].value)[:40] if v else '?'), st.lineno)
    return n


# ------------------------------------------------------------------------------------------------- R-ATTR (dotted fields)
def check_field_access(ix, rep, rule='R-KEY'):
    """the field of a struct-typed variable is a dotted path (`s.time.sec`): it is followed with operator.attrgetter, as the parser does when
    it checks the identifier; getattr(obj, 'time.sec') raises AttributeError at the first evaluation"""
    n = 0
    for f in _all_functions(ix):
        for c in ast.walk(f.node):
            if isinstance(c, ast.Call) and isinstance(c.func, ast.Name) and c.func.id in ('getattr', 'setattr', 'hasattr') and len(c.args) >= 2 \
                    and isinstance(c.args[1], ast.Attribute) and c.args[1].attr in ('field', 'out_var_field'):
                n += 1
                rep.analysed(f)
                if c.func.id == 'setattr':
                    continue
                rep.fail(rule, f.module.rel, f.qual, 'field:%s' % ast.unparse(c)[:40], '`%s` looks a dotted field path up as one attribute name: a variable with a nested field (`s.time.sec`), '
                         'accepted by parse(), raises AttributeError in evaluate()/update()' % ast.unparse(c)[:50], c.lineno)
            if isinstance(c, ast.Call) and isinstance(c.func, ast.Call) and ast.unparse(c.func.func).endswith('attrgetter'):
                n += 1
                rep.analysed(f)
                rep.ok(rule, f.module.rel, f.qual, 'field:%s' % ast.unparse(c.func)[:40], 'dotted path followed with attrgetter', c.lineno)
    return n


# ------------------------------------------------------------------------------------------------- R-GLOBAL (descriptors)
def check_descriptors(ix, rep, rule='R-GLOBAL'):
    """a descriptor object lives in the class body: what its __set__ stores on itself is shared by every instance of the owner class"""
    n = 0
    for mn, m in sorted(ix.modules.items()):
        if mn.startswith('rtamt.antlr'):
            continue
        for c in m.classes.values():
            f = c.methods.get('__set__')
            if f is None:
                continue
            n += 1
            rep.analysed(f)
            me = f.node.args.args[0].arg
            st = [x for x in ast.walk(f.node) if isinstance(x, (ast.Assign, ast.AugAssign)) for t in (x.targets if isinstance(x, ast.Assign) else [x.target])
                  if isinstance(t, ast.Attribute) and isinstance(t.value, ast.Name) and t.value.id == me]
            if st:
                rep.fail(rule, m.rel, c.name + '.__set__', 'descriptor:%s' % c.name, 'the descriptor stores the value on itself (`%s`): one value for all instances of the class that uses it -- '
                         'configuring one specification changes the setting of every other' % ast.unparse(st[0])[:40], st[0].lineno)
            else:
                rep.ok(rule, m.rel, c.name + '.__set__', 'descriptor:%s' % c.name, 'stores per instance', f.node.lineno)
    return n


# ------------------------------------------------------------------------------------------------- R-EXACT (no rounding of bounds)
def check_no_rounding(ix, rep, rule='R-EXACT'):
    """a bound is a duration: between the unit conversion and the kernel nothing rounds it (round(x, 9) in the default unit is a nanosecond when
    the unit is s and 1e-9 ms when it is ms: the same duration written in another unit is rounded differently)"""
    n = 0
    for mn in ('rtamt.semantics.stl.dense_time.offline.ast_visitor', 'rtamt.semantics.stl.dense_time.online.ast_visitor', 'rtamt.semantics.dense_time_interpreter',
               'rtamt.semantics.stl.discrete_time.offline.ast_visitor', 'rtamt.semantics.stl.discrete_time.online.ast_visitor'):
        m = ix.modules.get(mn)
        if m is None:
            continue
        fs = list(m.functions.values()) + [f for c in m.classes.values() for f in c.methods.values()]
        for f in fs:
            n += 1
            bad = [c for c in ast.walk(f.node) if isinstance(c, ast.Call) and ((isinstance(c.func, ast.Name) and c.func.id == 'round')
                                                                                or (isinstance(c.func, ast.Attribute) and c.func.attr in ('floor', 'ceil', 'trunc', 'quantize')))]
            if bad:
                rep.analysed(f)
                rep.fail(rule, m.rel, f.qual, 'rounding:%s' % f.name, '`%s` rounds a quantity on the way from the written bound to the window: the precision is absolute in the default unit, '
                         'so `[0.5ns,1.5ns]` under unit s becomes [1ns,2ns] while the same bound under unit ns is kept' % ast.unparse(bad[0])[:40], bad[0].lineno)
    return n


# ------------------------------------------------------------------------------------------------- R-REMAP (input variables)
def check_variable_remap(ix, rep, rule='R-REMAP'):
    """get_value(v) of an input variable is the data supplied for it.  The pastifier delays a variable that stands next to a future operator by
    wrapping it (`once[h,h](v)`), and its visit() re-points every name of the visited node to the rewritten node: for a Variable that must be
    the Variable inside the wrapper, not the wrapper -- otherwise get_value('v') reports what was fed h samples ago (-inf at first)"""
    pcls = ix.find_class('rtamt.pastifier.stl.pastifier', 'StlPastifier')
    if pcls is None:
        raise AnalysisError('StlPastifier vanished')
    vv = ix.resolve_method(pcls, 'visitVariable')
    vis = ix.resolve_method(pcls, 'visit')
    if vv is None or vis is None:
        raise AnalysisError('StlPastifier.visit / visitVariable vanished')
    rep.analysed(vv)
    rep.analysed(vis)
    # can visitVariable return something that is not a Variable?
    wrappers = [c for c in ast.walk(vv.node) if isinstance(c, ast.Call) and isinstance(c.func, ast.Name) and c.func.id not in ('Variable', 'Interval') and c.func.id[:1].isupper()]
    remaps = [n for n in ast.walk(vis.node) if (isinstance(n, ast.Call) and isinstance(n.func, ast.Attribute) and n.func.attr == 'update' and 'phi_name_to_node_dict' in ast.unparse(n.func.value))
              or (isinstance(n, ast.Assign) and any(isinstance(t, ast.Subscript) and 'phi_name_to_node_dict' in ast.unparse(t.value) for t in n.targets))]
    binds = {}
    for n in ast.walk(vis.node):
        if isinstance(n, ast.Assign) and len(n.targets) == 1 and isinstance(n.targets[0], ast.Name) and 'phi_name_to_node_dict' in ast.unparse(n.value):
            binds[n.targets[0].id] = True
    remaps += [n for n in ast.walk(vis.node) if isinstance(n, ast.Call) and isinstance(n.func, ast.Attribute) and n.func.attr == 'update' and isinstance(n.func.value, ast.Name) and n.func.value.id in binds]
    remaps += [n for n in ast.walk(vis.node) if isinstance(n, ast.Assign) and any(isinstance(t, ast.Subscript) and isinstance(t.value, ast.Name) and t.value.id in binds for t in n.targets)]
    if not wrappers:
        rep.ok(rule, vv.module.rel, vv.qual, 'variable-name', 'a variable is rewritten to a variable', vv.node.lineno)
        return 1
    if not remaps:
        rep.ok(rule, vis.module.rel, vis.qual, 'variable-name', 'names are not re-pointed by visit()', vis.node.lineno)
        return 1
    special = any(isinstance(c, ast.Call) and isinstance(c.func, ast.Name) and c.func.id == 'isinstance' and len(c.args) == 2 and 'Variable' in ast.unparse(c.args[1]) for c in ast.walk(vis.node))
    if special:
        rep.ok(rule, vis.module.rel, vis.qual, 'variable-name', 'the name of a variable is re-pointed to the Variable node, not to the delay wrapped round it', vis.node.lineno)
    else:
        rep.fail(rule, vis.module.rel, vis.qual, 'variable-name', 'visitVariable may return `%s(...)` (the variable delayed by the remaining look-ahead) and visit() re-points the variable\'s name to whatever '
                 'it returns: after pastify() get_value(v) of an input variable next to a future operator is the delayed copy -- `out = (eventually[0,2](a >= 1)) and b`: get_value(\'b\') is -inf, -inf, '
                 'b[0], b[1], ... instead of the data supplied' % wrappers[0].func.id, vis.node.lineno)
    return 1


# ------------------------------------------------------------------------------------------------- R-SEAM (dense-time online, unary operations with a frontier)
def check_seam(ix, rep, rule='R-SEAM'):
    """the output of every dense-time online operation ends with a closing sample at the time R of its last input sample, and its next output may start
    at R again: consecutive chunks *between operators* overlap in the sample on the seam.  The binary operations drop it when they glue the new chunk
    to their buffers.  An operation that remembers R (`self.X = sample[-1][0]`) and builds influence intervals from consecutive samples has to do the
    same: otherwise the repeated sample opens a zero-length interval, the operation emits two samples with one time-stamp, and the merge kernel of the
    next binary operator raises 'Unexpected case in the intersection'"""
    n = 0
    for mn, m in sorted(ix.modules.items()):
        if not (mn.startswith('rtamt.semantics.stl.dense_time.online.') or mn.startswith('rtamt.semantics.arithmetic.dense_time.online.')):
            continue
        for c in m.classes.values():
            f = c.methods.get('update')
            if f is None or len(f.node.args.args) < 2:
                continue
            params = [a.arg for a in f.node.args.args[1:]]
            frontier = None
            for st in ast.walk(f.node):
                if isinstance(st, ast.Assign) and len(st.targets) == 1 and _self_attr(st.targets[0]):
                    v = ast.unparse(st.value).replace(' ', '')
                    for p in params:
                        if v in ('%s[-1][0]' % p, '%s[len(%s)-1][0]' % (p, p)):
                            frontier = (st.targets[0].attr, p, st)
            if frontier is None:
                continue
            attr, p, st = frontier
            n += 1
            rep.analysed(f)
            ok = False
            for cmp_ in ast.walk(f.node):
                if isinstance(cmp_, ast.Compare) and len(cmp_.ops) == 1 and isinstance(cmp_.ops[0], (ast.Eq, ast.LtE)):
                    l, r = ast.unparse(cmp_.left).replace(' ', ''), ast.unparse(cmp_.comparators[0]).replace(' ', '')
                    if {'%s[0][0]' % p, 'self.%s' % attr} == {l, r}:
                        ok = True
            slot = 'seam:%s' % c.name
            if ok:
                rep.ok(rule, m.rel, '%s.update' % c.name, slot, 'a first sample that repeats the time-stamp of the last one received is recognised (compared with self.%s)' % attr, st.lineno)
            else:
                rep.fail(rule, m.rel, '%s.update' % c.name, slot, 'update() remembers the time of its last input sample in self.%s but never compares the first sample of the next chunk with it: the sample '
                         'on the seam, which every upstream operation emits twice (closing sample of one output, first sample of the next), is processed as a new sample of length 0 -- '
                         '`out = a or historically[0,2](once[0,1](a))`, a = [[0,1],[1,3],[2,2],[3,0.5],[4,4],[5,1],[6,2]] fed as a[:2], a[2:]: RTAMTException "Unexpected case in the '
                         'intersection"; in one chunk: [[0,1],[1,3],[2,2],[4,4],[5,2],[6,2]]' % attr, st.lineno)
    return n


# ------------------------------------------------------------------------------------------------- R-SHAPE (closing sample of the merge kernel)
def check_closing_sample_shape(ix, rep, rule='R-SHAPE'):
    """the online merge kernel returns (samples, closing sample, remainder 1, remainder 2); its callers test the closing sample for emptiness, read its
    time-stamp and append it to the result.  Every value it is given is therefore a sample `[t, v]` or an empty list -- a scalar (`float('nan')`) is
    truthy, has no `[0]`, and ends up in the output list as if it were a sample"""
    m = ix.module('rtamt.semantics.stl.dense_time.online.intersection')
    f = m.functions.get('intersection')
    if f is None:
        raise AnalysisError('online intersection kernel vanished')
    rets = [r for r in ast.walk(f.node) if isinstance(r, ast.Return) and isinstance(r.value, ast.Tuple) and len(r.value.elts) == 4]
    names = {r.value.elts[1].id for r in rets if isinstance(r.value.elts[1], ast.Name)}
    n = 0
    rep.analysed(f)
    for st in ast.walk(f.node):
        if isinstance(st, ast.Assign) and len(st.targets) == 1 and isinstance(st.targets[0], ast.Name) and st.targets[0].id in names:
            n += 1
            v = st.value
            ok = (isinstance(v, ast.List) and len(v.elts) in (0, 2)) or (isinstance(v, ast.Call) and isinstance(v.func, ast.Name) and v.func.id == 'list' and not v.args) \
                or (isinstance(v, ast.Name))
            slot = 'closing-sample:%d' % n
            if ok:
                rep.ok(rule, m.rel, 'intersection', slot, 'a sample or no sample', st.lineno)
            else:
                rep.fail(rule, m.rel, 'intersection', 'closing-sample:scalar', 'the closing sample is set to `%s`, not to a sample or an empty list: when one operand\'s chunk lies wholly before the '
                         'other\'s (signals fed at different rates) the operation returns the scalar in its output list and the next update raises TypeError -- `out = a + b`: '
                         'update(a=[[0,3],[1,-1]], b=[]), update(a=[], b=[[2,3],[3,0]]) returns [nan], the third update raises "\'float\' object is not subscriptable"' % ast.unparse(v)[:30], st.lineno)
    return n


# ------------------------------------------------------------------------------------------------- R-EXC (limits of the host language)
def _handler_types(h):
    if h.type is None:
        return {'BaseException'}
    if isinstance(h.type, ast.Tuple):
        return {ast.unparse(e).split('.')[-1] for e in h.type.elts}
    return {ast.unparse(h.type).split('.')[-1]}


def _raises_rtamt(body):
    return any(isinstance(r, ast.Raise) and r.exc is not None and 'RTAMTException' in ast.unparse(r.exc) for s in body for r in ast.walk(s))


def check_parse_limits(ix, rep, rule='R-EXC'):
    """parse() runs a recursive-descent parser and a recursive tree visitor over a text of arbitrary nesting depth, and turns numerals of arbitrary length into
    numbers and node names: RecursionError (400 nested parentheses), OverflowError (float(int('0x' + 'F'*257))) and ValueError (str() of a 4400-digit bound) are
    raised by the interpreter, not by rtamt -- the entry rule and the visit of its result have to sit in a try that turns them into RTAMTException"""
    c = ix.module(AST_MOD).classes.get('AbstractAst')
    f = c.methods.get('parse') if c is not None else None
    if f is None:
        raise AnalysisError('AbstractAst.parse vanished')
    rep.analysed(f)
    calls = [x for x in ast.walk(f.node) if isinstance(x, ast.Call) and isinstance(x.func, ast.Attribute)
             and ((isinstance(x.func.value, ast.Name) and x.func.value.id == 'parser') or (x.func.attr == 'visit' and isinstance(x.func.value, ast.Name) and x.func.value.id == 'self'))
             and x.func.attr not in ('removeErrorListeners', 'addErrorListener')]
    if len(calls) < 2:
        raise AnalysisError('%s: entry rule / visit of its result not found' % f.where)
    n = 0
    for kind, wanted in (('depth', ({'RecursionError'}, {'RuntimeError'}, {'Exception'})), ('magnitude', ({'OverflowError', 'ValueError'}, {'ArithmeticError', 'ValueError'}, {'Exception'}))):
        n += 1
        ok = True
        for call in calls:
            covered = False
            for t in ast.walk(f.node):
                if isinstance(t, ast.Try) and any(call is x for b in t.body for x in ast.walk(b)):
                    caught = set()
                    for h in t.handlers:
                        if _raises_rtamt(h.body):
                            caught |= _handler_types(h)
                    if any(w <= caught for w in wanted):
                        covered = True
            ok = ok and covered
        slot = 'limits:%s' % kind
        if ok:
            rep.ok(rule, f.module.rel, f.qual, slot, '%s of the interpreter are reported as RTAMTException' % ('recursion limits' if kind == 'depth' else 'numeric limits'), f.node.lineno)
        elif kind == 'depth':
            rep.fail(rule, f.module.rel, f.qual, slot, 'the recursive-descent parser and the recursive visitor run outside a try that turns RecursionError into RTAMTException: '
                     '`out = ((((...a...)))) >= 1` with 400 pairs of parentheses, or `out = not not ... (a >= 1)` with 3000 nots, raises RecursionError from parse()', calls[0].lineno)
        else:
            rep.fail(rule, f.module.rel, f.qual, slot, 'numerals of the text are turned into numbers and node names outside a try that turns OverflowError / ValueError into RTAMTException: '
                     '`out = a >= 0x` + 257 F\'s raises OverflowError (float of a 1028-bit int), `always[0,` + 4400 digits + `](a>=1)` raises ValueError (str() of the bound in the node name)',
                     calls[0].lineno)
    return n


def check_default_unit_domain(ix, rep, rule='R-UNITDOM'):
    """the default unit is set through the API (`spec.unit = 'ms'`): the setter admits only keys of the unit table, otherwise the first interval of the text
    raises KeyError from parse()"""
    n = 0
    cands = [ix.module(AST_MOD).classes.get('AbstractAst'), ix.find_class('rtamt.syntax.ast.parser.stl.parser_visitor', 'StlAstParserVisitor'),
             ix.find_class('rtamt.syntax.ast.parser.ltl.parser_visitor', 'LtlAstParserVisitor')]
    for c in [x for x in cands if x is not None]:
      for st in c.node.body:
        if isinstance(st, ast.FunctionDef) and st.name == 'unit' and any(ast.unparse(d).endswith('.setter') for d in st.decorator_list):
            n += 1
            param = st.args.args[1].arg
            ok = False
            for iff in ast.walk(st):
                if isinstance(iff, ast.If) and _raises_rtamt(iff.body):
                    t = ast.unparse(iff.test).replace(' ', '')
                    if t in ('%snotinself.U' % param, 'not%sinself.U' % param, 'not(%sinself.U)' % param, '%snotinself.U.keys()' % param):
                        ok = True
            if ok:
                rep.ok(rule, c.module.rel, c.name + '.unit', 'default-unit', 'only keys of the unit table are accepted', st.lineno)
            else:
                rep.fail(rule, c.module.rel, c.name + '.unit', 'default-unit', 'the setter stores any string: `spec.unit = \'min\'` followed by `out = always[0,2](a>=1)` raises KeyError(\'min\') from '
                         'parse() (visitInterval reads self.U[unit])', st.lineno)
    return n


def check_nonnegative_bound(ix, rep, rule='R-GUARD-DOM'):
    """0 <= begin: a literal cannot be negative, a declared constant can (`declare_const('c','int','-5')`, `always[c,2]`)"""
    stl = ix.find_class('rtamt.syntax.ast.parser.stl.parser_visitor', 'StlAstParserVisitor')
    f = stl.methods.get('visitInterval') if stl is not None else None
    if f is None:
        raise AnalysisError('visitInterval vanished')
    rep.analysed(f)
    first = None
    for st in f.node.body:
        if isinstance(st, ast.Assign) and isinstance(st.targets[0], ast.Tuple) and 'intervalTime(0)' in ast.unparse(st.value).replace(' ', ''):
            first = st.targets[0].elts[0].id
    ok = False
    for iff in ast.walk(f.node):
        if isinstance(iff, ast.If) and _raises_rtamt(iff.body):
            for cmp_ in ast.walk(iff.test):
                if isinstance(cmp_, ast.Compare) and len(cmp_.ops) == 1:
                    l, r = ast.unparse(cmp_.left), ast.unparse(cmp_.comparators[0])
                    if (l == first and r == '0' and isinstance(cmp_.ops[0], ast.Lt)) or (l == '0' and r == first and isinstance(cmp_.ops[0], ast.Gt)):
                        ok = True
    if ok:
        rep.ok(rule, f.module.rel, f.qual, 'begin>=0', 'a negative lower bound is rejected', f.node.lineno)
    else:
        rep.fail(rule, f.module.rel, f.qual, 'begin>=0', 'no guard `begin < 0 -> raise RTAMTException`: a bound given by a declared constant may be negative -- declare_const(\'c\',\'int\',\'-5\'), '
                 '`out = always[c,2](a>=1)` is accepted as always[-5,2]', f.node.lineno)
    return 1


# ------------------------------------------------------------------------------------------------- R-REMAP (input variables)
def check_variable_remap(ix, rep, rule='R-REMAP'):
    """get_value(v) of an input variable is the data supplied for it.  The pastifier delays a variable that stands next to a future operator by
    wrapping it (`once[h,h](v)`), and its visit() re-points every name of the visited node to the rewritten node: for a Variable that must be
    the Variable inside the wrapper, not the wrapper -- otherwise get_value('v') reports what was fed h samples ago (-inf at first)"""
    pcls = ix.find_class('rtamt.pastifier.stl.pastifier', 'StlPastifier')
    if pcls is None:
        raise AnalysisError('StlPastifier vanished')
    vv = ix.resolve_method(pcls, 'visitVariable')
    vis = ix.resolve_method(pcls, 'visit')
    if vv is None or vis is None:
        raise AnalysisError('StlPastifier.visit / visitVariable vanished')
    rep.analysed(vv)
    rep.analysed(vis)
    # can visitVariable return something that is not a Variable?
    wrappers = [c for c in ast.walk(vv.node) if isinstance(c, ast.Call) and isinstance(c.func, ast.Name) and c.func.id not in ('Variable', 'Interval') and c.func.id[:1].isupper()]
    remaps = [n for n in ast.walk(vis.node) if (isinstance(n, ast.Call) and isinstance(n.func, ast.Attribute) and n.func.attr == 'update' and 'phi_name_to_node_dict' in ast.unparse(n.func.value))
              or (isinstance(n, ast.Assign) and any(isinstance(t, ast.Subscript) and 'phi_name_to_node_dict' in ast.unparse(t.value) for t in n.targets))]
    binds = {}
    for n in ast.walk(vis.node):
        if isinstance(n, ast.Assign) and len(n.targets) == 1 and isinstance(n.targets[0], ast.Name) and 'phi_name_to_node_dict' in ast.unparse(n.value):
            binds[n.targets[0].id] = True
    remaps += [n for n in ast.walk(vis.node) if isinstance(n, ast.Call) and isinstance(n.func, ast.Attribute) and n.func.attr == 'update' and isinstance(n.func.value, ast.Name) and n.func.value.id in binds]
    remaps += [n for n in ast.walk(vis.node) if isinstance(n, ast.Assign) and any(isinstance(t, ast.Subscript) and isinstance(t.value, ast.Name) and t.value.id in binds for t in n.targets)]
    if not wrappers:
        rep.ok(rule, vv.module.rel, vv.qual, 'variable-name', 'a variable is rewritten to a variable', vv.node.lineno)
        return 1
    if not remaps:
        rep.ok(rule, vis.module.rel, vis.qual, 'variable-name', 'names are not re-pointed by visit()', vis.node.lineno)
        return 1
    special = any(isinstance(c, ast.Call) and isinstance(c.func, ast.Name) and c.func.id == 'isinstance' and len(c.args) == 2 and 'Variable' in ast.unparse(c.args[1]) for c in ast.walk(vis.node))
    if special:
        rep.ok(rule, vis.module.rel, vis.qual, 'variable-name', 'the name of a variable is re-pointed to the Variable node, not to the delay wrapped round it', vis.node.lineno)
    else:
        rep.fail(rule, vis.module.rel, vis.qual, 'variable-name', 'visitVariable may return `%s(...)` (the variable delayed by the remaining look-ahead) and visit() re-points the variable\'s name to whatever '
                 'it returns: after pastify() get_value(v) of an input variable next to a future operator is the delayed copy -- `out = (eventually[0,2](a >= 1)) and b`: get_value(\'b\') is -inf, -inf, '
                 'b[0], b[1], ... instead of the data supplied' % wrappers[0].func.id, vis.node.lineno)
    return 1


# ------------------------------------------------------------------------------------------------- R-SEAM (dense-time online, unary operations with a frontier)
def check_seam(ix, rep, rule='R-SEAM'):
    """the output of every dense-time online operation ends with a closing sample at the time R of its last input sample, and its next output may start
    at R again: consecutive chunks *between operators* overlap in the sample on the seam.  The binary operations drop it when they glue the new chunk
    to their buffers.  An operation that remembers R (`self.X = sample[-1][0]`) and builds influence intervals from consecutive samples has to do the
    same: otherwise the repeated sample opens a zero-length interval, the operation emits two samples with one time-stamp, and the merge kernel of the
    next binary operator raises 'Unexpected case in the intersection'"""
    n = 0
    for mn, m in sorted(ix.modules.items()):
        if not (mn.startswith('rtamt.semantics.stl.dense_time.online.') or mn.startswith('rtamt.semantics.arithmetic.dense_time.online.')):
            continue
        for c in m.classes.values():
            f = c.methods.get('update')
            if f is None or len(f.node.args.args) < 2:
                continue
            params = [a.arg for a in f.node.args.args[1:]]
            frontier = None
            for st in ast.walk(f.node):
                if isinstance(st, ast.Assign) and len(st.targets) == 1 and _self_attr(st.targets[0]):
                    v = ast.unparse(st.value).replace(' ', '')
                    for p in params:
                        if v in ('%s[-1][0]' % p, '%s[len(%s)-1][0]' % (p, p)):
                            frontier = (st.targets[0].attr, p, st)
            if frontier is None:
                continue
            attr, p, st = frontier
            n += 1
            rep.analysed(f)
            ok = False
            for cmp_ in ast.walk(f.node):
                if isinstance(cmp_, ast.Compare) and len(cmp_.ops) == 1 and isinstance(cmp_.ops[0], (ast.Eq, ast.LtE)):
                    l, r = ast.unparse(cmp_.left).replace(' ', ''), ast.unparse(cmp_.comparators[0]).replace(' ', '')
                    if {'%s[0][0]' % p, 'self.%s' % attr} == {l, r}:
                        ok = True
            slot = 'seam:%s' % c.name
            if ok:
                rep.ok(rule, m.rel, '%s.update' % c.name, slot, 'a first sample that repeats the time-stamp of the last one received is recognised (compared with self.%s)' % attr, st.lineno)
            else:
                rep.fail(rule, m.rel, '%s.update' % c.name, slot, 'update() remembers the time of its last input sample in self.%s but never compares the first sample of the next chunk with it: the sample '
                         'on the seam, which every upstream operation emits twice (closing sample of one output, first sample of the next), is processed as a new sample of length 0 -- '
                         '`out = a or historically[0,2](once[0,1](a))`, a = [[0,1],[1,3],[2,2],[3,0.5],[4,4],[5,1],[6,2]] fed as a[:2], a[2:]: RTAMTException "Unexpected case in the '
                         'intersection"; in one chunk: [[0,1],[1,3],[2,2],[4,4],[5,2],[6,2]]' % attr, st.lineno)
    return n


# ------------------------------------------------------------------------------------------------- R-SHAPE (closing sample of the merge kernel)
def check_closing_sample_shape(ix, rep, rule='R-SHAPE'):
    """the online merge kernel returns (samples, closing sample, remainder 1, remainder 2); its callers test the closing sample for emptiness, read its
    time-stamp and append it to the result.  Every value it is given is therefore a sample `[t, v]` or an empty list -- a scalar (`float('nan')`) is
    truthy, has no `[0]`, and ends up in the output list as if it were a sample"""
    m = ix.module('rtamt.semantics.stl.dense_time.online.intersection')
    f = m.functions.get('intersection')
    if f is None:
        raise AnalysisError('online intersection kernel vanished')
    rets = [r for r in ast.walk(f.node) if isinstance(r, ast.Return) and isinstance(r.value, ast.Tuple) and len(r.value.elts) == 4]
    names = {r.value.elts[1].id for r in rets if isinstance(r.value.elts[1], ast.Name)}
    n = 0
    rep.analysed(f)
    for st in ast.walk(f.node):
        if isinstance(st, ast.Assign) and len(st.targets) == 1 and isinstance(st.targets[0], ast.Name) and st.targets[0].id in names:
            n += 1
            v = st.value
            ok = (isinstance(v, ast.List) and len(v.elts) in (0, 2)) or (isinstance(v, ast.Call) and isinstance(v.func, ast.Name) and v.func.id == 'list' and not v.args) \
                or (isinstance(v, ast.Name))
            slot = 'closing-sample:%d' % n
            if ok:
                rep.ok(rule, m.rel, 'intersection', slot, 'a sample or no sample', st.lineno)
            else:
                rep.fail(rule, m.rel, 'intersection', 'closing-sample:scalar', 'the closing sample is set to `%s`, not to a sample or an empty list: when one operand\'s chunk lies wholly before the '
                         'other\'s (signals fed at different rates) the operation returns the scalar in its output list and the next update raises TypeError -- `out = a + b`: '
                         'update(a=[[0,3],[1,-1]], b=[]), update(a=[], b=[[2,3],[3,0]]) returns [nan], the third update raises "\'float\' object is not subscriptable"' % ast.unparse(v)[:30], st.lineno)
    return n


# ------------------------------------------------------------------------------------------------- R-EXC (limits of the host language)
def _handler_types(h):
    if h.type is None:
        return {'BaseException'}
    if isinstance(h.type, ast.Tuple):
        return {ast.unparse(e).split('.')[-1] for e in h.type.elts}
    return {ast.unparse(h.type).split('.')[-1]}


def _raises_rtamt(body):
    return any(isinstance(r, ast.Raise) and r.exc is not None and 'RTAMTException' in ast.unparse(r.exc) for s in body for r in ast.walk(s))


def check_parse_limits(ix, rep, rule='R-EXC'):
    """parse() runs a recursive-descent parser and a recursive tree visitor over a text of arbitrary nesting depth, and turns numerals of arbitrary length into
    numbers and node names: RecursionError (400 nested parentheses), OverflowError (float(int('0x' + 'F'*257))) and ValueError (str() of a 4400-digit bound) are
    raised by the interpreter, not by rtamt -- the entry rule and the visit of its result have to sit in a try that turns them into RTAMTException"""
    c = ix.module(AST_MOD).classes.get('AbstractAst')
    f = c.methods.get('parse') if c is not None else None
    if f is None:
        raise AnalysisError('AbstractAst.parse vanished')
    rep.analysed(f)
    calls = [x for x in ast.walk(f.node) if isinstance(x, ast.Call) and isinstance(x.func, ast.Attribute)
             and ((isinstance(x.func.value, ast.Name) and x.func.value.id == 'parser') or (x.func.attr == 'visit' and isinstance(x.func.value, ast.Name) and x.func.value.id == 'self'))
             and x.func.attr not in ('removeErrorListeners', 'addErrorListener')]
    if len(calls) < 2:
        raise AnalysisError('%s: entry rule / visit of its result not found' % f.where)
    n = 0
    for kind, wanted in (('depth', ({'RecursionError'}, {'RuntimeError'}, {'Exception'})), ('magnitude', ({'OverflowError', 'ValueError'}, {'ArithmeticError', 'ValueError'}, {'Exception'}))):
        n += 1
        ok = True
        for call in calls:
            covered = False
            for t in ast.walk(f.node):
                if isinstance(t, ast.Try) and any(call is x for b in t.body for x in ast.walk(b)):
                    caught = set()
                    for h in t.handlers:
                        if _raises_rtamt(h.body):
                            caught |= _handler_types(h)
                    if any(w <= caught for w in wanted):
                        covered = True
            ok = ok and covered
        slot = 'limits:%s' % kind
        if ok:
            rep.ok(rule, f.module.rel, f.qual, slot, '%s of the interpreter are reported as RTAMTException' % ('recursion limits' if kind == 'depth' else 'numeric limits'), f.node.lineno)
        elif kind == 'depth':
            rep.fail(rule, f.module.rel, f.qual, slot, 'the recursive-descent parser and the recursive visitor run outside a try that turns RecursionError into RTAMTException: '
                     '`out = ((((...a...)))) >= 1` with 400 pairs of parentheses, or `out = not not ... (a >= 1)` with 3000 nots, raises RecursionError from parse()', calls[0].lineno)
        else:
            rep.fail(rule, f.module.rel, f.qual, slot, 'numerals of the text are turned into numbers and node names outside a try that turns OverflowError / ValueError into RTAMTException: '
                     '`out = a >= 0x` + 257 F\'s raises OverflowError (float of a 1028-bit int), `always[0,` + 4400 digits + `](a>=1)` raises ValueError (str() of the bound in the node name)',
                     calls[0].lineno)
    return n


def check_default_unit_domain(ix, rep, rule='R-UNITDOM'):
    """the default unit is set through the API (`spec.unit = 'ms'`): the setter admits only keys of the unit table, otherwise the first interval of the text
    raises KeyError from parse()"""
    n = 0
    cands = [ix.module(AST_MOD).classes.get('AbstractAst'), ix.find_class('rtamt.syntax.ast.parser.stl.parser_visitor', 'StlAstParserVisitor'),
             ix.find_class('rtamt.syntax.ast.parser.ltl.parser_visitor', 'LtlAstParserVisitor')]
    for c in [x for x in cands if x is not None]:
      for st in c.node.body:
        if isinstance(st, ast.FunctionDef) and st.name == 'unit' and any(ast.unparse(d).endswith('.setter') for d in st.decorator_list):
            n += 1
            param = st.args.args[1].arg
            ok = False
            for iff in ast.walk(st):
                if isinstance(iff, ast.If) and _raises_rtamt(iff.body):
                    t = ast.unparse(iff.test).replace(' ', '')
                    if t in ('%snotinself.U' % param, 'not%sinself.U' % param, 'not(%sinself.U)' % param, '%snotinself.U.keys()' % param):
                        ok = True
            if ok:
                rep.ok(rule, c.module.rel, c.name + '.unit', 'default-unit', 'only keys of the unit table are accepted', st.lineno)
            else:
                rep.fail(rule, c.module.rel, c.name + '.unit', 'default-unit', 'the setter stores any string: `spec.unit = \'min\'` followed by `out = always[0,2](a>=1)` raises KeyError(\'min\') from '
                         'parse() (visitInterval reads self.U[unit])', st.lineno)
    return n


def check_nonnegative_bound(ix, rep, rule='R-GUARD-DOM'):
    """0 <= begin: a literal cannot be negative, a declared constant can (`declare_const('c','int','-5')`, `always[c,2]`)"""
    stl = ix.find_class('rtamt.syntax.ast.parser.stl.parser_visitor', 'StlAstParserVisitor')
    f = stl.methods.get('visitInterval') if stl is not None else None
    if f is None:
        raise AnalysisError('visitInterval vanished')
    rep.analysed(f)
    first = None
    for st in f.node.body:
        if isinstance(st, ast.Assign) and isinstance(st.targets[0], ast.Tuple) and 'intervalTime(0)' in ast.unparse(st.value).replace(' ', ''):
            first = st.targets[0].elts[0].id
    ok = False
    for iff in ast.walk(f.node):
        if isinstance(iff, ast.If) and _raises_rtamt(iff.body):
            for cmp_ in ast.walk(iff.test):
                if isinstance(cmp_, ast.Compare) and len(cmp_.ops) == 1:
                    l, r = ast.unparse(cmp_.left), ast.unparse(cmp_.comparators[0])
                    if (l == first and r == '0' and isinstance(cmp_.ops[0], ast.Lt)) or (l == '0' and r == first and isinstance(cmp_.ops[0], ast.Gt)):
                        ok = True
    if ok:
        rep.ok(rule, f.module.rel, f.qual, 'begin>=0', 'a negative lower bound is rejected', f.node.lineno)
    else:
        rep.fail(rule, f.module.rel, f.qual, 'begin>=0', 'no guard `begin < 0 -> raise RTAMTException`: a bound given by a declared constant may be negative -- declare_const(\'c\',\'int\',\'-5\'), '
                 '`out = always[c,2](a>=1)` is accepted as always[-5,2]', f.node.lineno)
    return 1


# ------------------------------------------------------------------------------------------------- R-GAPLOOP (one data set, one count)
def check_offline_counter_restart(ix, rep, rule='R-GAPLOOP'):
    """the offline counter is the number of bad gaps of *the* time column supplied: evaluate() starts it at 0 before it walks the gaps (a second evaluate()
    of a data set with one bad gap would otherwise read 2)"""
    m = ix.module('rtamt.semantics.abstract_discrete_time_offline_interpreter')
    n = 0
    for c in m.classes.values():
        f = c.methods.get('evaluate')
        if f is None:
            continue
        n += 1
        rep.analysed(f)
        counting = [x for x in ast.walk(f.node) if isinstance(x, ast.Call) and isinstance(x.func, ast.Attribute) and x.func.attr == 'update_sampling_violation_counter']
        first_count_line = min([x.lineno for x in counting] or [10 ** 9])
        restarts = [st for st in f.node.body if isinstance(st, ast.Assign) and any(_self_attr(t, 'sampling_violation_counter') for t in st.targets)
                    and ast.unparse(st.value).replace(' ', '') in ('0', 'int(0)') and st.lineno < first_count_line]
        if restarts:
            rep.ok(rule, m.rel, f.qual, 'offline:restart', 'the count starts at 0 for every data set', restarts[0].lineno)
        else:
            rep.fail(rule, m.rel, f.qual, 'offline:restart', 'evaluate() adds the bad gaps of this data set to the count left by the previous evaluate(): time = [0,1,3] with period 1 s reads 1 after the '
                     'first evaluate() and 2 after the second, for a time column with one bad gap', f.node.lineno)
    return n


# ------------------------------------------------------------------------------------------------- R-EXH (what pastify() removes before a monitor can refuse it)
def check_pastify_keeps_rejections(ix, rep, rule='R-EXH'):
    """the dense-time monitors refuse next / s_next when the operators are built.  pastify() rewrites both away (their handler returns the rewritten operand),
    so after pastify() the refusal is never reached and the specification yields values: the wrapper has to refuse them for a dense-time interpreter
    before it hands the ast to the pastifier"""
    c = ix.module(SPEC_MOD).classes.get('AbstractOnlineSpecification')
    f = c.methods.get('pastify') if c is not None else None
    if f is None:
        raise AnalysisError('AbstractOnlineSpecification.pastify vanished')
    rep.analysed(f)
    # does the pastifier consume Next nodes?
    pcls = ix.find_class('rtamt.pastifier.stl.pastifier', 'StlPastifier')
    consumed = []
    for nm in ('visitNext', 'visitStrongNext'):
        g = ix.resolve_method(pcls, nm) if pcls is not None else None
        if g is not None and not any(isinstance(x, ast.Call) and isinstance(x.func, ast.Name) and x.func.id in ('Next', 'StrongNext') for x in ast.walk(g.node)):
            consumed.append(nm[5:])
    if not consumed:
        rep.ok(rule, f.module.rel, f.qual, 'pastify:dense-next', 'the pastifier keeps next / s_next nodes', f.node.lineno)
        return 1
    # the wrapper (with the self-methods it calls) tests for a dense-time interpreter and raises RTAMTException in that arm
    bodies = [f.node] + [c.methods[x.func.attr].node for x in ast.walk(f.node) if isinstance(x, ast.Call) and _self_attr(x.func) and x.func.attr in c.methods]
    src = ' '.join(ast.unparse(b) for b in bodies)
    guarded = any(isinstance(i, ast.If) and 'Dense' in ast.unparse(i.test) for i in ast.walk(f.node)) and 'RTAMTException' in src and 'Next' in src
    if guarded:
        rep.ok(rule, f.module.rel, f.qual, 'pastify:dense-next', 'next / s_next are refused for a dense-time interpreter before the pastifier removes them', f.node.lineno)
    else:
        rep.fail(rule, f.module.rel, f.qual, 'pastify:dense-next', 'the pastifier rewrites %s away, and pastify() hands it the ast of a dense-time specification without refusing them: '
                 'StlDenseTimeSpecification, `out = next(a >= 1)`: update() without pastify() raises "Next operator not implemented in STL dense-time", after pastify() it returns [[0,0.0],[1,1.0]]'
                 % ' and '.join(consumed), f.node.lineno)
    return 1


# ------------------------------------------------------------------------------------------------- R-EXACT (dense-time conversion)
def check_dense_conversion_exact(ix, rep, rule='R-EXACT'):
    """one duration, one number: [0,700ms] and [0,0.7s] are the same window only if the conversion to the default unit is exact and rounded once.  A ratio of two
    float table entries (`U[b_unit] / U[unit]`) is rounded before it multiplies the bound and the product is rounded again: 700 * (0.001 / 1) is
    0.7000000000000001, 0.7 * (1 / 1) is 0.7"""
    m = ix.module('rtamt.semantics.dense_time_interpreter')
    c = m.classes.get('DenseTimeInterpreter')
    f = c.methods.get('time_unit_transformer') if c is not None else None
    if f is None:
        raise AnalysisError('DenseTimeInterpreter.time_unit_transformer vanished')
    rep.analysed(f)

    def entry(e):
        return isinstance(e, ast.Subscript) and isinstance(e.value, ast.Attribute) and e.value.attr == 'U'
    n = 0
    bad = []
    for d in ast.walk(f.node):
        if isinstance(d, ast.BinOp) and isinstance(d.op, ast.Div):
            n += 1
            if entry(d.left) and entry(d.right):
                bad.append(d)
    if bad:
        rep.fail(rule, m.rel, f.qual, 'dense:exact-ratio', '`%s` divides two floats of the unit table and multiplies the bound with the rounded quotient: two notations of one duration get different '
                 'windows -- unit s, x = [[0,1],[0.7,3],[1.4,2],[2.1,0],[5,0]]: once[0,700ms](x) = [[0,1],[0.7,3],[2.1,2],[2.8000000000000003,0],[5.7,0]], '
                 'once[0,0.7s](x) = [[0,1],[0.7,3],[2.0999999999999996,2],[2.8,0],[5.7,0]]' % ast.unparse(bad[0])[:60], bad[0].lineno)
    else:
        rep.ok(rule, m.rel, f.qual, 'dense:exact-ratio', 'the conversion factor is an exact rational, the bound is rounded once', f.node.lineno)
    return max(n, 1)


def check_set_ast_lazy(ix, rep, rule='R-CONFIG'):
    """the specification wrappers hand the ast to an interpreter at the first evaluation (`update`, `final_update`, `evaluate`), under the guard flag,
    and nowhere else: set_ast() of an online interpreter converts every bound with the period and the default unit in force *at that moment*.
    Built earlier (by pastify(), by parse()), the operators do not see a set_sampling_period() / `unit = ..` that follows -- the same specification
    configured before and after then counts its bounds differently."""
    m = ix.module(SPEC_MOD)
    n = 0
    for c in m.classes.values():
        for nm, f in c.methods.items():
            for call in ast.walk(f.node):
                if isinstance(call, ast.Call) and isinstance(call.func, ast.Attribute) and call.func.attr == 'set_ast' and _self_attr(call.func.value) \
                        and call.func.value.attr.endswith('_interpreter'):
                    n += 1
                    rep.analysed(f)
                    slot = '%s.set_ast<-%s.%s' % (call.func.value.attr, c.name, nm)
                    if nm in ('update', 'final_update', 'evaluate'):
                        rep.ok(rule, f.module.rel, f.qual, slot, 'the operators are built at the first evaluation', call.lineno)
                    else:
                        rep.fail(rule, f.module.rel, f.qual, slot, '%s() hands the ast to the interpreter: the operators are built, and every bound is converted, with the sampling period and '
                                 'default unit in force now -- a set_sampling_period() or `unit = ...` that follows (legal until the first evaluation) no longer reaches them, so two '
                                 'notations of one duration give different windows' % nm, call.lineno)
    return n
