"""R-OWN -- no borrowed object is mutated in place (driver over the ownership analysis)."""
import ast

from sa.index import ClassInfo, FuncInfo
from sa import own, model as M, dispatch as D
from sa.rules import exh


def helper_functions(ix):
    out = []
    for m in ix.modules.values():
        if m.name.startswith('rtamt.semantics'):
            out.extend(m.functions.values())
    return out


def all_semantic_methods(ix):
    out = []
    for m in ix.modules.values():
        if m.name.startswith('rtamt.semantics'):
            for c in m.classes.values():
                out.extend(c.methods.values())
    return out


def run(ix, rep, scope='anchored', rule='R-OWN'):
    """scope 'anchored': handlers/operations/entry points of the four standard monitors (+ IA overrides).
    Returns number of functions analysed."""
    helpers = helper_functions(ix)
    # methods are summarised too: an entry point that hands the caller's data to `self.helper(data)` is judged by what that helper does
    sums = own.compute_summaries(ix, helpers + all_semantic_methods(ix), 'all')
    n = 0

    def report(f, an, slot_prefix=''):
        rep.analysed(f)
        rep.unit(f.module.rel)
        if an.findings:
            seen = set()
            for (line, text, node) in an.findings:
                key = ast.unparse(node)[:80]
                if key in seen:
                    continue
                seen.add(key)
                rep.fail(rule, f.module.rel, f.qual, slot_prefix + key, text, line)
        else:
            rep.ok(rule, f.module.rel, f.qual, slot_prefix + 'no-mutation', 'no borrowed object is mutated', f.node.lineno)

    # helpers themselves: a helper may mutate a *fresh copy* of its parameter but not the parameter
    for f in helpers:
        an = own.Analyzer(ix, f, 'all', sums, report_param_mutation=False).run()
        n += 1
        report(f, an)

    done = set()
    for mon in M.monitors(ix):
        d = D.dispatch_of(ix, mon.cls)
        # visit wrappers (store results) and handlers
        funcs = []
        for nc in D.node_classes(ix):
            meth, _ = d.method_for(nc, ix)
            if not meth:
                continue
            cat, info, f = D.classify(ix, mon.cls, meth)
            if cat == 'compute':
                funcs.append(f)
        funcs.extend(d.wrappers)
        for f in funcs:
            if id(f) in done:
                continue
            done.add(id(f))
            an = own.Analyzer(ix, f, set(), sums, visit_returns_borrowed=(mon.mode == 'offline'), cls=mon.cls).run()
            n += 1
            report(f, an)
        # data entry points
        for name, bp in (('evaluate', {0}), ('update', 'all'), ('set_variable_to_ast_from_dataset', {0}), ('visitSpec', set())):
            f = ix.resolve_method(mon.cls, name)
            if f is None or id(f) in done:
                continue
            done.add(id(f))
            an = own.Analyzer(ix, f, bp, sums, visit_returns_borrowed=(mon.mode == 'offline'), cls=mon.cls).run()
            n += 1
            report(f, an)
        if mon.mode == 'online':
            for nm, opc in exh.constructed_operations(ix, mon).items():
                for c in ix.mro(opc):
                    if not isinstance(c, ClassInfo):
                        continue
                    for mname in ('update', 'sat'):
                        f = c.methods.get(mname)
                        if f is None or id(f) in done:
                            continue
                        done.add(id(f))
                        an = own.Analyzer(ix, f, 'all', sums, cls=opc).run()
                        n += 1
                        report(f, an)
            uv = _update_visitor(ix, mon)
            if uv is not None:
                for c in ix.mro(uv):
                    if isinstance(c, ClassInfo):
                        for f in c.methods.values():
                            if id(f) in done or not f.name.startswith('visit'):
                                continue
                            done.add(id(f))
                            # var_object_dict parameter holds the caller's objects
                            params = [a.arg for a in f.node.args.args[1:]]
                            an = own.Analyzer(ix, f, set(), sums, cls=uv, store_params=('var_object_dict',)).run()
                            n += 1
                            report(f, an)
    # the specification wrappers: what the user passes goes through evaluate()/update()/final_update() of the specification object first (varargs: every
    # positional argument is the caller's)
    sm = ix.modules.get('rtamt.spec.abstract_specification')
    if sm is not None:
        for c in sm.classes.values():
            for mname in ('evaluate', 'update', 'final_update'):
                f = c.methods.get(mname)
                if f is None or id(f) in done:
                    continue
                done.add(id(f))
                an = own.Analyzer(ix, f, 'all', sums, cls=c).run()
                n += 1
                report(f, an, slot_prefix='wrapper:')
    if scope == 'package':
        for f in all_semantic_methods(ix):
            if id(f) in done:
                continue
            done.add(id(f))
            an = own.Analyzer(ix, f, set(), sums, visit_returns_borrowed=False).run()
            n += 1
            report(f, an)
    return n


def _update_visitor(ix, mon):
    for c in ix.mro(mon.cls):
        if isinstance(c, ClassInfo) and '__init__' in c.methods:
            for st in ast.walk(c.methods['__init__'].node):
                if (isinstance(st, ast.Assign) and isinstance(st.targets[0], ast.Attribute)
                        and st.targets[0].attr == 'updateVisitor' and isinstance(st.value, ast.Call)):
                    ent = ix.resolve_expr(c.module, st.value.func)
                    if isinstance(ent, ClassInfo):
                        return ent
    return None
