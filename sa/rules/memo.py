"""R-CACHE -- a memo is invalidated by everything it depends on.

A method that answers from ``self.C[k]`` when k is known and stores its result there otherwise returns, from the second call on, what it
computed *with the configuration of the first call*.  That is the same function only if every attribute the computation reads is either
part of the key or cannot change -- or every method that changes it also clears C.  For a memoised method the rule collects the self
attributes read by the computation (through self-method calls too), and for every other method of the class hierarchy that writes one of
them (constructors excepted) demands a write or ``.clear()`` of the memo attribute in the same method.
"""
import ast

from sa import effects as E
from sa.index import ClassInfo


def memo_of(fnode):
    """-> (attr, key text, hit If/Try node, [store stmts]) when fnode has the idiom  if k in self.C: return self.C[k] ... self.C[k] = v"""
    hit = None
    for st in fnode.body:
        if isinstance(st, ast.If) and isinstance(st.test, ast.Compare) and len(st.test.ops) == 1 and isinstance(st.test.ops[0], ast.In):
            c = st.test.comparators[0]
            if isinstance(c, ast.Call) and isinstance(c.func, ast.Attribute) and c.func.attr == 'keys':
                c = c.func.value
            if isinstance(c, ast.Attribute) and isinstance(c.value, ast.Name) and c.value.id == 'self' and st.body and isinstance(st.body[-1], ast.Return):
                r = st.body[-1].value
                if isinstance(r, ast.Subscript) and ast.unparse(r.value) == ast.unparse(c) and ast.unparse(r.slice) == ast.unparse(st.test.left):
                    hit = (c.attr, ast.unparse(st.test.left), st)
                    break
        if isinstance(st, ast.Try) and len(st.body) == 1 and isinstance(st.body[0], ast.Return) and isinstance(st.body[0].value, ast.Subscript):
            r = st.body[0].value
            if isinstance(r.value, ast.Attribute) and isinstance(r.value.value, ast.Name) and r.value.value.id == 'self' \
                    and any(h.type is not None and 'KeyError' in ast.unparse(h.type) for h in st.handlers):
                hit = (r.value.attr, ast.unparse(r.slice), st)
                break
    if hit is None:
        return None
    stores = [s for s in ast.walk(fnode) if isinstance(s, ast.Assign) and len(s.targets) == 1 and isinstance(s.targets[0], ast.Subscript)
              and ast.unparse(s.targets[0].value) == 'self.%s' % hit[0]]
    if not stores:
        return None
    return hit[0], hit[1], hit[2], stores


def check_method(ix, rep, cls, f, label, rule='R-CACHE'):
    """cls: the class the method is resolved on; returns number of (dependency, writer) obligations"""
    m = memo_of(f.node)
    if m is None:
        return 0
    attr, key, hitnode, stores = m
    tot = E.transitive_effects(ix, cls, f.node.name)
    deps = sorted(a for a in tot.reads if a != attr and ix.resolve_method(cls, a) is None)
    n = 0
    classes = [cls] + [c for c in ix.subclasses_of(cls)]
    seen = set()
    for c in classes:
        for k in ix.mro(c):
            if not isinstance(k, ClassInfo):
                continue
            for wname, w in sorted(k.methods.items()):
                if wname == '__init__' or w is f or id(w) in seen:
                    continue
                seen.add(id(w))
                ef = E.method_effects(w)
                changed = sorted(d for d in deps if d in ef.writes)
                if not changed:
                    continue
                n += 1
                clears = attr in ef.writes or any(isinstance(x, ast.Call) and isinstance(x.func, ast.Attribute) and x.func.attr == 'clear'
                                                  and ast.unparse(x.func.value) == 'self.%s' % attr for x in ast.walk(w.node))
                slot = '%s:self.%s<-%s' % (label, attr, wname)
                if clears:
                    rep.ok(rule, w.module.rel, w.qual, slot, 'changes %s and renews the memo' % ', '.join('self.' + d for d in changed), w.node.lineno)
                else:
                    rep.fail(rule, w.module.rel, w.qual, slot, '%s() answers from the memo self.%s[%s]; what it stores there is computed from self.%s, which %s() changes without clearing '
                             'the memo: after %s() the old answers are still returned (the key does not contain the changed setting)'
                             % (f.node.name, attr, key, changed[0], wname, wname), w.node.lineno)
    if n == 0:
        rep.ok(rule, f.module.rel, f.qual, '%s:self.%s' % (label, attr), 'the memoised computation reads no attribute that any method changes', f.node.lineno)
        n = 1
    return n


POSITIVE = """
def time_unit_transformer(self, node):
    if node in self.bounds:
        return self.bounds[node]
    b = node.begin / self.sampling_period
    self.bounds[node] = b
    return b
"""


def self_test():
    m = memo_of(ast.parse(POSITIVE).body[0])
    return m is not None and m[0] == 'bounds' and m[1] == 'node' and len(m[3]) == 1
