"""R-CACHE -- a memo is invalidated by everything it depends on.

A method that answers from ``self.C[k]`` when k is known and stores its result there otherwise returns, from the second call on, what it
computed *with the configuration of the first call*.  That is the same function only if every attribute the computation reads is either
part of the key or cannot change -- or every method that changes it also clears C.  For a memoised method the rule collects the self
attributes read by the computation (through self-method calls too), and for every other method of the class hierarchy that writes one of
them (constructors excepted) demands a write or ``.clear()`` of the memo attribute in the same method.
"""
import ast

from sa import effects as E
from sa.index import ClassInfo


def memo_of(fnode):
    """-> (attr, key text, hit If/Try node, [store stmts]) when fnode has the idiom  if k in self.C: return self.C[k] ... self.C[k] = v"""
    hit = None
    for st in fnode.body:
        if isinstance(st, ast.If) and isinstance(st.test, ast.Compare) and len(st.test.ops) == 1 and isinstance(st.test.ops[0], ast.In):
            c = st.test.comparators[0]
            if isinstance(c, ast.Call) and isinstance(c.func, ast.Attribute) and c.func.attr == 'keys':
                c = c.func.value
            if isinstance(c, ast.Attribute) and isinstance(c.value, ast.Name) and c.value.id == 'self' and st.body and isinstance(st.body[-1], ast.Return):
                r = st.body[-1].value
                if isinstance(r, ast.Subscript) and ast.unparse(r.value) == ast.unparse(c) and ast.unparse(r.slice) == ast.unparse(st.test.left):
                    hit = (c.attr, ast.unparse(st.test.left), st)
                    break
        if isinstance(st, ast.Try) and len(st.body) == 1 and isinstance(st.body[0], ast.Return) and isinstance(st.body[0].value, ast.Subscript):
            r = st.body[0].value
            if isinstance(r.value, ast.Attribute) and isinstance(r.value.value, ast.Name) and r.value.value.id == 'self' \
                    and any(h.type is not None and 'KeyError' in ast.unparse(h.type) for h in st.handlers):
                hit = (r.value.attr, ast.unparse(r.slice), st)
                break
    if hit is None:
        # the other spelling:  if k not in self.C: <compute>; self.C[k] = v    ...   return self.C[k]
        for st in fnode.body:
            if isinstance(st, ast.If) and isinstance(st.test, ast.Compare) and len(st.test.ops) == 1 and isinstance(st.test.ops[0], ast.NotIn) and not st.orelse:
                c = st.test.comparators[0]
                if isinstance(c, ast.Attribute) and isinstance(c.value, ast.Name) and c.value.id == 'self':
                    key = ast.unparse(st.test.left)
                    fills = [x for x in ast.walk(st) if isinstance(x, ast.Assign) and len(x.targets) == 1 and isinstance(x.targets[0], ast.Subscript)
                             and ast.unparse(x.targets[0].value) == 'self.%s' % c.attr and ast.unparse(x.targets[0].slice) == key]
                    rets = [r for r in fnode.body if isinstance(r, ast.Return) and isinstance(r.value, ast.Subscript) and ast.unparse(r.value.value) == 'self.%s' % c.attr
                            and ast.unparse(r.value.slice) == key]
                    if fills and rets:
                        return c.attr, key, st, fills, 'miss-fill', rets[0]
        return None
    stores = [s for s in ast.walk(fnode) if isinstance(s, ast.Assign) and len(s.targets) == 1 and isinstance(s.targets[0], ast.Subscript)
              and ast.unparse(s.targets[0].value) == 'self.%s' % hit[0]]
    if not stores:
        return None
    return hit[0], hit[1], hit[2], stores, 'hit-return', None


def check_method(ix, rep, cls, f, label, rule='R-CACHE'):
    """cls: the class the method is resolved on; returns number of (dependency, writer) obligations"""
    m = memo_of(f.node)
    if m is None:
        return 0
    attr, key, hitnode, stores = m[:4]
    tot = E.transitive_effects(ix, cls, f.node.name)
    def _is_plain_method(a):
        m_ = ix.resolve_method(cls, a)
        if m_ is None:
            return False
        # a property is an attribute for this purpose: `self.a = v` somewhere changes what `self.a` reads here
        return not any(ast.unparse(d) == 'property' or ast.unparse(d).endswith('.setter') for d in m_.node.decorator_list)
    deps = sorted(a for a in tot.reads if a != attr and not _is_plain_method(a))
    # an attribute whose value is part of the key is covered by the key
    keyed = set()
    try:
        for x in ast.walk(ast.parse(key, mode='eval')):
            if isinstance(x, ast.Attribute) and isinstance(x.value, ast.Name) and x.value.id == 'self':
                keyed.add(x.attr)
    except SyntaxError:
        pass
    for st in ast.walk(f.node):
        # key bound to a tuple built before the test: k = (node, self.period, ...)
        if isinstance(st, ast.Assign) and len(st.targets) == 1 and isinstance(st.targets[0], ast.Name) and st.targets[0].id == key:
            for x in ast.walk(st.value):
                if isinstance(x, ast.Attribute) and isinstance(x.value, ast.Name) and x.value.id == 'self':
                    keyed.add(x.attr)
    deps = [d for d in deps if d not in keyed]
    n = 0
    # the key determines the argument: it contains the parameter itself, or every attribute of the parameter that the memoised computation
    # (this method and the helpers it hands the parameter to) reads
    keytext = key
    for st in ast.walk(f.node):
        if isinstance(st, ast.Assign) and len(st.targets) == 1 and isinstance(st.targets[0], ast.Name) and st.targets[0].id == key:
            keytext = ast.unparse(st.value)
    params = [a.arg for a in f.node.args.args if a.arg != 'self']
    try:
        kt = ast.parse(keytext, mode='eval')
    except SyntaxError:
        kt = None
    for p_ in params:
        if kt is None:
            break
        whole = any(isinstance(x, ast.Name) and x.id == p_ and not _is_attr_base(kt, x) for x in ast.walk(kt))
        in_key = {x.attr for x in ast.walk(kt) if isinstance(x, ast.Attribute) and isinstance(x.value, ast.Name) and x.value.id == p_}
        read = _param_attr_reads(ix, cls, f, p_, set())
        read.discard(None)
        if not read:
            continue
        n += 1
        slot = '%s:key:%s' % (label, p_)
        missing = sorted(read - in_key)
        if whole or not missing:
            rep.ok(rule, f.module.rel, f.qual, slot, 'the key determines everything the computation reads of `%s`' % p_, f.node.lineno)
        else:
            rep.fail(rule, f.module.rel, f.qual, slot, 'the memo self.%s is keyed by `%s`, but the memoised computation reads %s: two arguments that differ only there share one '
                     'entry and the second is answered with the first one\'s result' % (attr, keytext[:70], ', '.join('%s.%s' % (p_, m_) for m_ in missing)), hitnode.lineno)
    classes = [cls] + [c for c in ix.subclasses_of(cls)]
    seen = set()
    for c in classes:
        for k in ix.mro(c):
            if not isinstance(k, ClassInfo):
                continue
            for wname, w in sorted(k.methods.items()):
                if wname == '__init__' or w is f or id(w) in seen:
                    continue
                seen.add(id(w))
                if any(ast.unparse(d) == 'property' or ast.unparse(d).endswith('.setter') for d in w.node.decorator_list):
                    # accessor of a property: runs as part of `self.<property> = v` in the methods judged here
                    continue
                # a definition that this class overrides is reached only through the override (which is judged with everything it calls)
                if ix.resolve_method(c, wname) is not w and ix.resolve_method(cls, wname) is not w:
                    continue
                ef = E.method_effects(w)
                try:
                    tef = E.transitive_effects(ix, c, wname) if ix.resolve_method(c, wname) is w else ef
                except Exception:
                    tef = ef
                changed = sorted(d for d in deps if d in ef.writes or d in tef.writes)
                if not changed:
                    continue
                n += 1

                def _clears(fn_node):
                    return any((isinstance(x, ast.Call) and isinstance(x.func, ast.Attribute) and x.func.attr == 'clear' and ast.unparse(x.func.value) == 'self.%s' % attr)
                               or (isinstance(x, ast.Assign) and any(ast.unparse(t) == 'self.%s' % attr for t in x.targets)) for x in ast.walk(fn_node))
                # renewing is re-binding the memo attribute or .clear() -- here or in what the method calls; *filling* it (a subscript store, which
                # the memoised method itself does when the writer reaches it) is not
                clears = attr in ef.writes or attr in tef.writes or _clears(w.node)
                if not clears:
                    # the store goes through a property whose setter renews the memo
                    for d in changed:
                        for kk in ix.mro(c):
                            if isinstance(kk, ClassInfo):
                                for ww in kk.methods.values():
                                    if ww.node.name == d and any(ast.unparse(dd).endswith('.setter') for dd in ww.node.decorator_list) and _clears(ww.node):
                                        clears = True
                slot = '%s:self.%s<-%s' % (label, attr, wname)
                if clears:
                    rep.ok(rule, w.module.rel, w.qual, slot, 'changes %s and renews the memo' % ', '.join('self.' + d for d in changed), w.node.lineno)
                else:
                    rep.fail(rule, w.module.rel, w.qual, slot, '%s() answers from the memo self.%s[%s]; what it stores there is computed from self.%s, which %s() changes without clearing '
                             'the memo: after %s() the old answers are still returned (the key does not contain the changed setting)'
                             % (f.node.name, attr, key, changed[0], wname, wname), w.node.lineno)
    # settings kept on another object: the computation reads self.ast.X, and X is assigned from outside this hierarchy (the specification object's
    # `unit` setter writes self.ast.unit) -- no method of this class can renew the memo then, so X has to be part of the key
    ast_reads = set()
    todo, seen_m = [f], set()
    while todo:
        g = todo.pop()
        if id(g) in seen_m:
            continue
        seen_m.add(id(g))
        for x in ast.walk(g.node):
            if isinstance(x, ast.Attribute) and isinstance(x.value, ast.Attribute) and x.value.attr == 'ast' and isinstance(x.value.value, ast.Name) and x.value.value.id == 'self' \
                    and isinstance(x.ctx, ast.Load):
                ast_reads.add(x.attr)
            if isinstance(x, ast.Call) and isinstance(x.func, ast.Attribute):
                recv = x.func.value
                if (isinstance(recv, ast.Name) and recv.id == 'self') or (isinstance(recv, ast.Call) and isinstance(recv.func, ast.Name) and recv.func.id == 'super'):
                    owner = g.owner if g.owner is not None else cls
                    cands = []
                    if isinstance(recv, ast.Name):
                        h = ix.resolve_method(cls, x.func.attr)
                        if h is not None:
                            cands.append(h)
                    else:
                        mro = [k_ for k_ in ix.mro(cls) if isinstance(k_, ClassInfo)]
                        if owner in mro:
                            for k_ in mro[mro.index(owner) + 1:]:
                                if x.func.attr in k_.methods:
                                    cands.append(k_.methods[x.func.attr])
                                    break
                    todo.extend(cands)
    if ast_reads:
        ext = {}
        for m_ in ix.modules.values():
            if not m_.rel.startswith('rtamt/spec/') or ix.unimportable(m_):
                continue
            for c_ in m_.classes.values():
                for w in c_.methods.values():
                    if w.node.name == '__init__':
                        continue
                    for x in ast.walk(w.node):
                        tg = x.targets if isinstance(x, ast.Assign) else ([x.target] if isinstance(x, ast.AugAssign) else [])
                        for t in tg:
                            if isinstance(t, ast.Attribute) and isinstance(t.value, ast.Attribute) and t.value.attr == 'ast' and t.attr in ast_reads:
                                ext.setdefault(t.attr, w)
        for a_, w in sorted(ext.items()):
            if ('ast.%s' % a_) in keytext:
                continue
            n += 1
            rep.fail(rule, f.module.rel, f.qual, '%s:self.%s<-ast.%s' % (label, attr, a_), '%s() answers from the memo self.%s[%s]; what it stores there is computed from self.ast.%s, which %s '
                     'assigns on the ast from outside this class: nothing renews the memo, after the setting has changed the old answers are returned'
                     % (f.node.name, attr, key, a_, w.qual), hitnode.lineno)
    if n == 0:
        rep.ok(rule, f.module.rel, f.qual, '%s:self.%s' % (label, attr), 'the memoised computation reads no attribute that any method changes', f.node.lineno)
        n = 1
    return n


def _is_attr_base(tree, name_node):
    for x in ast.walk(tree):
        if isinstance(x, ast.Attribute) and x.value is name_node:
            return True
    return False


def _param_attr_reads(ix, cls, f, param, seen, depth=0):
    """attributes of parameter `param` read by f or by the methods/helpers f passes it to"""
    from sa.index import FuncInfo
    out = set()
    if id(f) in seen or depth > 4:
        return out
    seen.add(id(f))
    for x in ast.walk(f.node):
        if isinstance(x, ast.Attribute) and isinstance(x.value, ast.Name) and x.value.id == param and isinstance(x.ctx, ast.Load):
            out.add(x.attr)
        if isinstance(x, ast.Call):
            pos = [i for i, a in enumerate(x.args) if isinstance(a, ast.Name) and a.id == param]
            if not pos:
                continue
            tgt = None
            if isinstance(x.func, ast.Attribute) and isinstance(x.func.value, ast.Name) and x.func.value.id == 'self':
                tgt = ix.resolve_method(cls, x.func.attr)
                shift = 1
            elif isinstance(x.func, (ast.Name, ast.Attribute)):
                tgt = ix.resolve_expr(f.module, x.func)
                shift = 0
            if isinstance(tgt, FuncInfo):
                ps = [a.arg for a in tgt.node.args.args]
                for i in pos:
                    if i + shift < len(ps):
                        out |= _param_attr_reads(ix, cls, tgt, ps[i + shift], seen, depth + 1)
    return out


POSITIVE = """
def time_unit_transformer(self, node):
    if node in self.bounds:
        return self.bounds[node]
    b = node.begin / self.sampling_period
    self.bounds[node] = b
    return b
"""


def self_test():
    m = memo_of(ast.parse(POSITIVE).body[0])
    return m is not None and m[0] == 'bounds' and m[1] == 'node' and len(m[3]) == 1


def _hit_anywhere(fnode):
    """memo hits of the looser shape `if <k in C> [and ...]: return C[k]` with C any attribute chain rooted at self -> [(container text, If node)]"""
    out = []
    for st in ast.walk(fnode):
        if not (isinstance(st, ast.If) and st.body and isinstance(st.body[-1], ast.Return) and isinstance(st.body[-1].value, ast.Subscript)):
            continue
        r = st.body[-1].value
        cont = ast.unparse(r.value)
        if not cont.startswith('self.'):
            continue
        tests = st.test.values if isinstance(st.test, ast.BoolOp) and isinstance(st.test.op, ast.And) else [st.test]
        for t in tests:
            if isinstance(t, ast.Compare) and len(t.ops) == 1 and isinstance(t.ops[0], ast.In) and ast.unparse(t.comparators[0]) == cont \
                    and ast.unparse(t.left) == ast.unparse(r.slice):
                out.append((cont, st))
    return out


def check_offline_memo_renewed(ix, rep, mon, rule='R-CACHE'):
    """an offline evaluation is a function of the data set it is given.  A `visit` wrapper that answers from a table (`if node in T: return
    T[node]`) is that function only if T is empty when evaluate() starts: the evaluate() this monitor class resolves has to renew T on every
    path before it walks the specification.  A table that an earlier evaluate() filled -- the published results, a per-interpreter cache that
    only the sibling interpreter's evaluate() clears -- makes the second evaluation return values of the first trace."""
    from sa import flow
    n = 0
    ev = ix.resolve_method(mon.cls, 'evaluate')
    if ev is None:
        return 0
    for k in ix.mro(mon.cls):
        if not isinstance(k, ClassInfo):
            continue
        for mname, f in sorted(k.methods.items()):
            # the walk of the specification: visit, visitX, visitSpec, visitAst (a memo of a configuration-derived value, such as converted bounds,
            # is judged by check_method: its inputs are attributes, not the data set)
            if not mname.startswith('visit') or ix.resolve_method(mon.cls, mname) is not f:
                continue
            for cont, ifnode in _hit_anywhere(f.node):
                n += 1
                rep.analysed(f)
                rep.analysed(ev)
                cfg = flow.CFG(ev.node)
                dom = cfg.dominators()

                def renews(st):
                    if isinstance(st, ast.Assign) and any(ast.unparse(t) == cont for t in st.targets):
                        return True
                    return isinstance(st, ast.Expr) and isinstance(st.value, ast.Call) and isinstance(st.value.func, ast.Attribute) and st.value.func.attr == 'clear' \
                        and ast.unparse(st.value.func.value) == cont
                walks = [c for c in ast.walk(ev.node) if isinstance(c, ast.Call) and isinstance(c.func, ast.Attribute) and c.func.attr in ('visitAst', 'visit', 'visitSpec')]
                ok = bool(walks)
                for c in walks:
                    stc = c
                    parents = {}
                    for p in ast.walk(ev.node):
                        for ch in ast.iter_child_nodes(p):
                            parents[id(ch)] = p
                    while id(stc) in parents and cfg.node(stc) is None:
                        stc = parents[id(stc)]
                    nd = cfg.node(stc)
                    if nd is None or not any(cfg.stmt[d] is not None and renews(cfg.stmt[d]) for d in dom[nd] if d != nd):
                        ok = False
                slot = '%s:memo:%s' % (mon.kind, cont)
                if ok:
                    rep.ok(rule, f.module.rel, f.qual, slot, '%s renews %s before it walks the specification' % (ev.qual, cont), ifnode.lineno)
                else:
                    rep.fail(rule, f.module.rel, f.qual, slot, '%s() answers from %s when the node is in it, and %s -- the evaluate() of the %s monitor -- does not empty that table before it '
                             'walks the specification: a second evaluate() on the same specification object returns, for those nodes, the values computed from the first data set'
                             % (f.node.name, cont, ev.qual, mon.kind), ifnode.lineno)
    return n


def check_converters(ix, rep, label='converter'):
    """every definition of time_unit_transformer a monitor can reach (the base classes' and any override in a concrete interpreter): R-CACHE"""
    from sa import model as M
    n = 0
    seen = set()
    for mon in M.monitors(ix):
        for k in ix.mro(mon.cls):
            if not isinstance(k, ClassInfo):
                continue
            f = k.methods.get('time_unit_transformer')
            if f is None or id(f) in seen:
                continue
            seen.add(id(f))
            n += check_method(ix, rep, mon.cls, f, label)
    return n
